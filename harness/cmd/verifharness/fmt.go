//go:build verif

package main

// C19 - config fmt round-trips.  Drives the real config.Parse / config.Format /
// config.Compile, the real lexer and the real formatter helpers (through the white-box
// shim harness/shims/config/zz_verif_fmt.go).

import (
	"encoding/base64"
	"encoding/json"
	"fmt"
	"math"
	"net/netip"
	"os"
	"reflect"
	"sort"
	"strconv"
	"strings"
	"time"
	"unicode/utf8"

	"github.com/nuetzliches/hookaido/internal/config"
)

func init() {
	register("fmt-roundtrip", fmtRoundtrip)
	register("fmt-lex", fmtLex)
	register("fmt-values", fmtValues)
}

// ---------------------------------------------------------------------------
// rune-step encoding shared with the Coq model (Model/Lexer.v): the sequence of
// utf8.DecodeRuneInString steps; an undecodable byte b is 0x110000 + b.
// ---------------------------------------------------------------------------

func steps(s string) []int {
	out := make([]int, 0, len(s))
	for i := 0; i < len(s); {
		r, size := utf8.DecodeRuneInString(s[i:])
		if r == utf8.RuneError && size == 1 {
			out = append(out, 0x110000+int(s[i]))
		} else {
			out = append(out, int(r))
		}
		i += size
	}
	return out
}

// txt is a compact JSON form of a Go string: {"a": "..."} when every byte is printable
// ASCII or '\n' (then runes == bytes), else {"r": [steps]}.
type txt struct {
	A *string `json:"a,omitempty"`
	R []int   `json:"r,omitempty"`
}

func mkTxt(s string) txt {
	plain := true
	for i := 0; i < len(s); i++ {
		c := s[i]
		if !((c >= 0x20 && c <= 0x7e) || c == '\n') {
			plain = false
			break
		}
	}
	if plain {
		return txt{A: &s}
	}
	r := steps(s)
	if r == nil {
		r = []int{}
	}
	return txt{R: r}
}

func unb64(list []string) ([]string, error) {
	out := make([]string, len(list))
	for i, e := range list {
		b, err := base64.StdEncoding.DecodeString(e)
		if err != nil {
			return nil, err
		}
		out[i] = string(b)
	}
	return out, nil
}

func b64(b []byte) string { return base64.StdEncoding.EncodeToString(b) }

// ---------------------------------------------------------------------------
// canonical deep dump of config.Compiled + ValidationResult
// ---------------------------------------------------------------------------

func canonString(s string) any {
	if utf8.ValidString(s) {
		return s
	}
	return map[string]any{"__bytes_b64": b64([]byte(s))}
}

func canon(v reflect.Value) any {
	if !v.IsValid() {
		return nil
	}
	if v.CanInterface() {
		switch x := v.Interface().(type) {
		case time.Time:
			if x.IsZero() {
				return "time:zero"
			}
			return "time:" + x.UTC().Format(time.RFC3339Nano) + "|" + x.Format(time.RFC3339Nano)
		case netip.Prefix:
			return "prefix:" + x.String()
		case netip.Addr:
			return "addr:" + x.String()
		case time.Duration:
			return "dur:" + strconv.FormatInt(int64(x), 10)
		}
	}
	switch v.Kind() {
	case reflect.Bool:
		return v.Bool()
	case reflect.Int, reflect.Int8, reflect.Int16, reflect.Int32, reflect.Int64:
		return "i:" + strconv.FormatInt(v.Int(), 10)
	case reflect.Uint, reflect.Uint8, reflect.Uint16, reflect.Uint32, reflect.Uint64, reflect.Uintptr:
		return "u:" + strconv.FormatUint(v.Uint(), 10)
	case reflect.Float32, reflect.Float64:
		f := v.Float()
		return "f:" + strconv.FormatUint(math.Float64bits(f), 16) + "(" + strconv.FormatFloat(f, 'g', -1, 64) + ")"
	case reflect.String:
		return canonString(v.String())
	case reflect.Pointer, reflect.Interface:
		if v.IsNil() {
			return nil
		}
		return canon(v.Elem())
	case reflect.Slice, reflect.Array:
		out := make([]any, 0, v.Len()) // nil slice == empty slice
		for i := 0; i < v.Len(); i++ {
			out = append(out, canon(v.Index(i)))
		}
		return out
	case reflect.Map:
		type kv struct {
			k string
			v any
		}
		var kvs []kv
		it := v.MapRange()
		for it.Next() {
			kb, _ := json.Marshal(canon(it.Key()))
			kvs = append(kvs, kv{string(kb), canon(it.Value())})
		}
		sort.Slice(kvs, func(i, j int) bool { return kvs[i].k < kvs[j].k })
		out := make([]any, 0, len(kvs)) // nil map == empty map
		for _, e := range kvs {
			out = append(out, []any{e.k, e.v})
		}
		return map[string]any{"__map": out}
	case reflect.Struct:
		out := map[string]any{}
		t := v.Type()
		for i := 0; i < v.NumField(); i++ {
			f := t.Field(i)
			if !f.IsExported() {
				out[f.Name] = fmt.Sprintf("unexported:%s", f.Type.String())
				continue
			}
			out[f.Name] = canon(v.Field(i))
		}
		return out
	case reflect.Func, reflect.Chan, reflect.UnsafePointer:
		if v.IsNil() {
			return "nil-" + v.Kind().String()
		}
		return "non-nil-" + v.Kind().String()
	default:
		return "kind:" + v.Kind().String()
	}
}

type compileDump struct {
	OK       bool
	JSON     string   // canonical: compiled tree + ok + sorted errors + sorted warnings
	Ordered  string   // errors and warnings in the order Compile produced them
	Errors   []string `json:"-"`
	Warnings []string `json:"-"`
}

func sortedCopy(in []string) []any {
	c := append([]string(nil), in...)
	sort.Strings(c)
	out := make([]any, 0, len(c))
	for _, s := range c {
		out = append(out, canonString(s))
	}
	return out
}

func dumpCompile(cfg *config.Config) compileDump {
	compiled, res := config.Compile(cfg)
	tree := map[string]any{
		"compiled": canon(reflect.ValueOf(compiled)),
		"ok":       res.OK,
		"errors":   sortedCopy(res.Errors),
		"warnings": sortedCopy(res.Warnings),
	}
	jb, err := json.Marshal(tree)
	if err != nil {
		jb = []byte(`"marshal error: ` + err.Error() + `"`)
	}
	ob, _ := json.Marshal(map[string]any{"errors": res.Errors, "warnings": res.Warnings})
	return compileDump{OK: res.OK, JSON: string(jb), Ordered: string(ob), Errors: res.Errors, Warnings: res.Warnings}
}

// ---------------------------------------------------------------------------
// fmt-roundtrip
// ---------------------------------------------------------------------------

type fmtRTIn struct {
	Env   map[string]string `json:"env"`
	Unset []string          `json:"unset"`
	Texts []string          `json:"texts"` // base64
	Dumps bool              `json:"dumps"` // return both dumps even when equal
}

type fmtRTOut struct {
	ParseOK    bool   `json:"parse_ok"`
	ParseErr   string `json:"parse_err,omitempty"`
	FmtErr     string `json:"fmt_err,omitempty"`
	Formatted  string `json:"formatted,omitempty"` // base64
	ReparseOK  bool   `json:"reparse_ok"`
	ReparseErr string `json:"reparse_err,omitempty"`
	Fmt2Err    string `json:"fmt2_err,omitempty"`
	Idempotent bool   `json:"idempotent"`
	Format2    string `json:"format2,omitempty"` // base64, only when not idempotent
	CompileOK1 bool   `json:"compile_ok1"`
	CompileOK2 bool   `json:"compile_ok2"`
	Equal      bool   `json:"equal"`
	OrderEqual bool   `json:"order_equal"`
	Determ     bool   `json:"deterministic"` // Compile(Parse t) twice gave the same canonical dump
	Dump1      string `json:"dump1,omitempty"`
	Dump2      string `json:"dump2,omitempty"`
	NErrors    int    `json:"n_errors"`
	NWarnings  int    `json:"n_warnings"`
	Panic      string `json:"panic,omitempty"`
}

func roundtripOne(text string, dumps bool) (out fmtRTOut) {
	defer func() {
		if r := recover(); r != nil {
			out.Panic = fmt.Sprint(r)
		}
	}()
	cfg, err := config.Parse([]byte(text))
	if err != nil {
		out.ParseErr = err.Error()
		return out
	}
	out.ParseOK = true
	d1 := dumpCompile(cfg)
	d1b := dumpCompile(cfg)
	out.Determ = d1.JSON == d1b.JSON
	out.CompileOK1 = d1.OK
	out.NErrors = len(d1.Errors)
	out.NWarnings = len(d1.Warnings)
	f, err := config.Format(cfg)
	if err != nil {
		out.FmtErr = err.Error()
		return out
	}
	out.Formatted = b64(f)
	cfg2, err := config.Parse(f)
	if err != nil {
		out.ReparseErr = err.Error()
		if dumps {
			out.Dump1 = d1.JSON
		}
		return out
	}
	out.ReparseOK = true
	d2 := dumpCompile(cfg2)
	out.CompileOK2 = d2.OK
	out.Equal = d1.JSON == d2.JSON
	out.OrderEqual = d1.Ordered == d2.Ordered
	if !out.Equal || dumps {
		out.Dump1 = d1.JSON
		out.Dump2 = d2.JSON
	}
	f2, err := config.Format(cfg2)
	if err != nil {
		out.Fmt2Err = err.Error()
		return out
	}
	out.Idempotent = string(f2) == string(f)
	if !out.Idempotent {
		out.Format2 = b64(f2)
	}
	return out
}

func fmtRoundtrip(in []byte) (any, error) {
	var req fmtRTIn
	if err := json.Unmarshal(in, &req); err != nil {
		return nil, err
	}
	for _, k := range req.Unset {
		os.Unsetenv(k)
	}
	for k, v := range req.Env {
		os.Setenv(k, v)
	}
	texts, err := unb64(req.Texts)
	if err != nil {
		return nil, err
	}
	out := make([]fmtRTOut, len(texts))
	for i, t := range texts {
		out[i] = roundtripOne(t, req.Dumps)
	}
	return out, nil
}

// ---------------------------------------------------------------------------
// fmt-lex: the real lexer's token stream, plus the token-level property evaluated
// on the implementation: every value token, written by the real formatValue and lexed
// again by the real lexer, is the same single token.
// ---------------------------------------------------------------------------

type fmtLexIn struct {
	Texts     []string `json:"texts"`     // base64
	Normalize bool     `json:"normalize"` // apply normalizeInput first (what Parse hands to the lexer)
}

type lexTok struct {
	K int `json:"k"`
	T txt `json:"t"`
}

type fmtLexOut struct {
	Src    txt      `json:"src"` // what the lexer was given (after normalisation if requested)
	Tokens []lexTok `json:"tokens"`
	End    int      `json:"end"` // 0 EOF, 1 invalid utf-8, 2 unterminated string, 3 unterminated escape, 8 other
	Err    string   `json:"err,omitempty"`
	RTBad  []int    `json:"rt_bad,omitempty"` // indexes of value tokens that do not survive formatValue + lexer
	Values int      `json:"values"`
	Panic  string   `json:"panic,omitempty"`
}

func errClass(err error) int {
	if err == nil {
		return 0
	}
	m := err.Error()
	switch {
	case strings.HasPrefix(m, "invalid utf-8"):
		return 1
	case strings.HasPrefix(m, "unterminated string"):
		return 2
	case strings.HasPrefix(m, "unterminated escape"):
		return 3
	}
	return 8
}

func lexOne(src string) (out fmtLexOut) {
	defer func() {
		if r := recover(); r != nil {
			out.Panic = fmt.Sprint(r)
		}
	}()
	out.Src = mkTxt(src)
	toks, err := config.VerifLex(src)
	out.End = errClass(err)
	if err != nil {
		out.Err = err.Error()
	}
	out.Tokens = make([]lexTok, 0, len(toks))
	for i, t := range toks {
		out.Tokens = append(out.Tokens, lexTok{K: t.Kind, T: mkTxt(t.Text)})
		if t.Kind == 1 || t.Kind == 2 {
			out.Values++
			for _, tail := range []string{"\n", " x"} {
				w := config.VerifFormatValue(t.Text, t.Kind == 2) + tail
				back, berr := config.VerifLex(w)
				ok := berr == nil && len(back) >= 1 && back[0].Kind == t.Kind && back[0].Text == t.Text
				if ok && tail == "\n" && len(back) != 1 {
					ok = false
				}
				if ok && tail == " x" && !(len(back) == 2 && back[1].Kind == 1 && back[1].Text == "x") {
					ok = false
				}
				if !ok {
					out.RTBad = append(out.RTBad, i)
					break
				}
			}
		}
	}
	return out
}

func fmtLex(in []byte) (any, error) {
	var req fmtLexIn
	if err := json.Unmarshal(in, &req); err != nil {
		return nil, err
	}
	kinds := config.VerifTokenKinds()
	if kinds != [6]int{0, 1, 2, 3, 4, 5} {
		return nil, fmt.Errorf("token kind constants renumbered: %v", kinds)
	}
	texts, err := unb64(req.Texts)
	if err != nil {
		return nil, err
	}
	out := make([]fmtLexOut, len(texts))
	for i, t := range texts {
		if req.Normalize {
			t = string(config.VerifNormalizeInput([]byte(t)))
		}
		out[i] = lexOne(t)
	}
	return out, nil
}

// ---------------------------------------------------------------------------
// fmt-values: the real quoteString / isUnquoted*Safe / formatValue / formatRoutePath
// ---------------------------------------------------------------------------

type fmtValOut struct {
	Src     txt  `json:"src"`
	Quote   txt  `json:"quote"`
	VSafe   bool `json:"vsafe"`
	PSafe   bool `json:"psafe"`
	FVFalse txt  `json:"fv_false"`
	FVTrue  txt  `json:"fv_true"`
	FPFalse txt  `json:"fp_false"`
	FPTrue  txt  `json:"fp_true"`
	// the quoted spelling lexed by the real lexer: kind/text of the first token, number of tokens, end class
	QK   int `json:"qk"`
	QT   txt `json:"qt"`
	QN   int `json:"qn"`
	QEnd int `json:"qend"`
}

func fmtValues(in []byte) (any, error) {
	var req struct {
		Strings []string `json:"strings"`
	}
	if err := json.Unmarshal(in, &req); err != nil {
		return nil, err
	}
	ss, err := unb64(req.Strings)
	if err != nil {
		return nil, err
	}
	out := make([]fmtValOut, len(ss))
	for i, s := range ss {
		q := config.VerifQuoteString(s)
		o := fmtValOut{
			Src:     mkTxt(s),
			Quote:   mkTxt(q),
			VSafe:   config.VerifIsUnquotedValueSafe(s),
			PSafe:   config.VerifIsUnquotedPathSafe(s),
			FVFalse: mkTxt(config.VerifFormatValue(s, false)),
			FVTrue:  mkTxt(config.VerifFormatValue(s, true)),
			FPFalse: mkTxt(config.VerifFormatRoutePath(s, false)),
			FPTrue:  mkTxt(config.VerifFormatRoutePath(s, true)),
		}
		toks, lerr := config.VerifLex(q + " tail")
		o.QEnd = errClass(lerr)
		o.QN = len(toks)
		if len(toks) > 0 {
			o.QK = toks[0].Kind
			o.QT = mkTxt(toks[0].Text)
		}
		out[i] = o
	}
	return out, nil
}
