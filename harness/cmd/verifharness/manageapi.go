//go:build verif

package main

// C14, request layer: populations built through the Store API (memory and SQLite), then the REAL
// admin.Server - wired by the real app.startServers (shim app.VerifC15Start, as publish.go does) -
// is driven over loopback HTTP with generated requests for every queue-mutation endpoint; for
// SQLite groups the same file is afterwards driven through the real MCP server tools over stdio
// JSON-RPC framing.  Recorded per request: status, decoded response fields, the raw body head and
// the full store snapshot (white-box, incl. lease columns) whenever it differs from the previous one.

import (
	"bytes"
	"encoding/json"
	"fmt"
	"io"
	"net/http"
	"os"
	"path/filepath"
	"strings"
	"sync"
	"time"

	"github.com/nuetzliches/hookaido/internal/admin"
	"github.com/nuetzliches/hookaido/internal/config"
	"github.com/nuetzliches/hookaido/internal/mcp"
	"github.com/nuetzliches/hookaido/internal/queue"
)

func init() {
	register("manageapi", mgRun)
}

type mgSetup struct {
	Op     string   `json:"op"` // enqueue | dequeue_all | finish | cancel
	ID     string   `json:"id"`
	Route  string   `json:"route"`
	Target string   `json:"target"`
	Recv   int64    `json:"recv"`
	TTL    int64    `json:"ttl"`
	How    string   `json:"how"` // finish: dead | ack | nack | keep
	Reason string   `json:"reason"`
	IDs    []string `json:"ids"`
}

type mgRequest struct {
	Method  string            `json:"method"`
	Path    string            `json:"path"` // below the admin prefix
	Headers map[string]string `json:"headers"`
	Body    string            `json:"body"`
}

type mgMcpCall struct {
	Tool string          `json:"tool"`
	Args json.RawMessage `json:"args"`
}

type mgMcp struct {
	UseConfig bool        `json:"use_config"`
	Principal string      `json:"principal"`
	Role      string      `json:"role"`
	Mutations bool        `json:"mutations"`
	Calls     []mgMcpCall `json:"calls"`
}

type mgGroup struct {
	Config   string      `json:"config"`
	Backend  string      `json:"backend"`
	Now      int64       `json:"now"`
	Setup    []mgSetup   `json:"setup"`
	Requests []mgRequest `json:"requests"`
	Mcp      *mgMcp      `json:"mcp"`
}

type mgIn struct {
	Dir    string    `json:"dir"`
	Groups []mgGroup `json:"groups"`
	Par    int       `json:"par"`
}

type mgResp struct {
	Status    int    `json:"status"` // HTTP status; MCP: 200 = result, 0 = isError result, -1 = JSON-RPC error
	Code      string `json:"code"`
	Fields    map[string]int `json:"fields"` // canceled / requeued / resumed / deleted / matched when present
	HasPrev   bool   `json:"has_preview"`
	Preview   bool   `json:"preview_only"`
	Body      string `json:"body"`
	Same      bool   `json:"same"` // snapshot equals the previous one
	After     []qRow `json:"after,omitempty"`
	T0        int64  `json:"t0"` // wall clock around the call (MCP: the store's clock is the wall clock)
	T1        int64  `json:"t1"`
	Err       string `json:"err,omitempty"`
	Audit     []string `json:"audit,omitempty"` // MCP: "result" of every audit record the call appended ("?" for a line that is not JSON)
	AuditSet  bool     `json:"audit_captured"`
}

type mgGroupOut struct {
	Err        string      `json:"err,omitempty"`
	Compiled   pubCompiled `json:"compiled"`
	Setup      []qRow      `json:"setup"`
	Resps      []mgResp    `json:"resps"`
	APIListing []string    `json:"api_listing"` // "id|route|target|state" from GET /messages after the HTTP phase
	APIStatus  int         `json:"api_status"`
	McpResps   []mgResp    `json:"mcp_resps"`
	Consts     map[string]int `json:"consts"`
}

func mgRows(envs []queue.Envelope) []qRow {
	out := make([]qRow, 0, len(envs))
	for _, e := range envs {
		out = append(out, toRow(e))
	}
	return out
}

func mgSameRows(a, b []qRow) bool {
	if len(a) != len(b) {
		return false
	}
	ja, _ := json.Marshal(a)
	jb, _ := json.Marshal(b)
	return bytes.Equal(ja, jb)
}

func mgDecode(body []byte, r *mgResp) {
	var m map[string]any
	if err := json.Unmarshal(body, &m); err != nil {
		r.Err = "response not JSON"
		return
	}
	if c, ok := m["code"].(string); ok {
		r.Code = c
	}
	r.Fields = map[string]int{}
	for _, k := range []string{"canceled", "requeued", "resumed", "deleted", "matched"} {
		if v, ok := m[k].(float64); ok {
			r.Fields[k] = int(v)
		}
	}
	if v, ok := m["preview_only"].(bool); ok {
		r.HasPrev = true
		r.Preview = v
	}
}

func mgHead(b []byte) string {
	if len(b) > 240 {
		return string(b[:240])
	}
	return string(b)
}

func mgSetupStore(st queue.Store, steps []mgSetup) error {
	leases := map[string]string{}
	for _, su := range steps {
		switch su.Op {
		case "enqueue":
			env := queue.Envelope{ID: su.ID, Route: su.Route, Target: su.Target, Payload: []byte("p:" + su.ID)}
			if su.Recv != 0 {
				env.ReceivedAt = time.Unix(0, su.Recv).UTC()
			}
			if err := st.Enqueue(env); err != nil {
				return fmt.Errorf("setup enqueue %s: %v", su.ID, err)
			}
		case "dequeue_all":
			for round := 0; round < 1000; round++ {
				resp, err := st.Dequeue(queue.DequeueRequest{Batch: 100, LeaseTTL: time.Duration(su.TTL)})
				if err != nil {
					return fmt.Errorf("setup dequeue: %v", err)
				}
				if len(resp.Items) == 0 {
					break
				}
				for _, it := range resp.Items {
					leases[it.ID] = it.LeaseID
				}
			}
		case "finish":
			l, ok := leases[su.ID]
			if !ok {
				return fmt.Errorf("setup finish %s: not leased", su.ID)
			}
			var err error
			switch su.How {
			case "dead":
				err = st.MarkDead(l, su.Reason)
			case "ack":
				err = st.Ack(l)
			case "nack":
				err = st.Nack(l, 0)
			case "keep":
			default:
				err = fmt.Errorf("how %q", su.How)
			}
			if err != nil {
				return fmt.Errorf("setup finish %s %s: %v", su.ID, su.How, err)
			}
		case "cancel":
			if _, err := st.CancelMessages(queue.MessageCancelRequest{IDs: su.IDs}); err != nil {
				return fmt.Errorf("setup cancel: %v", err)
			}
		default:
			return fmt.Errorf("setup op %q", su.Op)
		}
	}
	return nil
}

func mgGroupRun(dir string, g mgGroup) (out mgGroupOut) {
	out.Consts = map[string]int{
		"admin_default_list_limit": admin.VerifDefaultListLimit, "admin_max_list_limit": admin.VerifMaxListLimit,
		"mcp_max_list_limit": mcp.VerifMaxListLimit,
	}
	clk := &pubClock{}
	clk.set(g.Now)
	var snap pubSnapshotter
	var closeStore func()
	var raw queue.Store
	compiled, addrs, run, _, err := pubStartWithRetry(g.Config, func(c config.Compiled) (queue.Store, error) {
		if closeStore != nil {
			closeStore()
			_ = os.RemoveAll(dir)
		}
		s, sn, cl, err := pubOpenStore(g.Backend, dir, c, clk)
		if err != nil {
			return nil, err
		}
		raw, snap, closeStore = s, sn, cl
		return s, nil
	})
	if err != nil {
		out.Err = err.Error()
		return
	}
	closed := false
	shutdown := func() {
		if !closed {
			closed = true
			run.Shutdown()
			closeStore()
		}
	}
	defer shutdown()
	out.Compiled = pubDumpCompiled(compiled)

	if err := mgSetupStore(raw, g.Setup); err != nil {
		out.Err = err.Error()
		return
	}
	envs, err := snap.snapshot()
	if err != nil {
		out.Err = err.Error()
		return
	}
	prev := mgRows(envs)
	out.Setup = prev

	base := "http://" + addrs[2] + strings.TrimRight(compiled.AdminAPI.Prefix, "/")
	client := &http.Client{Timeout: 60 * time.Second}
	for k, rq := range g.Requests {
		clk.set(g.Now + int64(k+1)*1000000)
		var resp mgResp
		req, err := http.NewRequest(rq.Method, base+rq.Path, bytes.NewReader([]byte(rq.Body)))
		if err != nil {
			resp.Err = err.Error()
			out.Resps = append(out.Resps, resp)
			continue
		}
		req.Header.Set("Content-Type", "application/json")
		for hk, hv := range rq.Headers {
			req.Header.Set(hk, hv)
		}
		resp.T0 = time.Now().UnixNano()
		hr, err := client.Do(req)
		if err != nil {
			resp.Err = err.Error()
			out.Resps = append(out.Resps, resp)
			continue
		}
		body, _ := io.ReadAll(hr.Body)
		_ = hr.Body.Close()
		resp.T1 = time.Now().UnixNano()
		resp.Status = hr.StatusCode
		resp.Body = mgHead(body)
		mgDecode(body, &resp)
		envs, err := snap.snapshot()
		if err != nil {
			resp.Err = err.Error()
		}
		rows := mgRows(envs)
		if mgSameRows(rows, prev) {
			resp.Same = true
		} else {
			resp.After = rows
			prev = rows
		}
		out.Resps = append(out.Resps, resp)
	}

	// the observation the property names: GET /messages
	greq, _ := http.NewRequest(http.MethodGet, base+"/messages?limit=1000", nil)
	if len(g.Requests) > 0 {
		if tok, ok := g.Requests[0].Headers["Authorization"]; ok {
			greq.Header.Set("Authorization", tok)
		}
	}
	if gr, err := client.Do(greq); err == nil {
		gb, _ := io.ReadAll(gr.Body)
		_ = gr.Body.Close()
		out.APIStatus = gr.StatusCode
		var lst struct {
			Items []struct {
				ID     string `json:"id"`
				State  string `json:"state"`
				Target string `json:"target"`
				Route  string `json:"route"`
			} `json:"items"`
		}
		_ = json.Unmarshal(gb, &lst)
		for _, it := range lst.Items {
			out.APIListing = append(out.APIListing, it.ID+"|"+it.Route+"|"+it.Target+"|"+it.State)
		}
	}

	if g.Mcp == nil || g.Backend != "sqlite" {
		return
	}
	// ---- MCP phase on the same SQLite file ----
	shutdown()
	dbPath := filepath.Join(dir, "q.db")
	cfgPath := ""
	if g.Mcp.UseConfig {
		cfgPath = filepath.Join(dir, "Hookaidofile")
		text := g.Config
		for i, ph := range []string{"%INGRESS%", "%PULL%", "%ADMIN%", "%GRPC%"} {
			text = strings.ReplaceAll(text, ph, addrs[i])
		}
		if err := os.WriteFile(cfgPath, []byte(text), 0o600); err != nil {
			out.Err = err.Error()
			return
		}
	}
	view, err := queue.NewSQLiteStore(dbPath, queue.WithSQLiteCheckpointInterval(0))
	if err != nil {
		out.Err = "mcp view: " + err.Error()
		return
	}
	defer func() { _ = view.Close() }()
	set := mcpSetting{Role: g.Mcp.Role, Mut: g.Mcp.Mutations, Rt: false, Principal: g.Mcp.Principal}
	for _, call := range g.Mcp.Calls {
		var resp mgResp
		var args any
		if err := json.Unmarshal(call.Args, &args); err != nil {
			resp.Err = "args: " + err.Error()
			out.McpResps = append(out.McpResps, resp)
			continue
		}
		resp.T0 = time.Now().UnixNano()
		var auditBuf bytes.Buffer
		frames, err := rpcCall(func(i io.Reader, o io.Writer) *mcp.Server {
			return newMcpServer(i, o, &auditBuf, cfgPath, dbPath, filepath.Join(dir, "pid"), set)
		}, []any{map[string]any{"jsonrpc": "2.0", "id": 7, "method": "tools/call",
			"params": map[string]any{"name": call.Tool, "arguments": args}}})
		resp.T1 = time.Now().UnixNano()
		resp.AuditSet = true
		for _, line := range strings.Split(strings.TrimSpace(auditBuf.String()), "\n") {
			if strings.TrimSpace(line) == "" {
				continue
			}
			var rec map[string]any
			if json.Unmarshal([]byte(line), &rec) != nil {
				resp.Audit = append(resp.Audit, "?")
				continue
			}
			res, _ := rec["result"].(string)
			resp.Audit = append(resp.Audit, res)
		}
		if err != nil || len(frames) != 1 {
			resp.Err = fmt.Sprintf("rpc: %v (%d frames)", err, len(frames))
			out.McpResps = append(out.McpResps, resp)
			continue
		}
		if _, bad := frames[0]["error"]; bad {
			resp.Status = -1
			b, _ := json.Marshal(frames[0]["error"])
			resp.Body = mgHead(b)
		} else if res, ok := frames[0]["result"].(map[string]any); ok {
			isErr, _ := res["isError"].(bool)
			if isErr {
				resp.Status = 0
				if cc, ok := res["content"].([]any); ok && len(cc) > 0 {
					if cm, ok := cc[0].(map[string]any); ok {
						t, _ := cm["text"].(string)
						resp.Body = mgHead([]byte(t))
					}
				}
			} else {
				resp.Status = 200
				b, _ := json.Marshal(res["structuredContent"])
				resp.Body = mgHead(b)
				mgDecode(b, &resp)
			}
		}
		envs, err := view.VerifSnapshot()
		if err != nil {
			resp.Err = err.Error()
		}
		rows := mgRows(envs)
		if mgSameRows(rows, prev) {
			resp.Same = true
		} else {
			resp.After = rows
			prev = rows
		}
		out.McpResps = append(out.McpResps, resp)
	}
	return
}

func mgRun(in []byte) (any, error) {
	var min mgIn
	if err := json.Unmarshal(in, &min); err != nil {
		return nil, err
	}
	par := min.Par
	if par <= 0 {
		par = 8
	}
	outs := make([]mgGroupOut, len(min.Groups))
	sem := make(chan struct{}, par)
	var wg sync.WaitGroup
	for i := range min.Groups {
		wg.Add(1)
		sem <- struct{}{}
		go func(i int) {
			defer wg.Done()
			defer func() { <-sem }()
			defer func() {
				if r := recover(); r != nil {
					outs[i].Err = fmt.Sprintf("panic: %v", r)
				}
			}()
			dir := filepath.Join(min.Dir, fmt.Sprintf("mg%d", i))
			outs[i] = mgGroupRun(dir, min.Groups[i])
			_ = os.RemoveAll(dir)
		}(i)
	}
	wg.Wait()
	return outs, nil
}
