//go:build verif

package main

// long-poll: a consumer is already waiting inside Dequeue(MaxWait > 0) when a message becomes ready - because another holder's lease
// runs out, because a nack delay matures, or because it is enqueued.  C05: the waiting dequeue must return it (min(batch, ready) is
// judged at every re-check of the wait, not only on entry).  The store clock is injected and moved by the driver while the call waits.

import (
	"encoding/json"
	"path/filepath"
	"time"

	"github.com/nuetzliches/hookaido/internal/queue"
)

func init() { register("long-poll", longPoll) }

type lpRow struct {
	Backend  string `json:"backend"`
	Scenario string `json:"scenario"`
	Items    int    `json:"items"`
	WaitedMs int64  `json:"waited_ms"`
	// what is left of the first returned item's lease at the instant the call returns (store clock): the consumer asked for one minute
	LeaseLeftNs int64 `json:"lease_left_ns"`
	Err      string `json:"err,omitempty"`
}

func longPoll(in []byte) (any, error) {
	var req struct {
		Dir       string `json:"dir"`
		MaxWaitMs int64  `json:"max_wait_ms"`
	}
	if err := json.Unmarshal(in, &req); err != nil {
		return nil, err
	}
	base := int64(1_700_000_000) * int64(time.Second)
	var rows []lpRow
	for _, backend := range []string{"memory", "sqlite"} {
		for k, scen := range []string{"lease-expires", "nack-delay-matures", "enqueued", "nothing-becomes-ready"} {
			clk := &clock{}
			clk.set(base)
			st, closeFn, _, err := openStore(backend, qCfg{}, clk, filepath.Join(req.Dir, "lp-"+backend+"-"+itoa(k)+".db"))
			row := lpRow{Backend: backend, Scenario: scen}
			if err != nil {
				row.Err = err.Error()
				rows = append(rows, row)
				continue
			}
			switch scen {
			case "lease-expires":
				_ = st.Enqueue(queue.Envelope{ID: "m", Route: "/r", Target: "t", Payload: []byte("x")})
				_, _ = st.Dequeue(queue.DequeueRequest{Route: "/r", Target: "t", Batch: 1, LeaseTTL: 50 * time.Millisecond})
			case "nack-delay-matures":
				_ = st.Enqueue(queue.Envelope{ID: "m", Route: "/r", Target: "t", Payload: []byte("x")})
				r, _ := st.Dequeue(queue.DequeueRequest{Route: "/r", Target: "t", Batch: 1, LeaseTTL: time.Minute})
				if len(r.Items) == 1 {
					_ = st.Nack(r.Items[0].LeaseID, 50*time.Millisecond)
				}
			}
			clk.set(base + int64(20*time.Millisecond))
			type res struct {
				n    int
				err  error
				left int64
			}
			ch := make(chan res, 1)
			t0 := time.Now()
			go func() {
				r, err := st.Dequeue(queue.DequeueRequest{Route: "/r", Target: "t", Batch: 5, LeaseTTL: time.Minute, MaxWait: time.Duration(req.MaxWaitMs) * time.Millisecond})
				left := int64(0)
				if len(r.Items) > 0 {
					left = int64(r.Items[0].LeaseUntil.Sub(clk.now()))
				}
				ch <- res{len(r.Items), err, left}
			}()
			time.Sleep(40 * time.Millisecond) // the consumer is inside its wait now
			switch scen {
			case "lease-expires", "nack-delay-matures":
				clk.set(base + int64(time.Second))
			case "enqueued":
				_ = st.Enqueue(queue.Envelope{ID: "late", Route: "/r", Target: "t", Payload: []byte("y")})
			}
			select {
			case r := <-ch:
				row.Items = r.n
				row.LeaseLeftNs = r.left
				if r.err != nil {
					row.Err = r.err.Error()
				}
			case <-time.After(time.Duration(req.MaxWaitMs)*time.Millisecond + 3*time.Second):
				row.Err = "the long poll did not return"
			}
			row.WaitedMs = time.Since(t0).Milliseconds()
			closeFn()
			rows = append(rows, row)
		}
	}
	return map[string]any{"rows": rows}, nil
}
