//go:build verif

package main

// bulk-ready: MANY messages become ready at the same instant - hundreds or thousands of leases that run out together (a consumer that
// took batch after batch and then died; a restart with that many messages leased), nack delays or scheduled deliveries that mature
// together.  C05: the very next dequeues - a millisecond apart, inside any sweep throttle - each return min(batch, ready) messages
// (Theorem C05_dequeue_count), none is left hidden.  The store clock is injected; no model evaluation (the expected counts are the closed form).

import (
	"encoding/json"
	"fmt"
	"os"
	"path/filepath"
	"time"

	"github.com/nuetzliches/hookaido/internal/queue"
)

func init() { register("bulk-ready", bulkReady) }

type brCase struct {
	Backend  string `json:"backend"`
	Scenario string `json:"scenario"` // lease-expires restart-then-expires nack-delay-matures scheduled-matures
	N        int    `json:"n"`
	Batch    int    `json:"batch"`
	StepNs   int64  `json:"step_ns"` // clock step between the re-offering dequeues
}

type brOut struct {
	Counts   []int  `json:"counts"`   // items returned by each re-offering dequeue
	Distinct int    `json:"distinct"` // distinct message ids among them
	Leased   int    `json:"leased_before"`
	Err      string `json:"err,omitempty"`
}

func bulkReady(in []byte) (any, error) {
	var req struct {
		Dir   string   `json:"dir"`
		Cases []brCase `json:"cases"`
	}
	if err := json.Unmarshal(in, &req); err != nil {
		return nil, err
	}
	outs := make([]brOut, len(req.Cases))
	for i, c := range req.Cases {
		outs[i] = brRun(req.Dir, i, c)
	}
	return map[string]any{"cases": outs}, nil
}

func brRun(dir string, idx int, c brCase) (out brOut) {
	base := int64(1_700_000_000) * int64(time.Second)
	clk := &clock{}
	clk.set(base)
	path := filepath.Join(dir, fmt.Sprintf("br-%d-%d.db", os.Getpid(), idx))
	st, closeFn, _, err := openStore(c.Backend, qCfg{}, clk, path)
	if err != nil {
		out.Err = err.Error()
		return
	}
	defer func() { closeFn() }()
	ttl := 2 * time.Second
	for i := 0; i < c.N; i += 100 {
		var envs []queue.Envelope
		for j := i; j < i+100 && j < c.N; j++ {
			env := queue.Envelope{ID: fmt.Sprintf("b%06d", j), Route: "/r", Target: "t", Payload: []byte("x")}
			if c.Scenario == "scheduled-matures" {
				env.NextRunAt = time.Unix(0, base+int64(ttl)).UTC()
			}
			envs = append(envs, env)
		}
		if _, err := st.EnqueueBatch(envs); err != nil {
			out.Err = "enqueue: " + err.Error()
			return
		}
	}
	now := base
	if c.Scenario != "scheduled-matures" {
		for got := 0; got < c.N; {
			now += int64(time.Microsecond)
			clk.set(now)
			r, err := st.Dequeue(queue.DequeueRequest{Route: "/r", Batch: 100, LeaseTTL: ttl})
			if err != nil || len(r.Items) == 0 {
				out.Err = fmt.Sprintf("set-up dequeue returned %d items (%v) after %d", len(r.Items), err, got)
				return
			}
			got += len(r.Items)
			if c.Scenario == "nack-delay-matures" {
				for _, it := range r.Items {
					if err := st.Nack(it.LeaseID, ttl); err != nil {
						out.Err = "nack: " + err.Error()
						return
					}
				}
			}
		}
		out.Leased = c.N
	}
	if c.Scenario == "restart-then-expires" && c.Backend == "sqlite" {
		closeFn()
		st, closeFn, _, err = openStore(c.Backend, qCfg{}, clk, path)
		if err != nil {
			out.Err = "reopen: " + err.Error()
			closeFn = func() {}
			return
		}
	}
	now += int64(2*ttl) + int64(time.Second)
	clk.set(now)
	seen := map[string]bool{}
	rounds := (c.N+c.Batch-1)/c.Batch + 1
	for k := 0; k < rounds; k++ {
		now += c.StepNs
		clk.set(now)
		r, err := st.Dequeue(queue.DequeueRequest{Route: "/r", Batch: c.Batch, LeaseTTL: time.Hour})
		if err != nil {
			out.Err = "dequeue: " + err.Error()
			return
		}
		out.Counts = append(out.Counts, len(r.Items))
		for _, it := range r.Items {
			seen[it.ID] = true
		}
	}
	out.Distinct = len(seen)
	return
}
