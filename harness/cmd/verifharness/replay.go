//go:build verif

package main

// C09 drivers.
//   hmac-seq   : white-box - the real ingress.HMACAuth.Verify with an injected Now, fed a
//                history of requests / authenticator replacements (InheritNonces); after every
//                event the nonce cache is snapshotted (shim internal/ingress/zz_verif_c09.go).
//   concurrent / race steps of auth-run (black-box runtime, see ingressauth.go).

import (
	"encoding/base64"
	"encoding/hex"
	"encoding/json"
	"net/http"
	"sort"
	"sync"
	"sync/atomic"
	"time"

	"github.com/nuetzliches/hookaido/internal/ingress"
)

func init() {
	register("hmac-seq", hmacSeq)
}

type hsCfg struct {
	Secrets   []string `json:"secrets"` // hex
	SigHeader string   `json:"sig_header"`
	TsHeader  string   `json:"ts_header"`
	NonceHdr  string   `json:"nonce_header"`
	Tolerance int64    `json:"tolerance"`
}

type hsEvent struct {
	Op      string      `json:"op"` // verify | inherit | fresh
	Now     int64       `json:"now"`
	Method  string      `json:"method"`
	Path    string      `json:"path"`
	Headers [][2]string `json:"headers"`
	Body    string      `json:"body"` // hex
	Cfg     *hsCfg      `json:"cfg"`
	Snap    bool        `json:"snap"`
}

type hsHistory struct {
	Cfg    hsCfg     `json:"cfg"`
	Events []hsEvent `json:"events"`
}

type hsIn struct {
	Histories []hsHistory `json:"histories"`
}

type hsEvOut struct {
	OK    bool       `json:"ok"`
	Cache [][2]any   `json:"cache,omitempty"` // sorted (nonce, expiry ns)
	Size  int        `json:"size"`
}

func hsBuild(c hsCfg, now func() time.Time) *ingress.HMACAuth {
	var secs [][]byte
	for _, s := range c.Secrets {
		b, _ := hex.DecodeString(s)
		secs = append(secs, b)
	}
	a := ingress.NewHMACAuth(secs)
	if c.SigHeader != "" {
		a.SignatureHeader = c.SigHeader
	}
	if c.TsHeader != "" {
		a.TimestampHeader = c.TsHeader
	}
	if c.NonceHdr != "" {
		a.NonceHeader = c.NonceHdr
	}
	a.Tolerance = time.Duration(c.Tolerance)
	a.Now = now
	return a
}

func hmacSeq(in []byte) (any, error) {
	var h hsIn
	if err := json.Unmarshal(in, &h); err != nil {
		return nil, err
	}
	out := make([][]hsEvOut, 0, len(h.Histories))
	for _, hist := range h.Histories {
		var clock int64
		now := func() time.Time { return time.Unix(0, clock) }
		cur := hsBuild(hist.Cfg, now)
		curCfg := hist.Cfg
		var evs []hsEvOut
		for _, ev := range hist.Events {
			eo := hsEvOut{}
			switch ev.Op {
			case "verify":
				clock = ev.Now
				r := &http.Request{Method: ev.Method, Header: http.Header{}}
				for _, kv := range ev.Headers {
					r.Header.Add(kv[0], kv[1])
				}
				body, _ := hex.DecodeString(ev.Body)
				eo.OK = cur.Verify(r, ev.Path, body) == nil
			case "inherit":
				if ev.Cfg != nil {
					curCfg = *ev.Cfg
				}
				next := hsBuild(curCfg, now)
				next.InheritNonces(cur)
				cur = next
				eo.OK = true
			case "fresh":
				if ev.Cfg != nil {
					curCfg = *ev.Cfg
				}
				cur = hsBuild(curCfg, now)
				eo.OK = true
			}
			snap := ingress.VerifNonceSnapshot(cur)
			eo.Size = len(snap)
			if ev.Snap {
				keys := make([]string, 0, len(snap))
				for k := range snap {
					keys = append(keys, k)
				}
				sort.Strings(keys)
				for _, k := range keys {
					eo.Cache = append(eo.Cache, [2]any{hex.EncodeToString([]byte(k)), snap[k]})
				}
			}
			evs = append(evs, eo)
		}
		out = append(out, evs)
	}
	return out, nil
}

// ---------------------------------------------------------------------------
// black-box steps

// doConcurrent: N goroutines write the same captured request at the same clock value.
func (a *arRuntime) doConcurrent(st arStep) arStepOut {
	out := arStepOut{Op: "concurrent", Calls: []arEnq{}, NewItems: []arEnq{}}
	raw, err := base64.StdEncoding.DecodeString(st.Wire)
	if err != nil {
		out.Status = -9
		return out
	}
	n := st.N
	if n <= 0 {
		n = 32
	}
	a.clock.Store(st.Now)
	a.store.arm(0)
	a.fwd.set(st.Fwd)
	a.takeRecords()
	out.TotalB = a.total()
	statuses := make([]int, n)
	var wg sync.WaitGroup
	start := make(chan struct{})
	for i := 0; i < n; i++ {
		wg.Add(1)
		go func(i int) {
			defer wg.Done()
			<-start
			statuses[i] = a.send(raw, false)
		}(i)
	}
	close(start)
	wg.Wait()
	out.TotalA = a.total()
	a.takeRecords()
	out.Statuses = statuses
	out.Calls = a.store.taken()
	out.NewItems = a.newItems(out.TotalA - out.TotalB)
	return out
}

// doRace: request A takes its clock reading (st.Now) and is then held - as a goroutine
// descheduled between `now()` and the nonce mutex would be - while request B (reading
// st.NowB) is served completely; then A continues.  Statuses = [A, B].
func (a *arRuntime) doRace(st arStep) arStepOut {
	out := arStepOut{Op: "race", Calls: []arEnq{}, NewItems: []arEnq{}}
	rawA, err1 := base64.StdEncoding.DecodeString(st.Wire)
	rawB, err2 := base64.StdEncoding.DecodeString(st.WireB)
	if err1 != nil || err2 != nil {
		out.Status = -9
		return out
	}
	a.store.arm(0)
	a.fwd.set(st.Fwd)
	a.takeRecords()
	out.TotalB = a.total()
	var calls atomic.Int32
	entered := make(chan struct{})
	release := make(chan struct{})
	hook := func() time.Time {
		if calls.Add(1) == 1 {
			t := time.Unix(0, st.Now)
			close(entered)
			<-release
			return t
		}
		return time.Unix(0, st.NowB)
	}
	a.nowHook.Store(hook)
	var sa, sb int
	doneA := make(chan struct{})
	doneB := make(chan struct{})
	go func() { sa = a.send(rawA, false); close(doneA) }()
	select {
	case <-entered:
	case <-time.After(3 * time.Second):
	}
	// B runs while A is held.  If the clock is read under the cache mutex (current code) B blocks
	// on that mutex until A is released; if it is read before the mutex B completes first.
	go func() { sb = a.send(rawB, false); close(doneB) }()
	select {
	case <-doneB:
	case <-time.After(400 * time.Millisecond):
	}
	close(release)
	<-doneA
	<-doneB
	a.nowHook.Store((func() time.Time)(nil))
	out.TotalA = a.total()
	a.takeRecords()
	out.Statuses = []int{sa, sb}
	out.Calls = a.store.taken()
	out.NewItems = a.newItems(out.TotalA - out.TotalB)
	return out
}
