//go:build verif

package main

// wire-answer: the target ANSWERS - a complete status line and header - and then something goes wrong with the response body: fewer
// bytes than Content-Length announced and the connection closed, a chunked body that breaks, a body that stalls until the per-target
// timeout.  C06 classifies a delivery by the status the target answered: the real HTTPDeliverer -> the real classifyDelivery on a real
// store (PushDispatcher.handleDelivery through the C06 shim).

import (
	"bufio"
	"context"
	"encoding/json"
	"fmt"
	"io"
	"net"
	"net/http"
	"time"

	"github.com/nuetzliches/hookaido/internal/dispatcher"
)

func init() { register("wire-answer", wireAnswer) }

type waCase struct {
	Status int    `json:"status"`
	Body   string `json:"body"` // complete | short | chunked-break | stall | none
}

type waOut struct {
	StatusCode int    `json:"status_code"`
	Err        string `json:"err"`
	Requests   int    `json:"requests"`
}

func wireAnswer(in []byte) (any, error) {
	var req struct {
		Cases []waCase `json:"cases"`
	}
	if err := json.Unmarshal(in, &req); err != nil {
		return nil, err
	}
	outs := make([]waOut, len(req.Cases))
	for i, c := range req.Cases {
		ln, err := net.Listen("tcp", "127.0.0.1:0")
		if err != nil {
			return nil, err
		}
		got := make(chan struct{}, 16)
		c := c
		go func() {
			for {
				conn, err := ln.Accept()
				if err != nil {
					return
				}
				go func(conn net.Conn) {
					defer conn.Close()
					r, err := http.ReadRequest(bufio.NewReader(conn))
					if err != nil {
						return
					}
					_, _ = io.Copy(io.Discard, r.Body)
					got <- struct{}{}
					head := fmt.Sprintf("HTTP/1.1 %d Answer\r\nConnection: close\r\n", c.Status)
					switch c.Body {
					case "complete":
						_, _ = io.WriteString(conn, head+"Content-Length: 7\r\n\r\nall ok\n")
					case "none":
						_, _ = io.WriteString(conn, head+"Content-Length: 0\r\n\r\n")
					case "short":
						_, _ = io.WriteString(conn, head+"Content-Length: 64\r\n\r\npartial")
					case "chunked-break":
						_, _ = io.WriteString(conn, head+"Transfer-Encoding: chunked\r\n\r\n7\r\npartial\r\n40\r\nonly a few")
					case "stall":
						_, _ = io.WriteString(conn, head+"Content-Length: 64\r\n\r\npartial")
						time.Sleep(900 * time.Millisecond) // longer than the delivery timeout below
					}
				}(conn)
			}
		}()
		target := "http://" + ln.Addr().String() + "/hook"
		d := dispatcher.NewHTTPDeliverer(&http.Client{Transport: &http.Transport{}}, dispatcher.EgressPolicy{})
		ctx, cancel := context.WithTimeout(context.Background(), 400*time.Millisecond)
		res := d.Deliver(ctx, dispatcher.Delivery{ID: "evt_answered", Target: target, URL: target, Method: http.MethodPost, Header: http.Header{}, Body: []byte("x")})
		cancel()
		o := waOut{StatusCode: res.StatusCode, Requests: len(got)}
		if res.Err != nil {
			o.Err = res.Err.Error()
		}
		ln.Close()
		outs[i] = o
	}
	return map[string]any{"cases": outs}, nil
}
