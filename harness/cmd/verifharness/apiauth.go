//go:build verif

package main

// C11: generated token configurations through the real config.Parse/Compile and
// loadAuth; the real pullapi.Server, worker gRPC server and admin.Server started by the
// real startServers (behind mountPrefix / sharedPrefixMux); raw HTTP over loopback, a
// loopback gRPC client, and an in-process worker server (same callbacks) for metadata
// the gRPC client refuses to send.  Every store call goes through a counting proxy and
// the full store snapshot (lease fields included) is hashed before and after each call.

import (
	"net/http/httptest"
	"context"
	"crypto/sha256"
	"encoding/hex"
	"encoding/json"
	"fmt"
	"os"
	"path/filepath"
	"net/http"
	"sort"
	"strings"
	"sync"
	"sync/atomic"
	"time"

	"github.com/nuetzliches/hookaido/internal/app"
	"github.com/nuetzliches/hookaido/internal/config"
	"github.com/nuetzliches/hookaido/internal/pullapi"
	"github.com/nuetzliches/hookaido/internal/queue"
	"github.com/nuetzliches/hookaido/internal/secrets"
	"github.com/nuetzliches/hookaido/internal/workerapi"
	workerapipb "github.com/nuetzliches/hookaido/internal/workerapi/proto"
	"google.golang.org/grpc"
	"google.golang.org/grpc/credentials/insecure"
	"google.golang.org/grpc/metadata"
	"google.golang.org/grpc/status"
	"google.golang.org/protobuf/types/known/durationpb"
)

func init() {
	register("apiauth", apiAuthRun)
}

// countingStore delegates every queue.Store method to the memory store and counts the calls.
type countingStore struct {
	m *queue.MemoryStore
	n atomic.Int64
}

func (c *countingStore) Enqueue(env queue.Envelope) error { c.n.Add(1); return c.m.Enqueue(env) }
func (c *countingStore) Dequeue(req queue.DequeueRequest) (queue.DequeueResponse, error) {
	c.n.Add(1)
	return c.m.Dequeue(req)
}
func (c *countingStore) Ack(id string) error { c.n.Add(1); return c.m.Ack(id) }
func (c *countingStore) Nack(id string, d time.Duration) error {
	c.n.Add(1)
	return c.m.Nack(id, d)
}
func (c *countingStore) Extend(id string, d time.Duration) error {
	c.n.Add(1)
	return c.m.Extend(id, d)
}
func (c *countingStore) MarkDead(id string, reason string) error {
	c.n.Add(1)
	return c.m.MarkDead(id, reason)
}
func (c *countingStore) ListDead(req queue.DeadListRequest) (queue.DeadListResponse, error) {
	c.n.Add(1)
	return c.m.ListDead(req)
}
func (c *countingStore) RequeueDead(req queue.DeadRequeueRequest) (queue.DeadRequeueResponse, error) {
	c.n.Add(1)
	return c.m.RequeueDead(req)
}
func (c *countingStore) DeleteDead(req queue.DeadDeleteRequest) (queue.DeadDeleteResponse, error) {
	c.n.Add(1)
	return c.m.DeleteDead(req)
}
func (c *countingStore) ListMessages(req queue.MessageListRequest) (queue.MessageListResponse, error) {
	c.n.Add(1)
	return c.m.ListMessages(req)
}
func (c *countingStore) LookupMessages(req queue.MessageLookupRequest) (queue.MessageLookupResponse, error) {
	c.n.Add(1)
	return c.m.LookupMessages(req)
}
func (c *countingStore) CancelMessages(req queue.MessageCancelRequest) (queue.MessageCancelResponse, error) {
	c.n.Add(1)
	return c.m.CancelMessages(req)
}
func (c *countingStore) RequeueMessages(req queue.MessageRequeueRequest) (queue.MessageRequeueResponse, error) {
	c.n.Add(1)
	return c.m.RequeueMessages(req)
}
func (c *countingStore) ResumeMessages(req queue.MessageResumeRequest) (queue.MessageResumeResponse, error) {
	c.n.Add(1)
	return c.m.ResumeMessages(req)
}
func (c *countingStore) CancelMessagesByFilter(req queue.MessageManageFilterRequest) (queue.MessageCancelResponse, error) {
	c.n.Add(1)
	return c.m.CancelMessagesByFilter(req)
}
func (c *countingStore) RequeueMessagesByFilter(req queue.MessageManageFilterRequest) (queue.MessageRequeueResponse, error) {
	c.n.Add(1)
	return c.m.RequeueMessagesByFilter(req)
}
func (c *countingStore) ResumeMessagesByFilter(req queue.MessageManageFilterRequest) (queue.MessageResumeResponse, error) {
	c.n.Add(1)
	return c.m.ResumeMessagesByFilter(req)
}
func (c *countingStore) Stats() (queue.Stats, error) { c.n.Add(1); return c.m.Stats() }
func (c *countingStore) RecordAttempt(a queue.DeliveryAttempt) error {
	c.n.Add(1)
	return c.m.RecordAttempt(a)
}
func (c *countingStore) ListAttempts(req queue.AttemptListRequest) (queue.AttemptListResponse, error) {
	c.n.Add(1)
	return c.m.ListAttempts(req)
}

type aaReq struct {
	Kind       string   `json:"kind"`      // pull | worker | admin
	Transport  string   `json:"transport"` // worker: grpc | inproc
	Method     string   `json:"method"`    // hex (pull/admin)
	Target     string   `json:"target"`    // hex raw request-target (pull/admin)
	Auth       []string `json:"auth"`      // hex Authorization / authorization values, in order
	NoMD       bool     `json:"no_md"`     // inproc: context without incoming metadata
	Op         string   `json:"op"`        // dequeue | ack | nack | extend (worker; body kind for pull)
	Endpoint   string   `json:"endpoint"`  // hex (worker)
	LeaseRoute string   `json:"lease_route"`
	BadArgs    bool     `json:"bad_args"` // worker: make the pre-authorization validation fail
}

type aaCfgIn struct {
	Text     string            `json:"text"`
	Env      map[string]string `json:"env"`
	Files    map[string]string `json:"files"`
	Vault    map[string]map[string]string `json:"vault"` // fake Vault KV: api path ("/v1/...") -> field -> value
	Requests []aaReq           `json:"requests"`
}

type aaIn struct {
	Dir     string    `json:"dir"`
	Configs []aaCfgIn `json:"configs"`
}

type aaRoute struct {
	Route    string   `json:"route"`    // hex
	Endpoint string   `json:"endpoint"` // hex
	Tokens   []string `json:"tokens"`   // hex, loaded values
	Refs     int      `json:"refs"`
}

type aaRow struct {
	Status   int      `json:"status"` // HTTP status or gRPC code
	Changed  bool     `json:"changed"`
	Calls    int64    `json:"calls"`
	Seen     bool     `json:"seen"`      // pull/admin: the listener's handler was entered
	SeenPath string   `json:"seen_path"` // hex r.URL.Path at the listener (before mountPrefix)
	SeenAuth []string `json:"seen_auth"` // hex r.Header["Authorization"]
	Err      string   `json:"err,omitempty"`
}

type authSeen struct {
	mu   sync.Mutex
	ok   bool
	path string
	auth []string
}

func (a *authSeen) wrap(next http.Handler) http.Handler {
	return http.HandlerFunc(func(w http.ResponseWriter, r *http.Request) {
		a.mu.Lock()
		a.ok = true
		a.path = r.URL.Path
		a.auth = append([]string(nil), r.Header["Authorization"]...)
		a.mu.Unlock()
		next.ServeHTTP(w, r)
	})
}

func (a *authSeen) take() (bool, string, []string) {
	a.mu.Lock()
	defer a.mu.Unlock()
	ok, p, au := a.ok, a.path, a.auth
	a.ok, a.path, a.auth = false, "", nil
	return ok, p, au
}

type aaCfgOut struct {
	ParseOK     bool      `json:"parse_ok"`
	CompileOK   bool      `json:"compile_ok"`
	Errors      []string  `json:"errors,omitempty"`
	LoadErr     string    `json:"load_err,omitempty"`
	Global      []string  `json:"global"` // hex loaded values
	Admin       []string  `json:"admin"`
	Routes      []aaRoute `json:"routes"`
	PullPrefix  string    `json:"pull_prefix"`
	AdminPrefix string    `json:"admin_prefix"`
	Shared      bool      `json:"shared"`
	EmptyLoaded bool      `json:"empty_loaded"` // some LoadRef returned an empty value without error
	StartedAnyway bool    `json:"started_anyway"` // a secret could not be loaded, yet loadAuth built authorizers and the servers started
	Rows        []aaRow   `json:"rows"`
}

func snapshotHash(m *queue.MemoryStore) string {
	h := sha256.New()
	for _, e := range m.VerifSnapshot() {
		hs := make([]string, 0, len(e.Headers))
		for k, v := range e.Headers {
			hs = append(hs, k+"="+v)
		}
		sort.Strings(hs)
		fmt.Fprintf(h, "%s|%s|%s|%s|%d|%d|%d|%x|%s|%s|%s|%d\n", e.ID, e.Route, e.Target, e.State, e.ReceivedAt.UnixNano(),
			e.Attempt, e.NextRunAt.UnixNano(), e.Payload, strings.Join(hs, ","), e.DeadReason, e.LeaseID, e.LeaseUntil.UnixNano())
	}
	fmt.Fprintf(h, "%s", strings.Join(m.VerifLeaseIndex(), ","))
	return hex.EncodeToString(h.Sum(nil))
}

func loadAll(refs []string, empty *bool) ([]string, error) {
	out := make([]string, 0, len(refs))
	for _, r := range refs {
		b, err := secrets.LoadRef(r)
		if err != nil {
			return nil, err
		}
		if len(b) == 0 {
			*empty = true
		}
		out = append(out, hx(string(b)))
	}
	return out, nil
}

var seedCounter int

func freshLease(m *queue.MemoryStore, route string) string {
	for attempt := 0; attempt < 2; attempt++ {
		resp, err := m.Dequeue(queue.DequeueRequest{Route: route, Target: "pull", Batch: 1, LeaseTTL: 10 * time.Minute})
		if err == nil && len(resp.Items) > 0 {
			return resp.Items[0].LeaseID
		}
		seedCounter++
		_ = m.Enqueue(queue.Envelope{ID: fmt.Sprintf("seed-%06d", seedCounter), Route: route, Target: "pull", Payload: []byte("{}")})
	}
	return "lease-none"
}

func apiAuthRun(in []byte) (any, error) {
	var inp aaIn
	if err := json.Unmarshal(in, &inp); err != nil {
		return nil, err
	}
	if err := os.MkdirAll(inp.Dir, 0o755); err != nil {
		return nil, err
	}
	var out []aaCfgOut
	for ci, c := range inp.Configs {
		co := aaCfgOut{}
		for k, v := range c.Env {
			_ = os.Setenv(k, v)
		}
		if len(c.Vault) > 0 {
			// a fake Vault (KV v2 answers) on loopback for this configuration's vault: references
			kv := c.Vault
			vs := httptest.NewServer(http.HandlerFunc(func(w http.ResponseWriter, r *http.Request) {
				fields, ok := kv[r.URL.Path]
				if !ok || r.Header.Get("X-Vault-Token") != "verif-vault-token" {
					w.WriteHeader(404)
					_, _ = w.Write([]byte(`{"errors":["not found"]}`))
					return
				}
				b, _ := json.Marshal(map[string]any{"data": map[string]any{"data": fields, "metadata": map[string]any{"version": 3}}})
				w.Header().Set("Content-Type", "application/json")
				_, _ = w.Write(b)
			}))
			defer vs.Close()
			_ = os.Setenv("HOOKAIDO_VAULT_ADDR", vs.URL)
			_ = os.Setenv("HOOKAIDO_VAULT_TOKEN", "verif-vault-token")
		}
		text := c.Text
		for name, content := range c.Files {
			p := filepath.Join(inp.Dir, fmt.Sprintf("c%d-%s", ci, name))
			if err := os.WriteFile(p, []byte(unhx(content)), 0o600); err != nil {
				return nil, err
			}
			text = strings.ReplaceAll(text, "__FILE_"+name+"__", p)
		}
		filled, _, err := fillAddrs(text)
		if err != nil {
			return nil, err
		}
		cfg, perr := config.Parse([]byte(filled))
		if perr != nil {
			co.Errors = []string{"parse: " + perr.Error()}
			out = append(out, co)
			continue
		}
		co.ParseOK = true
		compiled, res := config.Compile(cfg)
		co.CompileOK = res.OK
		co.Errors = res.Errors
		if !res.OK {
			out = append(out, co)
			continue
		}
		co.PullPrefix = compiled.PullAPI.Prefix
		co.AdminPrefix = compiled.AdminAPI.Prefix
		co.Shared = compiled.SharedListener
		var lerr error
		if co.Global, lerr = loadAll(compiled.PullAPI.AuthTokens, &co.EmptyLoaded); lerr != nil {
			co.LoadErr = lerr.Error()
		}
		if co.Admin, lerr = loadAll(compiled.AdminAPI.AuthTokens, &co.EmptyLoaded); lerr != nil {
			co.LoadErr = lerr.Error()
		}
		for _, rt := range compiled.Routes {
			if rt.Pull == nil {
				continue
			}
			toks, err := loadAll(rt.Pull.AuthTokens, &co.EmptyLoaded)
			if err != nil {
				co.LoadErr = err.Error()
			}
			co.Routes = append(co.Routes, aaRoute{Route: hx(rt.Path), Endpoint: hx(rt.Pull.Path), Tokens: toks, Refs: len(rt.Pull.AuthTokens)})
		}
		mem := queue.NewMemoryStore()
		store := &countingStore{m: mem}
		rt, err := app.VerifStart(store, compiled)
		if err != nil {
			if co.LoadErr == "" {
				return nil, fmt.Errorf("config %d: start servers: %w", ci, err)
			}
			out = append(out, co) // loadAuth refused the configuration (a secret could not be loaded): fail closed
			continue
		}
		if co.LoadErr != "" {
			// a secret of this configuration cannot be loaded, yet loadAuth succeeded: reported by the driver (fail-open start)
			rt.Shutdown()
			co.StartedAnyway = true
			out = append(out, co)
			continue
		}
		for _, r := range compiled.Routes {
			if r.Pull != nil {
				for i := 0; i < 3; i++ {
					seedCounter++
					_ = mem.Enqueue(queue.Envelope{ID: fmt.Sprintf("seed-%06d", seedCounter), Route: r.Path, Target: "pull", Payload: []byte("{}")})
				}
			}
		}
		seen := &authSeen{}
		wrapped := map[*http.Server]bool{}
		for _, addr := range []string{compiled.PullAPI.Listen, compiled.AdminAPI.Listen} {
			if hs := rt.HTTPServer(addr); hs != nil && !wrapped[hs] {
				hs.Handler = seen.wrap(hs.Handler)
				wrapped[hs] = true
			}
		}
		pullCl := &rawClient{addr: compiled.PullAPI.Listen}
		adminCl := &rawClient{addr: compiled.AdminAPI.Listen}
		var conn *grpc.ClientConn
		var wc workerapipb.WorkerServiceClient
		if compiled.PullAPI.GRPCListen != "" {
			conn, err = grpc.NewClient(compiled.PullAPI.GRPCListen, grpc.WithTransportCredentials(insecure.NewCredentials()))
			if err != nil {
				rt.Shutdown()
				return nil, err
			}
			wc = workerapipb.NewWorkerServiceClient(conn)
		}
		// in-process worker server with the callbacks startServers installs
		inPull := pullapi.NewServer(store)
		inPull.ResolveRoute = rt.ResolvePull
		inPull.Authorize = rt.AuthorizePull
		inWorker := workerapi.NewServer(inPull)
		inWorker.ResolveRoute = rt.ResolvePull
		inWorker.Authorize = rt.AuthorizeWorker

		for _, rq := range c.Requests {
			row := aaRow{}
			lease := ""
			if rq.LeaseRoute != "" && rq.Op != "dequeue" {
				lease = freshLease(mem, unhx(rq.LeaseRoute))
			}
			seen.take()
			before := snapshotHash(mem)
			n0 := store.n.Load()
			switch rq.Kind {
			case "pull", "admin":
				method := unhx(rq.Method)
				body := "{}"
				switch rq.Op {
				case "ack":
					body = fmt.Sprintf(`{"lease_id":%q}`, lease)
				case "nack":
					body = fmt.Sprintf(`{"lease_id":%q,"delay":"1s"}`, lease)
				case "extend":
					body = fmt.Sprintf(`{"lease_id":%q,"extend_by":"30s"}`, lease)
				case "dequeue":
					body = `{"batch":1,"lease_ttl":"10m"}`
				}
				var sb strings.Builder
				sb.WriteString(method + " " + unhx(rq.Target) + " HTTP/1.1\r\nHost: verif.local\r\n")
				for _, a := range rq.Auth {
					sb.WriteString("Authorization: " + unhx(a) + "\r\n")
				}
				fmt.Fprintf(&sb, "Content-Type: application/json\r\nContent-Length: %d\r\n\r\n%s", len(body), body)
				cl := pullCl
				if rq.Kind == "admin" {
					cl = adminCl
				}
				resp, _, err := cl.do([]byte(sb.String()), method)
				if err != nil {
					row.Err = err.Error()
				} else {
					row.Status = resp.StatusCode
				}
			case "worker":
				ctx, cancel := context.WithTimeout(context.Background(), 5*time.Second)
				vals := make([]string, 0, len(rq.Auth))
				for _, a := range rq.Auth {
					vals = append(vals, unhx(a))
				}
				ep := unhx(rq.Endpoint)
				var callErr error
				call := func(ctx context.Context, srv interface {
					Dequeue(context.Context, *workerapipb.DequeueRequest) (*workerapipb.DequeueResponse, error)
					Ack(context.Context, *workerapipb.AckRequest) (*workerapipb.AckResponse, error)
					Nack(context.Context, *workerapipb.NackRequest) (*workerapipb.NackResponse, error)
				}, ext func(context.Context, *workerapipb.ExtendRequest) error) error {
					switch rq.Op {
					case "dequeue":
						req := &workerapipb.DequeueRequest{Endpoint: ep, Batch: 1, LeaseTtl: durationpb.New(10 * time.Minute)}
						if rq.BadArgs {
							req.LeaseTtl = &durationpb.Duration{Seconds: 1, Nanos: -5}
						}
						_, err := srv.Dequeue(ctx, req)
						return err
					case "ack":
						_, err := srv.Ack(ctx, &workerapipb.AckRequest{Endpoint: ep, LeaseId: lease})
						return err
					case "nack":
						_, err := srv.Nack(ctx, &workerapipb.NackRequest{Endpoint: ep, LeaseId: lease, Delay: durationpb.New(time.Second)})
						return err
					case "extend":
						req := &workerapipb.ExtendRequest{Endpoint: ep, LeaseId: lease, ExtendBy: durationpb.New(30 * time.Second)}
						if rq.BadArgs {
							req.LeaseId = "  "
						}
						return ext(ctx, req)
					}
					return fmt.Errorf("unknown op %q", rq.Op)
				}
				if rq.Transport == "grpc" {
					if wc == nil {
						row.Err = "no grpc listener"
					} else {
						kv := make([]string, 0, 2*len(vals))
						for _, v := range vals {
							kv = append(kv, "authorization", v)
						}
						octx := ctx
						if len(kv) > 0 {
							octx = metadata.AppendToOutgoingContext(ctx, kv...)
						}
						callErr = call(octx, grpcAdapter{wc}, func(c context.Context, r *workerapipb.ExtendRequest) error {
							_, err := wc.Extend(c, r)
							return err
						})
					}
				} else {
					ictx := ctx
					if !rq.NoMD {
						md := metadata.MD{}
						if len(vals) > 0 {
							md.Set("authorization", vals...)
						}
						ictx = metadata.NewIncomingContext(ctx, md)
					}
					callErr = call(ictx, inWorker, func(c context.Context, r *workerapipb.ExtendRequest) error {
						_, err := inWorker.Extend(c, r)
						return err
					})
				}
				cancel()
				if row.Err == "" {
					if callErr == nil {
						row.Status = 0
					} else if st, ok := status.FromError(callErr); ok {
						row.Status = int(st.Code())
						if st.Code() == 14 || st.Code() == 4 || st.Code() == 13 && strings.Contains(st.Message(), "header") {
							row.Err = st.Message()
						}
					} else {
						row.Err = callErr.Error()
					}
				}
			default:
				row.Err = "unknown kind"
			}
			row.Calls = store.n.Load() - n0
			row.Changed = snapshotHash(mem) != before
			if ok, sp, sa := seen.take(); ok {
				row.Seen = true
				row.SeenPath = hx(sp)
				row.SeenAuth = hexAll(sa)
			}
			co.Rows = append(co.Rows, row)
		}
		pullCl.close()
		adminCl.close()
		if conn != nil {
			_ = conn.Close()
		}
		rt.Shutdown()
		out = append(out, co)
	}
	return out, nil
}

type grpcAdapter struct{ c workerapipb.WorkerServiceClient }

func (g grpcAdapter) Dequeue(ctx context.Context, r *workerapipb.DequeueRequest) (*workerapipb.DequeueResponse, error) {
	return g.c.Dequeue(ctx, r)
}
func (g grpcAdapter) Ack(ctx context.Context, r *workerapipb.AckRequest) (*workerapipb.AckResponse, error) {
	return g.c.Ack(ctx, r)
}
func (g grpcAdapter) Nack(ctx context.Context, r *workerapipb.NackRequest) (*workerapipb.NackResponse, error) {
	return g.c.Nack(ctx, r)
}
