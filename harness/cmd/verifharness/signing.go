//go:build verif

package main

// C17: drives the real outbound signing (HTTPDeliverer.Deliver with an injected clock against a
// loopback server that records what it RECEIVED) and the real inbound verification
// (app.loadAuth -> ingress.HMACAuth with SelectSecrets over secrets.Set.ValidAt).

import (
	"context"
	"encoding/hex"
	"encoding/json"
	"fmt"
	"io"
	"net"
	"net/http"
	"net/http/httptest"
	"os"
	"strings"
	"sync"
	"time"

	"github.com/nuetzliches/hookaido/internal/app"
	"github.com/nuetzliches/hookaido/internal/config"
	"github.com/nuetzliches/hookaido/internal/dispatcher"
)

func init() {
	register("sign-run", signRun)
	register("hmac-inbound", hmacInbound)
}

type tsIn struct {
	Zero bool  `json:"zero"` // time.Time{}
	S    int64 `json:"s"`
	NS   int64 `json:"ns"`
	Off  int   `json:"off"` // zone offset in minutes used when the time is rendered into a config
}

func (t tsIn) Time() time.Time {
	if t.Zero {
		return time.Time{}
	}
	return time.Unix(t.S, t.NS).UTC()
}

func (t tsIn) RFC3339() string {
	tt := time.Unix(t.S, t.NS).In(time.FixedZone("", t.Off*60))
	return tt.Format(time.RFC3339Nano)
}

type signVersionIn struct {
	ID       string `json:"id"`
	Ref      string `json:"ref"`
	From     tsIn   `json:"from"`
	HasUntil bool   `json:"has_until"`
	Until    tsIn   `json:"until"`
}

type signCase struct {
	Via        string            `json:"via"` // struct | compile
	SecretRef  string            `json:"secret_ref"`
	Versions   []signVersionIn   `json:"versions"`
	Selection  string            `json:"selection"`
	SigHeader  string            `json:"sig_header"`
	TSHeader   string            `json:"ts_header"`
	Now        tsIn              `json:"now"`
	Method     string            `json:"method"`
	PathQuery  string            `json:"path_query"` // appended to http://127.0.0.1:port
	BodyHex    string            `json:"body_hex"`
	Headers    map[string]string `json:"headers"` // extra delivery headers (may try to forge the signing headers)
	NoSign     bool              `json:"no_sign"` // Delivery.Sign == nil
	Env        map[string]string `json:"env"`     // environment for env: refs
	Redirect   string            `json:"redirect"` // if set: first response is 307 to this path (policy has redirects on)
	NowStepNs  int64             `json:"now_step_ns"` // the injected clock advances by this much with every reading (a clock that moves while a delivery is signed)
	Group      string            `json:"group"`    // cases of one group share one deliverer and one signing config (a route's life: many deliveries, moving clock)
}

type signGroup struct {
	d   *dispatcher.HTTPDeliverer
	sc  *dispatcher.HMACSigningConfig
	now *time.Time
}

type recvOut struct {
	Method     string              `json:"method"`
	RequestURI string              `json:"request_uri"`
	Header     map[string][]string `json:"header"`
	BodyHex    string              `json:"body_hex"`
}

type signCaseOut struct {
	Received     []recvOut `json:"received"`
	Status       int       `json:"status"`
	ErrText      string    `json:"err_text"`
	CompileErr   []string  `json:"compile_err"`
	SelRef       string    `json:"sel_ref"` // white box: selectSigningSecretRef
	SelErr       string    `json:"sel_err"`
	Valid        []bool    `json:"valid"` // white box: isSigningSecretVersionValidAt per version
	ClockReads   int       `json:"clock_reads"`
	SigHeaderUse string    `json:"sig_header_used"`
	TSHeaderUse  string    `json:"ts_header_used"`
}

type recorder struct {
	mu       sync.Mutex
	got      []recvOut
	redirect string
}

func (rc *recorder) ServeHTTP(w http.ResponseWriter, r *http.Request) {
	b, _ := io.ReadAll(r.Body)
	rc.mu.Lock()
	first := len(rc.got) == 0
	h := map[string][]string{}
	for k, v := range r.Header {
		h[k] = append([]string(nil), v...)
	}
	rc.got = append(rc.got, recvOut{Method: r.Method, RequestURI: r.RequestURI, Header: h, BodyHex: hex.EncodeToString(b)})
	red := rc.redirect
	rc.mu.Unlock()
	if first && red != "" {
		w.Header().Set("Location", red)
		w.WriteHeader(http.StatusTemporaryRedirect)
		return
	}
	w.WriteHeader(http.StatusOK)
}

func buildSignCfgStruct(c signCase) *dispatcher.HMACSigningConfig {
	vs := make([]dispatcher.HMACSigningSecretVersion, 0, len(c.Versions))
	for _, v := range c.Versions {
		vs = append(vs, dispatcher.HMACSigningSecretVersion{ID: v.ID, Ref: v.Ref, ValidFrom: v.From.Time(), ValidUntil: v.Until.Time(), HasUntil: v.HasUntil})
	}
	return &dispatcher.HMACSigningConfig{SecretRef: c.SecretRef, SecretVersions: vs, SecretSelection: c.Selection,
		SignatureHeader: c.SigHeader, TimestampHeader: c.TSHeader}
}

// buildSignCfgCompile goes through config.Parse/Compile and app.buildDispatchRoutes.
func buildSignCfgCompile(c signCase, target string) (*dispatcher.HMACSigningConfig, []string) {
	var b strings.Builder
	if len(c.Versions) > 0 {
		b.WriteString("secrets {\n")
		for _, v := range c.Versions {
			b.WriteString("  secret " + quoteCfg(v.ID) + " {\n    value " + quoteCfg(v.Ref) + "\n    valid_from " + quoteCfg(v.From.RFC3339()) + "\n")
			if v.HasUntil {
				b.WriteString("    valid_until " + quoteCfg(v.Until.RFC3339()) + "\n")
			}
			b.WriteString("  }\n")
		}
		b.WriteString("}\n")
	}
	b.WriteString("defaults {\n  egress {\n    https_only off\n    dns_rebind_protection off\n  }\n}\n")
	b.WriteString("\"/hooks\" {\n  deliver " + quoteCfg(target) + " {\n")
	if len(c.Versions) > 0 {
		for _, v := range c.Versions {
			b.WriteString("    sign hmac secret_ref " + quoteCfg(v.ID) + "\n")
		}
		if c.Selection != "" {
			b.WriteString("    sign secret_selection " + quoteCfg(c.Selection) + "\n")
		}
	} else {
		b.WriteString("    sign hmac " + quoteCfg(c.SecretRef) + "\n")
	}
	if c.SigHeader != "" {
		b.WriteString("    sign signature_header " + quoteCfg(c.SigHeader) + "\n")
	}
	if c.TSHeader != "" {
		b.WriteString("    sign timestamp_header " + quoteCfg(c.TSHeader) + "\n")
	}
	b.WriteString("  }\n}\n")
	cfg, err := config.Parse([]byte(b.String()))
	if err != nil {
		return nil, []string{"parse: " + err.Error()}
	}
	compiled, res := config.Compile(cfg)
	if !res.OK {
		return nil, res.Errors
	}
	for _, rt := range app.VerifC17DispatchRoutes(compiled) {
		for _, t := range rt.Targets {
			if t.SignHMAC != nil {
				return t.SignHMAC, nil
			}
		}
	}
	return nil, []string{"no signing target after compile"}
}

func signRun(in []byte) (any, error) {
	var req struct {
		Cases []signCase `json:"cases"`
	}
	if err := json.Unmarshal(in, &req); err != nil {
		return nil, err
	}
	rec := &recorder{}
	ln, err := net.Listen("tcp", "127.0.0.1:0")
	if err != nil {
		return nil, err
	}
	srv := &http.Server{Handler: rec}
	go func() { _ = srv.Serve(ln) }()
	defer srv.Close()
	base := "http://" + ln.Addr().String()

	outs := make([]signCaseOut, len(req.Cases))
	groups := map[string]*signGroup{}
	for i, c := range req.Cases {
		o := signCaseOut{Received: []recvOut{}}
		var grp *signGroup
		if c.Group != "" {
			grp = groups[c.Group]
		}
		for k, v := range c.Env {
			_ = os.Setenv(k, v)
		}
		var sc *dispatcher.HMACSigningConfig
		target := base + c.PathQuery
		if grp != nil {
			sc = grp.sc
		} else if !c.NoSign {
			if c.Via == "compile" {
				var errs []string
				sc, errs = buildSignCfgCompile(c, target)
				if sc == nil {
					o.CompileErr = errs
					outs[i] = o
					continue
				}
			} else {
				sc = buildSignCfgStruct(c)
			}
		}
		if sc != nil {
			o.SigHeaderUse, o.TSHeaderUse = sc.SignatureHeader, sc.TimestampHeader
			ref, serr := dispatcher.VerifC17SelectRef(sc, c.Now.Time())
			o.SelRef = ref
			if serr != nil {
				o.SelErr = serr.Error()
			}
			for _, v := range sc.SecretVersions {
				o.Valid = append(o.Valid, dispatcher.VerifC17ValidAt(v, c.Now.Time()))
			}
		}
		rec.mu.Lock()
		rec.got = nil
		rec.redirect = c.Redirect
		rec.mu.Unlock()
		var d *dispatcher.HTTPDeliverer
		if grp != nil {
			d = grp.d
			*grp.now = c.Now.Time()
		} else {
			d = dispatcher.NewHTTPDeliverer(&http.Client{}, dispatcher.EgressPolicy{HTTPSOnly: false, DNSRebindProtection: false, Redirects: c.Redirect != ""})
			now := c.Now.Time()
			d.Now = func() time.Time { return now }
			if c.NowStepNs != 0 && c.Group == "" {
				step := time.Duration(c.NowStepNs)
				reads := &o.ClockReads
				d.Now = func() time.Time {
					t := now
					now = now.Add(step)
					*reads++
					return t
				}
			}
			if c.Group != "" {
				groups[c.Group] = &signGroup{d: d, sc: sc, now: &now}
			}
		}
		body, err := hex.DecodeString(c.BodyHex)
		if err != nil {
			return nil, err
		}
		hdr := http.Header{}
		for k, v := range c.Headers {
			hdr[k] = append(hdr[k], v) // raw map keys, as the dispatcher's header.Set would not produce; Deliver canonicalises with Add
		}
		ctx, cancel := context.WithTimeout(context.Background(), 5*time.Second)
		res := d.Deliver(ctx, dispatcher.Delivery{ID: fmt.Sprintf("d%d", i), Target: target, URL: target, Method: c.Method, Header: hdr, Body: body, Sign: sc})
		cancel()
		o.Status = res.StatusCode
		if res.Err != nil {
			o.ErrText = res.Err.Error()
		}
		rec.mu.Lock()
		o.Received = append(o.Received, rec.got...)
		rec.mu.Unlock()
		for k := range c.Env {
			_ = os.Unsetenv(k)
		}
		outs[i] = o
	}
	return map[string]any{"cases": outs, "base": base}, nil
}

// ---------------------------------------------------------------- inbound

type inVersion struct {
	ID       string `json:"id"`
	Value    string `json:"value"` // the secret value (config: raw:<value>)
	From     tsIn   `json:"from"`
	HasUntil bool   `json:"has_until"`
	Until    tsIn   `json:"until"`
}

type inRequest struct {
	TS      int64  `json:"ts"`      // X-Timestamp
	SigHex  string `json:"sig_hex"` // X-Signature, computed by the driver
	Nonce   string `json:"nonce"`
	BodyHex string `json:"body_hex"`
	NowOff  int64  `json:"now_off"` // verifier clock = ts + now_off seconds
}

type inSet struct {
	Versions []inVersion `json:"versions"`
	Inline   []string    `json:"inline"` // inline secret values
	Requests []inRequest `json:"requests"`
}

type inSetOut struct {
	CompileErr []string `json:"compile_err"`
	LoadErr    string   `json:"load_err"`
	Accepted   []bool   `json:"accepted"`
}

func hmacInbound(in []byte) (any, error) {
	var req struct {
		Sets []inSet `json:"sets"`
	}
	if err := json.Unmarshal(in, &req); err != nil {
		return nil, err
	}
	outs := make([]inSetOut, len(req.Sets))
	for i, s := range req.Sets {
		o := inSetOut{Accepted: []bool{}}
		var b strings.Builder
		if len(s.Versions) > 0 {
			b.WriteString("secrets {\n")
			for _, v := range s.Versions {
				b.WriteString("  secret " + quoteCfg(v.ID) + " {\n    value " + quoteCfg("raw:"+v.Value) + "\n    valid_from " + quoteCfg(v.From.RFC3339()) + "\n")
				if v.HasUntil {
					b.WriteString("    valid_until " + quoteCfg(v.Until.RFC3339()) + "\n")
				}
				b.WriteString("  }\n")
			}
			b.WriteString("}\n")
		}
		b.WriteString("pull_api {\n  auth token \"raw:verif-pull\"\n}\n\"/in\" {\n  auth hmac {\n")
		for _, v := range s.Versions {
			b.WriteString("    secret_ref " + quoteCfg(v.ID) + "\n")
		}
		for _, k := range s.Inline {
			b.WriteString("    secret " + quoteCfg("raw:"+k) + "\n")
		}
		b.WriteString("    tolerance 5m\n  }\n  pull { path \"/pull/in\" }\n}\n")
		cfg, err := config.Parse([]byte(b.String()))
		if err != nil {
			o.CompileErr = []string{"parse: " + err.Error()}
			outs[i] = o
			continue
		}
		compiled, res := config.Compile(cfg)
		if !res.OK {
			o.CompileErr = res.Errors
			outs[i] = o
			continue
		}
		auth, err := app.VerifC17HMACAuth(compiled, "/in")
		if err != nil {
			o.LoadErr = err.Error()
			outs[i] = o
			continue
		}
		if auth == nil {
			o.LoadErr = "no hmac auth for route"
			outs[i] = o
			continue
		}
		for _, rq := range s.Requests {
			body, err := hex.DecodeString(rq.BodyHex)
			if err != nil {
				return nil, err
			}
			now := time.Unix(rq.TS+rq.NowOff, 0).UTC()
			auth.Now = func() time.Time { return now }
			r := httptest.NewRequest(http.MethodPost, "http://ingress.local/in", nil)
			r.Header.Set(auth.SignatureHeader, rq.SigHex)
			r.Header.Set(auth.TimestampHeader, fmt.Sprintf("%d", rq.TS))
			r.Header.Set(auth.NonceHeader, rq.Nonce)
			o.Accepted = append(o.Accepted, auth.Verify(r, "/in", body) == nil)
		}
		outs[i] = o
	}
	return map[string]any{"sets": outs}, nil
}
