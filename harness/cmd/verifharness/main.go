//go:build verif

// Command verifharness drives the real hookaido packages for the /verif checks.
// It is never copied into /repo: the checks mount it with `go build -overlay`.
package main

import (
	"encoding/json"
	"fmt"
	"io"
	"os"
)

type cmdFunc func(in []byte) (any, error)

var commands = map[string]cmdFunc{}

func register(name string, fn cmdFunc) { commands[name] = fn }

func main() {
	if len(os.Args) < 2 {
		fmt.Fprintln(os.Stderr, "usage: verifharness <command>  (JSON on stdin, JSON on stdout)")
		os.Exit(2)
	}
	fn, ok := commands[os.Args[1]]
	if !ok {
		fmt.Fprintf(os.Stderr, "unknown command %q\n", os.Args[1])
		os.Exit(2)
	}
	in, err := io.ReadAll(os.Stdin)
	if err != nil {
		fmt.Fprintln(os.Stderr, err)
		os.Exit(2)
	}
	out, err := fn(in)
	if err != nil {
		fmt.Fprintln(os.Stderr, "harness error:", err)
		os.Exit(3)
	}
	enc := json.NewEncoder(os.Stdout)
	if err := enc.Encode(out); err != nil {
		fmt.Fprintln(os.Stderr, err)
		os.Exit(3)
	}
}
