//go:build verif

package main

// C18, file replacement.  Commands
//   fsatomic-child   run the real writeFileAtomic (app or mcp copy) / rollbackConfigFile once, between two
//                    marker syscalls, on the locked main thread - meant to be run under strace
//   mcp-mutate       real config_apply / management_endpoint_upsert / management_endpoint_delete through
//                    tools/call, with the reload verification made to pass or fail

import (
	"bytes"
	"encoding/base64"
	"encoding/json"
	"fmt"
	"io"
	"net"
	"net/http"
	"os"
	"path/filepath"
	"runtime"
	"strings"

	"github.com/nuetzliches/hookaido/internal/app"
	"github.com/nuetzliches/hookaido/internal/mcp"
)

func init() {
	register("fsatomic-child", fsatomicChild)
	register("mcp-mutate", mcpMutate)
	// every syscall of the replacement is issued by the thread whose id is the process id, so that
	// strace's per-tracee injection counters (`when=N`) address them deterministically
	if len(os.Args) > 1 && os.Args[1] == "fsatomic-child" {
		runtime.LockOSThread()
	}
}

const (
	markerBegin = "/verif-marker-begin"
	markerEnd   = "/verif-marker-end"
)

func fsatomicChild(inb []byte) (any, error) {
	var in struct {
		Flavour string `json:"flavour"` // "app" | "mcp" | "mcp-rollback" | "mcp-rollback-remove"
		Path    string `json:"path"`
		DataB64 string `json:"data_b64"`
	}
	if err := json.Unmarshal(inb, &in); err != nil {
		return nil, err
	}
	data, err := base64.StdEncoding.DecodeString(in.DataB64)
	if err != nil {
		return nil, err
	}
	_, _ = os.Stat(markerBegin)
	switch in.Flavour {
	case "app":
		err = app.VerifWriteFileAtomicApp(in.Path, data)
	case "mcp":
		err = mcp.VerifWriteFileAtomic(in.Path, data)
	case "mcp-rollback":
		err = mcp.VerifRollbackConfigFile(in.Path, true, data)
	case "mcp-rollback-remove":
		err = mcp.VerifRollbackConfigFile(in.Path, false, nil)
	default:
		err = fmt.Errorf("unknown flavour %q", in.Flavour)
	}
	_, _ = os.Stat(markerEnd)
	out := map[string]any{"err": ""}
	if err != nil {
		out["err"] = err.Error()
	}
	return out, nil
}

// ---------------------------------------------------------------------------

type mcpMutateCase struct {
	Name    string         `json:"name"`
	Tool    string         `json:"tool"`     // config_apply | management_endpoint_upsert | management_endpoint_delete
	Initial *string        `json:"initial"`  // file content before the call; null = file does not exist
	Args    map[string]any `json:"args"`     // tool arguments (path is added; __ADMIN__ in strings = health listener address)
	Health  string         `json:"health"`   // "ok" | "503" | "closed" : what the admin health endpoint does
	EnvSet  map[string]string `json:"env_set"`
}

type mcpMutateRes struct {
	Name         string   `json:"name"`
	IsError      bool     `json:"is_error"`
	Text         string   `json:"text"`
	OK           any      `json:"ok"`
	Applied      any      `json:"applied"`
	RolledBack   any      `json:"rolled_back"`
	Exists       bool     `json:"exists_after"`
	FileSame     bool     `json:"file_same"`
	FileCompiles bool     `json:"file_compiles"`
	FileAfter    string   `json:"file_after"`
	HealthHits   int      `json:"health_hits"`
	MidCompiles  []bool   `json:"mid_compiles"` // at every health request: does the file on disk compile
	MidSame      []bool   `json:"mid_same"`
	StrayFiles   []string `json:"stray_files"`
}

func substAny(v any, admin string) any {
	switch t := v.(type) {
	case string:
		return strings.ReplaceAll(t, "__ADMIN__", admin)
	case map[string]any:
		for k, x := range t {
			t[k] = substAny(x, admin)
		}
		return t
	default:
		return v
	}
}

func mcpMutate(inb []byte) (any, error) {
	var in struct {
		Dir   string          `json:"dir"`
		Cases []mcpMutateCase `json:"cases"`
	}
	if err := json.Unmarshal(inb, &in); err != nil {
		return nil, err
	}
	var out []mcpMutateRes
	for ci, c := range in.Cases {
		res := mcpMutateRes{Name: c.Name}
		dir := filepath.Join(in.Dir, fmt.Sprintf("mm%d", ci))
		_ = os.MkdirAll(dir, 0o755)
		cfgPath := filepath.Join(dir, "Hookaidofile")
		ln, err := net.Listen("tcp", "127.0.0.1:0")
		if err != nil {
			return nil, err
		}
		adminAddr := ln.Addr().String()
		initial := ""
		if c.Initial != nil {
			initial = strings.ReplaceAll(*c.Initial, "__ADMIN__", adminAddr)
			_ = os.WriteFile(cfgPath, []byte(initial), 0o640)
		}
		var srv *http.Server
		if c.Health == "closed" {
			_ = ln.Close()
		} else {
			srv = &http.Server{Handler: http.HandlerFunc(func(w http.ResponseWriter, r *http.Request) {
				res.HealthHits++
				b, _ := os.ReadFile(cfgPath)
				res.MidCompiles = append(res.MidCompiles, configCompiles(b))
				res.MidSame = append(res.MidSame, c.Initial != nil && string(b) == initial)
				if c.Health == "503" {
					w.WriteHeader(http.StatusServiceUnavailable)
					return
				}
				w.WriteHeader(http.StatusOK)
			})}
			go func() { _ = srv.Serve(ln) }()
		}
		setEnv(c.EnvSet, nil)
		args := map[string]any{}
		for k, v := range c.Args {
			args[k] = substAny(v, adminAddr)
		}
		args["path"] = cfgPath
		set := mcpSetting{Role: "admin", Mut: true, Rt: false, Principal: "ops"}
		resp, err := rpcCall(func(i io.Reader, o io.Writer) *mcp.Server {
			return newMcpServer(i, o, io.Discard, cfgPath, filepath.Join(dir, "hookaido.db"), filepath.Join(dir, "pid"), set)
		}, []any{map[string]any{"jsonrpc": "2.0", "id": 7, "method": "tools/call",
			"params": map[string]any{"name": c.Tool, "arguments": args}}})
		if srv != nil {
			_ = srv.Close()
		}
		for k := range c.EnvSet {
			_ = os.Unsetenv(k)
		}
		if err != nil {
			return nil, err
		}
		if len(resp) == 1 {
			if r, ok := resp[0]["result"].(map[string]any); ok {
				res.IsError, _ = r["isError"].(bool)
				if cc, ok := r["content"].([]any); ok && len(cc) > 0 {
					if cm, ok := cc[0].(map[string]any); ok {
						res.Text, _ = cm["text"].(string)
					}
				}
				if sc, ok := r["structuredContent"].(map[string]any); ok {
					res.OK = sc["ok"]
					res.Applied = sc["applied"]
					res.RolledBack = sc["rolled_back"]
					if ca, ok := sc["config_apply"].(map[string]any); ok {
						res.Applied = ca["applied"]
						res.RolledBack = ca["rolled_back"]
					}
				}
			}
		}
		if len(res.Text) > 400 {
			res.Text = res.Text[:400]
		}
		after, err := os.ReadFile(cfgPath)
		res.Exists = err == nil
		if c.Initial != nil {
			res.FileSame = res.Exists && bytes.Equal(after, []byte(initial))
		} else {
			res.FileSame = !res.Exists
		}
		res.FileCompiles = res.Exists && configCompiles(after)
		if !res.FileSame {
			res.FileAfter = string(after)
		}
		ents, _ := os.ReadDir(dir)
		for _, e := range ents {
			switch e.Name() {
			case "Hookaidofile", "hookaido.db", "hookaido.db-wal", "hookaido.db-shm", "pid":
			default:
				res.StrayFiles = append(res.StrayFiles, e.Name())
			}
		}
		out = append(out, res)
	}
	return out, nil
}
