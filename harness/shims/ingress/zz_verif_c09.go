//go:build verif

package ingress

import "math/big"

// White-box access for the C09 check (mounted with -overlay, never committed).

// VerifNonceSnapshot returns the nonce cache of a as nonce -> expiry (Unix ns, exact decimal: an
// expiry beyond year 2262 does not fit int64 and Time.UnixNano would wrap it in the harness).
func VerifNonceSnapshot(a *HMACAuth) map[string]string {
	out := map[string]string{}
	if a == nil || a.nonce == nil {
		return out
	}
	a.nonce.mu.Lock()
	defer a.nonce.mu.Unlock()
	for k, exp := range a.nonce.m {
		ns := new(big.Int).Mul(big.NewInt(exp.Unix()), big.NewInt(1000000000))
		out[k] = ns.Add(ns, big.NewInt(int64(exp.Nanosecond()))).String()
	}
	return out
}
