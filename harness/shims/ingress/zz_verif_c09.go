//go:build verif

package ingress

// White-box access for the C09 check (mounted with -overlay, never committed).

// VerifNonceSnapshot returns the nonce cache of a as nonce -> expiry (Unix ns).
func VerifNonceSnapshot(a *HMACAuth) map[string]int64 {
	out := map[string]int64{}
	if a == nil || a.nonce == nil {
		return out
	}
	a.nonce.mu.Lock()
	defer a.nonce.mu.Unlock()
	for k, exp := range a.nonce.m {
		out[k] = exp.UnixNano()
	}
	return out
}
