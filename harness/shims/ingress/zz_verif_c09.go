//go:build verif

package ingress

import (
	"math/big"
	"reflect"
	"strconv"
	"time"
	"unsafe"
)

// White-box access for the C09 check (mounted with -overlay, never committed).

// VerifNonceSnapshot returns the nonce cache of a as nonce -> expiry (Unix ns, exact decimal: an
// expiry beyond year 2262 does not fit int64 and Time.UnixNano would wrap it in the harness).
// The map is read through reflection so that the shim keeps compiling when the representation of
// an expiry changes (time.Time today; an integer count of nanoseconds is read as it is stored).
func VerifNonceSnapshot(a *HMACAuth) map[string]string {
	out := map[string]string{}
	if a == nil || a.nonce == nil {
		return out
	}
	a.nonce.mu.Lock()
	defer a.nonce.mu.Unlock()
	f := reflect.ValueOf(a.nonce).Elem().FieldByName("m")
	if !f.IsValid() || f.Kind() != reflect.Map {
		return out
	}
	f = reflect.NewAt(f.Type(), unsafe.Pointer(f.UnsafeAddr())).Elem()
	it := f.MapRange()
	for it.Next() {
		k := it.Key().String()
		switch v := it.Value().Interface().(type) {
		case time.Time:
			ns := new(big.Int).Mul(big.NewInt(v.Unix()), big.NewInt(1000000000))
			out[k] = ns.Add(ns, big.NewInt(int64(v.Nanosecond()))).String()
		case int64:
			out[k] = strconv.FormatInt(v, 10)
		case uint64:
			out[k] = strconv.FormatUint(v, 10)
		default:
			out[k] = "0"
		}
	}
	return out
}
