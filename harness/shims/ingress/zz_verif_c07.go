//go:build verif

package ingress

import "net/http"

// White-box access for the /verif harness (C07; mounted with -overlay, never committed).
func VerifCopyHeadersWithExtra(h http.Header, maxBytes int, extra map[string]string) (map[string]string, bool) {
	return copyHeadersWithExtra(h, maxBytes, extra)
}
