//go:build verif

package mcp

// White-box constants for the /verif C14 Admin-proxy check (mounted with -overlay, never committed):
// compared with Model/ManageProxy.v proxy_retry_max_get on every run; the timeout sizes the forwarder's
// "delay beyond the timeout" behaviour.
const (
	VerifAdminProxyRetryMaxGET    = adminProxyRetryMaxGET
	VerifAdminProxyRetryBackoff   = adminProxyRetryBackoff
	VerifDefaultAdminProxyTimeout = defaultAdminProxyTimeout
)
