//go:build verif

package mcp

// White-box access for the /verif harness (mounted with -overlay, never committed).

// VerifAccessError exposes toolAccessError: "" when the gate allows the call.
func (s *Server) VerifAccessError(name string) (bool, string) {
	err := s.toolAccessError(name)
	if err == nil {
		return true, ""
	}
	return false, err.Error()
}

func VerifWriteFileAtomic(path string, data []byte) error { return writeFileAtomic(path, data) }
