//go:build verif

package mcp

// White-box constant for the /verif C14 request-layer check: compared with Model/ManageGlue.v mcp_max_list_limit.
const VerifMaxListLimit = maxListLimit
