//go:build verif

package mcp

// White-box access for the /verif C18 check: the mcp copy of the file-replacement helpers.
// (writeFileAtomic itself is exported by zz_verif.go as VerifWriteFileAtomic.)

// VerifRollbackConfigFile is rollbackConfigFile: put `previous` back, or remove the file when it did not exist.
func VerifRollbackConfigFile(p string, existed bool, previous []byte) error {
	return rollbackConfigFile(p, existed, previous)
}

// VerifReadExistingFile is readExistingFile.
func VerifReadExistingFile(p string) ([]byte, bool, error) { return readExistingFile(p) }
