//go:build verif

package pullapi

import (
	"fmt"
	"reflect"
	"strings"
	"time"
)

// White-box access for the /verif harness (mounted with -overlay, never committed).
// The recent-ops cache reads Server.now, an unexported field without a setter: VerifSetNow
// injects the clock; VerifRecentOps lists the cache front first.

type VerifRecentOp struct {
	LeaseID   string
	Op        string
	ExpiresAt int64
}

func (s *Server) VerifSetNow(now func() time.Time) { s.now = now }

func (s *Server) VerifRecentOps() (entries []VerifRecentOp, mapLen int) {
	s.recentLeaseMu.Lock()
	defer s.recentLeaseMu.Unlock()
	for e := s.recentLeaseOrder.Front(); e != nil; e = e.Next() {
		entry, _ := e.Value.(*recentLeaseOpEntry)
		if entry == nil {
			entries = append(entries, VerifRecentOp{LeaseID: "<nil>"})
			continue
		}
		entries = append(entries, VerifRecentOp{LeaseID: verifText(entry.key.leaseID), Op: verifText(entry.key.op), ExpiresAt: entry.expiresAt.UnixNano()})
	}
	return entries, len(s.recentLeaseOps)
}

// verifText reads a key component as text whatever its representation (a string today; a fixed-size byte array is read up to its
// zero padding), so that the shim keeps compiling when the memo key is re-encoded.
func verifText(v any) string {
	rv := reflect.ValueOf(v)
	switch rv.Kind() {
	case reflect.String:
		return rv.String()
	case reflect.Array, reflect.Slice:
		if rv.Type().Elem().Kind() == reflect.Uint8 {
			b := make([]byte, rv.Len())
			for i := range b {
				b[i] = byte(rv.Index(i).Uint())
			}
			return strings.TrimRight(string(b), "\x00")
		}
	}
	return fmt.Sprint(v)
}
