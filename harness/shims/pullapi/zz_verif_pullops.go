//go:build verif

package pullapi

import "time"

// White-box access for the /verif harness (mounted with -overlay, never committed).
// The recent-ops cache reads Server.now, an unexported field without a setter: VerifSetNow
// injects the clock; VerifRecentOps lists the cache front first.

type VerifRecentOp struct {
	LeaseID   string
	Op        string
	ExpiresAt int64
}

func (s *Server) VerifSetNow(now func() time.Time) { s.now = now }

func (s *Server) VerifRecentOps() (entries []VerifRecentOp, mapLen int) {
	s.recentLeaseMu.Lock()
	defer s.recentLeaseMu.Unlock()
	for e := s.recentLeaseOrder.Front(); e != nil; e = e.Next() {
		entry, _ := e.Value.(*recentLeaseOpEntry)
		if entry == nil {
			entries = append(entries, VerifRecentOp{LeaseID: "<nil>"})
			continue
		}
		entries = append(entries, VerifRecentOp{LeaseID: entry.key.leaseID, Op: entry.key.op, ExpiresAt: entry.expiresAt.UnixNano()})
	}
	return entries, len(s.recentLeaseOps)
}
