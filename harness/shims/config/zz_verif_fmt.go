//go:build verif

package config

// White-box access for the /verif C19 check (mounted with -overlay, never committed).

// VerifToken is one token of the real lexer: Kind is the tokenKind constant
// (0 EOF, 1 ident, 2 string, 3 '{', 4 '}', 5 comment).
type VerifToken struct {
	Kind int
	Text string
}

// VerifLex runs the real lexer (newLexer + nextToken) over src exactly as the parser
// drives it: until EOF or the first error.  The EOF token is not included.
func VerifLex(src string) ([]VerifToken, error) {
	l := newLexer(src)
	var out []VerifToken
	for {
		tok, err := l.nextToken()
		if err != nil {
			return out, err
		}
		if tok.kind == tokEOF {
			return out, nil
		}
		out = append(out, VerifToken{Kind: int(tok.kind), Text: tok.text})
	}
}

// VerifTokenKinds returns the numeric values of the token kind constants so the harness
// can detect a renumbering.
func VerifTokenKinds() [6]int {
	return [6]int{int(tokEOF), int(tokIdent), int(tokString), int(tokLBrace), int(tokRBrace), int(tokComment)}
}

func VerifNormalizeInput(in []byte) []byte         { return normalizeInput(in) }
func VerifQuoteString(s string) string             { return quoteString(s) }
func VerifIsUnquotedValueSafe(s string) bool       { return isUnquotedValueSafe(s) }
func VerifIsUnquotedPathSafe(s string) bool        { return isUnquotedPathSafe(s) }
func VerifFormatValue(s string, q bool) string     { return formatValue(s, q) }
func VerifFormatRoutePath(s string, q bool) string { return formatRoutePath(s, q) }
