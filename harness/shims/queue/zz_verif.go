//go:build verif

package queue

import (
	"context"
	"database/sql"
	"fmt"
	"sort"
	"time"
)

// White-box read access for the /verif harness (mounted with -overlay, never committed).
// VerifSnapshot returns every stored envelope with its lease fields, without going
// through ListMessages (which prunes), sorted by id.

func (s *MemoryStore) VerifSnapshot() []Envelope {
	s.mu.Lock()
	defer s.mu.Unlock()
	out := make([]Envelope, 0, len(s.items))
	for _, env := range s.items {
		if env == nil {
			continue
		}
		cp := *env
		cp.Headers = cloneStringMap(env.Headers)
		cp.Trace = cloneStringMap(env.Trace)
		cp.Payload = append([]byte(nil), env.Payload...)
		out = append(out, cp)
	}
	sort.Slice(out, func(i, j int) bool { return out[i].ID < out[j].ID })
	return out
}

// VerifLeaseIndex returns the lease ids the store's lease index currently holds (keys only, so that the
// shim does not depend on how the index stores its values).
func (s *MemoryStore) VerifLeaseIndex() []string {
	s.mu.Lock()
	defer s.mu.Unlock()
	out := make([]string, 0, len(s.leases))
	for k := range s.leases {
		out = append(out, k)
	}
	sort.Strings(out)
	return out
}

func (s *SQLiteStore) VerifSnapshot() ([]Envelope, error) {
	rows, err := s.db.QueryContext(context.Background(), `
SELECT id, route, target, state, received_at, attempt, next_run_at, payload, headers_json, trace_json,
       schema_version, dead_reason, lease_id, lease_until
FROM queue_items ORDER BY id`)
	if err != nil {
		return nil, err
	}
	defer rows.Close()
	var out []Envelope
	for rows.Next() {
		var env Envelope
		var recv, next int64
		var state string
		var hj, tj, dr, lid sql.NullString
		var lu sql.NullInt64
		if err := rows.Scan(&env.ID, &env.Route, &env.Target, &state, &recv, &env.Attempt, &next, &env.Payload,
			&hj, &tj, &env.SchemaVersion, &dr, &lid, &lu); err != nil {
			return nil, err
		}
		env.State = State(state)
		env.ReceivedAt = time.Unix(0, recv).UTC()
		env.NextRunAt = time.Unix(0, next).UTC()
		env.Headers = unmarshalStringMap(hj)
		env.Trace = unmarshalStringMap(tj)
		if dr.Valid {
			env.DeadReason = dr.String
		}
		if lid.Valid {
			env.LeaseID = lid.String
		}
		if lu.Valid {
			env.LeaseUntil = time.Unix(0, lu.Int64).UTC()
		}
		out = append(out, env)
	}
	return out, rows.Err()
}

// VerifCounters reads the trigger-maintained counters row.
func (s *SQLiteStore) VerifCounters() (queued, leased int, err error) {
	err = s.db.QueryRowContext(context.Background(), `SELECT queued, leased FROM queue_counters WHERE id = 1`).Scan(&queued, &leased)
	return
}

func (s *SQLiteStore) VerifPragma(name string) (string, error) {
	var v string
	err := s.db.QueryRowContext(context.Background(), "PRAGMA "+name+";").Scan(&v)
	return v, err
}

// VerifSetBusyTimeout shortens the time this store's connection waits for another connection's write lock (two store objects on one
// database file: the gateway and `hookaido mcp` in direct SQLite mode).
func (s *SQLiteStore) VerifSetBusyTimeout(ms int) error {
	_, err := s.db.Exec(fmt.Sprintf("PRAGMA busy_timeout=%d;", ms))
	return err
}
