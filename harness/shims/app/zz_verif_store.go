//go:build verif

package app

import (
	"github.com/nuetzliches/hookaido/internal/config"
	"github.com/nuetzliches/hookaido/internal/queue"
)

// VerifNewQueueStore is run.go's own store constructor (the /verif queue harness builds its stores through it).
func VerifNewQueueStore(compiled config.Compiled, dbPath string) (queue.Store, func() error, error) {
	st, _, closeFn, err := newQueueStore(compiled, dbPath, "")
	return st, closeFn, err
}
