//go:build verif

package app

import (
	"context"
	"log/slog"
	"net/http"
	"time"

	"github.com/nuetzliches/hookaido/internal/config"
	"github.com/nuetzliches/hookaido/internal/dispatcher"
	"github.com/nuetzliches/hookaido/internal/queue"
)

// White-box entry for the /verif harness (C07, C15; mounted with -overlay, never committed):
// start the real servers exactly as run() does - newRuntimeState, loadAuth, startServers -
// on a store chosen by the harness, and hand back the *http.Server objects startServers
// built so that the harness can talk to (or wrap) the real handlers.

type VerifC15Running struct {
	servers []shutdownServer
	HTTP    map[string]*http.Server // by configured listen address
}

func VerifC15Start(compiled config.Compiled, store queue.Store) (*VerifC15Running, error) {
	state := newRuntimeState(compiled)
	if err := state.loadAuth(compiled); err != nil {
		return nil, err
	}
	metrics := newRuntimeMetrics()
	metrics.queueStore = store
	servers, err := startServers(store, compiled, state, newDiscardLogger(), verifAccessLogger(compiled), metrics, nil, nil, func() {})
	if err != nil {
		return nil, err
	}
	out := &VerifC15Running{servers: servers, HTTP: map[string]*http.Server{}}
	for _, s := range servers {
		if hs, ok := s.(*http.Server); ok {
			out.HTTP[hs.Addr] = hs
		}
	}
	return out, nil
}

func (r *VerifC15Running) Shutdown() {
	for _, s := range r.servers {
		ctx, cancel := context.WithTimeout(context.Background(), 2*time.Second)
		_ = s.Shutdown(ctx)
		cancel()
	}
}

// VerifC07Dispatcher builds the push dispatcher the way run() does.
func VerifC07Dispatcher(compiled config.Compiled, store queue.Store) *dispatcher.PushDispatcher {
	routes := buildDispatchRoutes(compiled)
	policy := dispatcher.EgressPolicy{
		HTTPSOnly:           compiled.Defaults.EgressPolicy.HTTPSOnly,
		Redirects:           compiled.Defaults.EgressPolicy.Redirects,
		DNSRebindProtection: compiled.Defaults.EgressPolicy.DNSRebindProtection,
		Allow:               mapEgressRules(compiled.Defaults.EgressPolicy.Allow),
		Deny:                mapEgressRules(compiled.Defaults.EgressPolicy.Deny),
	}
	client := tracingHTTPClient(compiled.Observability.TracingEnabled)
	return &dispatcher.PushDispatcher{
		Store:     store,
		Deliverer: dispatcher.NewHTTPDeliverer(client, policy),
		Routes:    routes,
		Logger:    newDiscardLogger(),
	}
}

// verifAccessLogger is the access logger run() hands to startServers: present when the configuration enables the access log (the
// default), writing to a discarding sink instead of stderr / a file.  With it the handlers are wrapped by withAccessLog as in the
// real binary.
func verifAccessLogger(compiled config.Compiled) *slog.Logger {
	if !compiled.Observability.AccessLogEnabled {
		return nil
	}
	return newDiscardLogger().With(slog.String("sink", "discard"))
}
