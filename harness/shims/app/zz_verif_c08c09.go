//go:build verif

package app

// White-box access for the C08/C09 checks (mounted with -overlay, never committed):
// the real runtimeState, the real loadAuth / reloadConfig, and an ingress.Server wired
// exactly as startServers wires it (the check greps run.go for those assignment lines).

import (
	"fmt"
	"io"
	"log/slog"
	"net/http"
	"os"
	"sort"
	"sync"
	"time"

	"github.com/nuetzliches/hookaido/internal/config"
	"github.com/nuetzliches/hookaido/internal/ingress"
	"github.com/nuetzliches/hookaido/internal/queue"
)

type VerifAuthRuntime struct {
	mu       sync.Mutex
	path     string
	compiled config.Compiled
	state    *runtimeState
	Ingress  *ingress.Server
	logger   *slog.Logger
}

// VerifAuthNewRuntime = what `hookaido run` does up to (not including) listening:
// read the Hookaidofile, Parse, Compile, newRuntimeState, loadAuth, wire the ingress handler.
func VerifAuthNewRuntime(configPath string, store queue.Store) (*VerifAuthRuntime, error) {
	data, err := os.ReadFile(configPath)
	if err != nil {
		return nil, err
	}
	cfg, err := config.Parse(data)
	if err != nil {
		return nil, fmt.Errorf("parse: %w", err)
	}
	compiled, res := config.Compile(cfg)
	if !res.OK {
		return nil, fmt.Errorf("compile: %s", config.FormatValidationText(res))
	}
	state := newRuntimeState(compiled)
	if err := state.loadAuth(compiled); err != nil {
		return nil, fmt.Errorf("loadAuth: %w", err)
	}
	state.setQueueStore(store)

	ing := ingress.NewServer(store)
	ing.ResolveRoute = state.resolveIngress
	ing.AllowedMethodsFor = state.allowedMethodsFor
	ing.AllowRequestFor = state.allowIngress
	ing.AllowEnqueueFor = state.allowIngressEnqueue
	ing.BasicAuthFor = state.basicAuthFor
	ing.ForwardAuthFor = state.forwardAuthFor
	ing.HMACAuthFor = state.hmacAuthFor
	ing.LimitsFor = state.limitsFor
	ing.TargetsFor = state.targetsFor
	ing.MaxBodyBytes = compiled.Defaults.MaxBodyBytes
	ing.MaxHeaderBytes = compiled.Defaults.MaxHeaderBytes

	return &VerifAuthRuntime{
		path:     configPath,
		compiled: compiled,
		state:    state,
		Ingress:  ing,
		logger:   slog.New(slog.NewTextHandler(io.Discard, nil)),
	}, nil
}

// Reload calls the real reloadConfig (the function behind SIGHUP, --watch and the
// management mutations) on whatever the config file contains now.
func (v *VerifAuthRuntime) Reload() bool {
	v.mu.Lock()
	defer v.mu.Unlock()
	updated, ok := reloadConfig(v.path, v.compiled, v.state, v.logger, "verif")
	if ok {
		v.compiled = updated
	}
	return ok
}

// SetHMACNow injects the clock hook HMACAuth exposes into every route's authenticator
// (loadAuth builds them with time.Now; must be repeated after every reload).
func (v *VerifAuthRuntime) SetHMACNow(now func() time.Time) {
	v.state.mu.Lock()
	defer v.state.mu.Unlock()
	for _, a := range v.state.hmacByRoute {
		if a != nil {
			a.Now = now
		}
	}
}

func (v *VerifAuthRuntime) HMACFor(route string) *ingress.HMACAuth { return v.state.hmacAuthFor(route) }
func (v *VerifAuthRuntime) BasicFor(route string) *ingress.BasicAuth {
	return v.state.basicAuthFor(route)
}
func (v *VerifAuthRuntime) ForwardFor(route string) *ingress.ForwardAuth {
	return v.state.forwardAuthFor(route)
}
func (v *VerifAuthRuntime) Resolve(r *http.Request, requestPath string) (string, bool) {
	return v.state.resolveIngress(r, requestPath)
}
func (v *VerifAuthRuntime) TargetsFor(route string) []string { return v.state.targetsFor(route) }
func (v *VerifAuthRuntime) LimitsFor(route string) (int64, int) {
	mb, mh := v.state.limitsFor(route)
	if mb <= 0 {
		mb = v.compiled.Defaults.MaxBodyBytes
	}
	if mh <= 0 {
		mh = v.compiled.Defaults.MaxHeaderBytes
	}
	return mb, mh
}

// RoutePaths lists the compiled routes (sorted).
func (v *VerifAuthRuntime) RoutePaths() []string {
	v.mu.Lock()
	defer v.mu.Unlock()
	var out []string
	for _, rt := range v.compiled.Routes {
		out = append(out, rt.Path)
	}
	sort.Strings(out)
	return out
}
