//go:build verif

package app

import (
	"math"
	"net/http"
	"time"

	"github.com/nuetzliches/hookaido/internal/config"
	"github.com/nuetzliches/hookaido/internal/dispatcher"
	"github.com/nuetzliches/hookaido/internal/ingress"
	"github.com/nuetzliches/hookaido/internal/queue"
)

// White-box access for the /verif harness (mounted with -overlay, never committed).

type VerifRLLimiter struct{ l *tokenBucketLimiter }

func VerifRLNewLimiter(rps float64, burst int, now time.Time) *VerifRLLimiter {
	return &VerifRLLimiter{l: newTokenBucketLimiter(rps, burst, now)}
}
func (v *VerifRLLimiter) AllowAt(t time.Time) bool { return v.l.AllowAt(t) }

// State reads rate, burst, tokens (bit patterns) and last (unix ns) under the limiter's mutex.
func (v *VerifRLLimiter) State() (rate, burst, tokens uint64, last int64) {
	v.l.mu.Lock()
	defer v.l.mu.Unlock()
	return math.Float64bits(v.l.rate), math.Float64bits(v.l.burst), math.Float64bits(v.l.tokens), v.l.last.UnixNano()
}

// VerifRLState is a runtimeState built from a compiled config with an injected clock.
type VerifRLState struct{ s *runtimeState }

func VerifRLNewState(compiled config.Compiled, now func() time.Time) *VerifRLState {
	s := newRuntimeState(compiled)
	if now != nil {
		s.mu.Lock()
		s.now = now
		s.configureIngressRateLimits(compiled) // re-arm with the injected clock, as a reload does
		s.mu.Unlock()
	}
	return &VerifRLState{s: s}
}

func (v *VerifRLState) AllowIngress(route string) bool { return v.s.allowIngress(route) }
func (v *VerifRLState) LimitsFor(route string) (int64, int) { return v.s.limitsFor(route) }
func (v *VerifRLState) UpdateAll(compiled config.Compiled)  { v.s.updateAll(compiled) }

// LimiterState: tokens bits and last of the route's own limiter ("" = the global one); ok=false if absent.
func (v *VerifRLState) LimiterState(route string) (tokens uint64, last int64, ok bool) {
	v.s.mu.RLock()
	defer v.s.mu.RUnlock()
	l := v.s.ingressGlobalLimit
	if route != "" {
		l = v.s.ingressRouteLimits[route]
	}
	if l == nil {
		return 0, 0, false
	}
	l.mu.Lock()
	defer l.mu.Unlock()
	return math.Float64bits(l.tokens), l.last.UnixNano(), true
}

// IngressHandler wires a real ingress.Server to this state exactly as startServers does
// (same callbacks, same defaults), without listeners, metrics or logging.
func (v *VerifRLState) IngressHandler(store queue.Store, compiled config.Compiled) http.Handler {
	state := v.s
	state.setQueueStore(store)
	ing := ingress.NewServer(store)
	ing.ResolveRoute = state.resolveIngress
	ing.AllowedMethodsFor = state.allowedMethodsFor
	ing.AllowRequestFor = state.allowIngress
	ing.AllowEnqueueFor = state.allowIngressEnqueue
	ing.BasicAuthFor = state.basicAuthFor
	ing.ForwardAuthFor = state.forwardAuthFor
	ing.HMACAuthFor = state.hmacAuthFor
	ing.LimitsFor = state.limitsFor
	ing.TargetsFor = state.targetsFor
	ing.MaxBodyBytes = compiled.Defaults.MaxBodyBytes
	ing.MaxHeaderBytes = compiled.Defaults.MaxHeaderBytes
	return ing
}

func VerifRLBuildDispatchRoutes(compiled config.Compiled) []dispatcher.RouteConfig {
	return buildDispatchRoutes(compiled)
}
