//go:build verif

package app

import (
	"fmt"

	"github.com/nuetzliches/hookaido/internal/config"
)

// VerifDispatcherDump renders everything the push dispatcher is built from at start-up (it is never rebuilt by a reload):
// the dispatch routes incl. every target's retry, timeout and signing configuration, and the egress policy.
func VerifDispatcherDump(compiled config.Compiled) string {
	out := fmt.Sprintf("egress=%+v\n", compiled.Defaults.EgressPolicy)
	for _, rt := range buildDispatchRoutes(compiled) {
		out += fmt.Sprintf("route=%q concurrency=%d\n", rt.Route, rt.Concurrency)
		for _, t := range rt.Targets {
			sign := "<nil>"
			if t.SignHMAC != nil {
				sign = fmt.Sprintf("%+v", *t.SignHMAC)
			}
			tc := t
			tc.SignHMAC = nil
			out += fmt.Sprintf("  target=%+v sign=%s\n", tc, sign)
		}
	}
	return out
}
