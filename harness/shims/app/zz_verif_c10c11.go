//go:build verif

package app

// White-box access for the /verif harness (C10, C11); mounted with -overlay, never committed.
// VerifStart brings the servers up exactly as run() does: newRuntimeState, loadAuth,
// startServers (the real wiring of ingress, pull, admin and the worker gRPC server,
// mountPrefix / sharedPrefixMux included) on the listeners named in the compiled config.

import (
	"context"
	"net/http"
	"net/netip"
	"time"

	"github.com/nuetzliches/hookaido/internal/config"
	"github.com/nuetzliches/hookaido/internal/queue"
)

type VerifRuntime struct {
	state   *runtimeState
	servers []shutdownServer
	cancel  context.CancelFunc
}

func VerifStart(store queue.Store, compiled config.Compiled) (*VerifRuntime, error) {
	appMetrics := newRuntimeMetrics()
	appMetrics.queueStore = store
	state := newRuntimeState(compiled)
	if err := state.loadAuth(compiled); err != nil {
		return nil, err
	}
	_, cancel := context.WithCancel(context.Background())
	servers, err := startServers(store, compiled, state, newDiscardLogger(), verifAccessLogger(compiled), appMetrics, nil, nil, cancel)
	if err != nil {
		cancel()
		return nil, err
	}
	return &VerifRuntime{state: state, servers: servers, cancel: cancel}, nil
}

// HTTPServer returns the running *http.Server listening on addr (nil when none).
func (r *VerifRuntime) HTTPServer(addr string) *http.Server {
	for _, s := range r.servers {
		if hs, ok := s.(*http.Server); ok && hs.Addr == addr {
			return hs
		}
	}
	return nil
}

func (r *VerifRuntime) Shutdown() {
	ctx, cancel := context.WithTimeout(context.Background(), 2*time.Second)
	defer cancel()
	for _, s := range r.servers {
		_ = s.Shutdown(ctx)
	}
	r.cancel()
}

// The callbacks startServers hands to the pull / worker servers (for an in-process
// worker server that can be given arbitrary metadata).
func (r *VerifRuntime) ResolvePull(endpoint string) (string, bool) { return r.state.resolvePull(endpoint) }
func (r *VerifRuntime) AuthorizePull(req *http.Request) bool        { return r.state.authorizePull(req) }
func (r *VerifRuntime) AuthorizeWorker(ctx context.Context, endpoint string) bool {
	return r.state.authorizeWorker(ctx, endpoint)
}
func (r *VerifRuntime) AuthorizeAdmin(req *http.Request) bool { return r.state.authorizeAdmin(req) }
func (r *VerifRuntime) ResolveIngress(req *http.Request, p string) (string, bool) {
	return r.state.resolveIngress(req, p)
}
func (r *VerifRuntime) AllowedMethodsFor(req *http.Request, p string) []string {
	return r.state.allowedMethodsFor(req, p)
}

// Helper twins (normalizeHost, matchHosts, parseRemoteAddrIP) are exported by the OPTIONAL shim zz_verifopt_c10.go through these
// variables; they stay nil when the source no longer has a helper of that name and shape.
var (
	VerifNormalizeHostFn     func(h string) string
	VerifParseRemoteAddrIPFn func(s string) (netip.Addr, bool)
	VerifMatchHostsFn        func(h string, allowed []string) bool
)

// VerifHostsMatchThroughResolve asks the resolver itself: a state with one route whose only criterion is the host list.
func VerifHostsMatchThroughResolve(h string, allowed []string) bool {
	st := newRuntimeState(config.Compiled{Routes: []config.CompiledRoute{{Path: "/verif-host", Match: config.MatchConfig{Hosts: allowed}}}})
	req, err := http.NewRequest(http.MethodPost, "http://placeholder.invalid/verif-host", nil)
	if err != nil {
		return false
	}
	req.Host = h
	_, ok := st.resolveIngress(req, "/verif-host")
	return ok
}
func VerifMountPrefix(prefix string, next http.Handler) http.Handler { return mountPrefix(prefix, next) }
