//go:build verif

package app

import (
	"github.com/nuetzliches/hookaido/internal/config"
	"github.com/nuetzliches/hookaido/internal/dispatcher"
	"github.com/nuetzliches/hookaido/internal/ingress"
)

// White-box access for the /verif harness (C16, C17). Mounted with -overlay, never committed.

// VerifC16Policy builds the dispatcher policy from a compiled config exactly as run() does.
func VerifC16Policy(compiled config.Compiled) dispatcher.EgressPolicy {
	return dispatcher.EgressPolicy{
		HTTPSOnly:           compiled.Defaults.EgressPolicy.HTTPSOnly,
		Redirects:           compiled.Defaults.EgressPolicy.Redirects,
		DNSRebindProtection: compiled.Defaults.EgressPolicy.DNSRebindProtection,
		Allow:               mapEgressRules(compiled.Defaults.EgressPolicy.Allow),
		Deny:                mapEgressRules(compiled.Defaults.EgressPolicy.Deny),
	}
}

// VerifC17DispatchRoutes exposes buildDispatchRoutes (signing config wiring of run()).
func VerifC17DispatchRoutes(compiled config.Compiled) []dispatcher.RouteConfig {
	return buildDispatchRoutes(compiled)
}

// VerifC17HMACAuth runs the real newRuntimeState + loadAuth and returns the route's verifier.
func VerifC17HMACAuth(compiled config.Compiled, route string) (*ingress.HMACAuth, error) {
	st := newRuntimeState(compiled)
	if err := st.loadAuth(compiled); err != nil {
		return nil, err
	}
	return st.hmacAuthFor(route), nil
}
