//go:build verif

package app

// OPTIONAL shim (see lib/common.py go_overlay): dropped from the build when one of these helpers no longer exists.
func init() {
	VerifNormalizeHostFn = normalizeHost
	VerifParseRemoteAddrIPFn = parseRemoteAddrIP
	VerifMatchHostsFn = matchHosts
}
