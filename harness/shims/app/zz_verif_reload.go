//go:build verif

package app

// White-box access for the /verif C18 check (mounted with `go build -overlay`, never committed):
// runtimeState, reloadConfig, loadAuth/updateAll, writeFileAtomic, mutateManagedEndpointConfig,
// and handlers wired to a runtimeState the way startServers wires them, with every locked accessor
// wrapped so the harness can run something between two of them.

import (
	"context"
	"errors"
	"fmt"
	"net/http"
	"sort"
	"strings"
	"sync"
	"time"

	"github.com/nuetzliches/hookaido/internal/admin"
	"github.com/nuetzliches/hookaido/internal/config"
	"github.com/nuetzliches/hookaido/internal/ingress"
	"github.com/nuetzliches/hookaido/internal/pullapi"
	"github.com/nuetzliches/hookaido/internal/queue"
)

// VerifSyncHook, when set, is called at the sync points that the check inserts into its overlay copy
// of reloadConfig (after every call on `state` in that function). Unused with the unmodified run.go.
var (
	verifSyncMu   sync.Mutex
	verifSyncHook func(point string)
)

func VerifSetSyncHook(h func(point string)) {
	verifSyncMu.Lock()
	verifSyncHook = h
	verifSyncMu.Unlock()
}

func verifSync(point string) {
	verifSyncMu.Lock()
	h := verifSyncHook
	verifSyncMu.Unlock()
	if h != nil {
		h(point)
	}
}

var _ = verifSync

// VerifCompile = config.Parse + config.Compile as run() does it.
func VerifCompile(data []byte) (config.Compiled, error) {
	cfg, err := config.Parse(data)
	if err != nil {
		return config.Compiled{}, fmt.Errorf("parse: %w", err)
	}
	compiled, res := config.Compile(cfg)
	if !res.OK {
		return config.Compiled{}, fmt.Errorf("compile: %s", strings.Join(res.Errors, "; "))
	}
	return compiled, nil
}

type VerifState struct {
	s *runtimeState
}

// VerifNewState = newRuntimeState + loadAuth, as run() does at start-up; now is the limiter clock.
func VerifNewState(compiled config.Compiled, now func() time.Time) (*VerifState, error) {
	s := newRuntimeState(compiled)
	if now != nil {
		s.mu.Lock()
		s.now = now
		s.configureIngressRateLimits(compiled)
		s.mu.Unlock()
	}
	if err := s.loadAuth(compiled); err != nil {
		return nil, err
	}
	return &VerifState{s: s}, nil
}

func (v *VerifState) SetQueueStore(store queue.Store) { v.s.setQueueStore(store) }

// The two halves of a reload, callable separately (fallback when no sync point could be placed).
func (v *VerifState) LoadAuth(c config.Compiled) error { return v.s.loadAuth(c) }
func (v *VerifState) UpdateAll(c config.Compiled)      { v.s.updateAll(c) }

// VerifReload is the real reloadConfig.
func VerifReload(path string, running config.Compiled, v *VerifState) (config.Compiled, bool) {
	return reloadConfig(path, running, v.s, newDiscardLogger(), "verif")
}

func VerifRequiresRestart(compiled, running config.Compiled) bool {
	return requiresRestartForReload(compiled, running)
}

// Identity returns, per field of runtimeState, a value that changes whenever the field is
// assigned (pointer identity of the map / slice / limiter / closure). No content.
func (v *VerifState) Identity() map[string]string {
	s := v.s
	s.mu.RLock()
	defer s.mu.RUnlock()
	out := map[string]string{}
	out["routes"] = fmt.Sprintf("%p/%d", sliceData(s.routes), len(s.routes))
	out["pathToRoute"] = fmt.Sprintf("%p", s.pathToRoute)
	out["pullByRoute"] = fmt.Sprintf("%p", s.pullByRoute)
	out["workerByRoute"] = fmt.Sprintf("%p", s.workerByRoute)
	out["basicByRoute"] = fmt.Sprintf("%p", s.basicByRoute)
	out["forwardByRoute"] = fmt.Sprintf("%p", s.forwardByRoute)
	out["hmacByRoute"] = fmt.Sprintf("%p", s.hmacByRoute)
	out["ingressGlobalLimit"] = fmt.Sprintf("%p", s.ingressGlobalLimit)
	out["ingressRouteLimits"] = fmt.Sprintf("%p", s.ingressRouteLimits)
	out["pullAuthorize"] = fmt.Sprintf("%p", s.pullAuthorize)
	out["workerAuthorize"] = fmt.Sprintf("%p", s.workerAuthorize)
	out["adminAuthorize"] = fmt.Sprintf("%p", s.adminAuthorize)
	out["trendSignals"] = fmt.Sprintf("%v", s.trendSignals)
	out["adaptiveBackpressure"] = fmt.Sprintf("%v", s.adaptiveBackpressure)
	if c := s.adaptiveController; c != nil {
		cfg, tr, _ := c.snapshot()
		out["adaptiveController.cfg"] = fmt.Sprintf("%+v", cfg)
		out["adaptiveController.trendCfg"] = fmt.Sprintf("%+v", tr)
	}
	return out
}

// EffectiveAdmissionConfig renders the settings that decide ingress admission and the trend
// analysis right now: what the admission controller evaluates with, and what the state hands to
// the admin trend endpoints.
func (v *VerifState) EffectiveAdmissionConfig() []string {
	s := v.s
	s.mu.RLock()
	c := s.adaptiveController
	st := fmt.Sprintf("state.adaptiveBackpressure=%+v", s.adaptiveBackpressure)
	s.mu.RUnlock()
	out := []string{st, fmt.Sprintf("state.trendSignalsConfig()=%+v", s.trendSignalsConfig())}
	if c != nil {
		cfg, tr, _ := c.snapshot()
		out = append(out, fmt.Sprintf("controller.cfg=%+v", cfg), fmt.Sprintf("controller.trendCfg=%+v", tr))
	}
	return out
}

// AdmissionDecision is allowIngressEnqueue (the AllowEnqueueFor callback) with its reason.
func (v *VerifState) AdmissionDecision(route string) string {
	a, c, r := v.s.allowIngressEnqueue(route)
	return fmt.Sprintf("allowed=%v status=%d reason=%s", a, c, r)
}

func sliceData(r []config.CompiledRoute) *config.CompiledRoute {
	if len(r) == 0 {
		return nil
	}
	return &r[0]
}

// AuthObjects returns the pointer of every per-route authenticator currently installed, keyed
// "basic:<route>" / "forward:<route>" / "hmac:<route>", so that the harness can tell which
// generation an accessor handed out.
func (v *VerifState) AuthObjects() map[string]string {
	s := v.s
	s.mu.RLock()
	defer s.mu.RUnlock()
	out := map[string]string{}
	for k, a := range s.basicByRoute {
		if a != nil {
			out[fmt.Sprintf("%p", a)] = "basic:" + k
		}
	}
	for k, a := range s.forwardByRoute {
		if a != nil {
			out[fmt.Sprintf("%p", a)] = "forward:" + k
		}
	}
	for k, a := range s.hmacByRoute {
		if a != nil {
			out[fmt.Sprintf("%p", a)] = "hmac:" + k
		}
	}
	return out
}

// LimiterTokens exposes the token counts (limiter state must survive a failed reload).
func (v *VerifState) LimiterTokens() map[string]float64 {
	s := v.s
	s.mu.RLock()
	defer s.mu.RUnlock()
	out := map[string]float64{}
	if s.ingressGlobalLimit != nil {
		s.ingressGlobalLimit.mu.Lock()
		out["<global>"] = s.ingressGlobalLimit.tokens
		s.ingressGlobalLimit.mu.Unlock()
	}
	for k, l := range s.ingressRouteLimits {
		l.mu.Lock()
		out[k] = l.tokens
		l.mu.Unlock()
	}
	return out
}

// VerifHook is told about every locked accessor a handler calls.
type VerifHook interface {
	Before(callback string)
	After(callback string, answer string, args VerifArgs)
}

// VerifArgs are the arguments an accessor was called with (only the ones it takes are set).
type VerifArgs struct {
	Req      *http.Request
	Path     string
	Route    string
	Endpoint string
}

func ptrOrNil(isNil bool, p any) string {
	if isNil {
		return "nil"
	}
	return fmt.Sprintf("%p", p)
}

// Answer calls the named accessor on this state with the given arguments and renders its
// answer the way the wrapped handlers report it (used to ask reference states "what would the
// old / the new configuration have answered here?").
func (v *VerifState) Answer(cb string, a VerifArgs) string {
	s := v.s
	switch cb {
	case "resolveIngress":
		route, ok := s.resolveIngress(a.Req, a.Path)
		return fmt.Sprintf("%s|%v", route, ok)
	case "allowedMethodsFor":
		return strings.Join(s.allowedMethodsFor(a.Req, a.Path), ",")
	case "allowIngress":
		return fmt.Sprintf("%v", s.allowIngress(a.Route))
	case "allowIngressEnqueue":
		al, c, _ := s.allowIngressEnqueue(a.Route)
		return fmt.Sprintf("%v|%d", al, c)
	case "basicAuthFor":
		x := s.basicAuthFor(a.Route)
		return ptrOrNil(x == nil, x)
	case "forwardAuthFor":
		x := s.forwardAuthFor(a.Route)
		return ptrOrNil(x == nil, x)
	case "hmacAuthFor":
		x := s.hmacAuthFor(a.Route)
		return ptrOrNil(x == nil, x)
	case "limitsFor":
		b, hd := s.limitsFor(a.Route)
		return fmt.Sprintf("%d|%d", b, hd)
	case "targetsFor":
		return strings.Join(s.targetsFor(a.Route), ",")
	case "resolvePull":
		route, ok := s.resolvePull(a.Endpoint)
		return fmt.Sprintf("%s|%v", route, ok)
	case "authorizePull":
		return fmt.Sprintf("%v", s.authorizePull(a.Req))
	}
	return "?"
}

func joinSorted(xs []string) string {
	cp := append([]string(nil), xs...)
	sort.Strings(cp)
	return strings.Join(cp, ",")
}

// Ingress returns an ingress.Server wired to the state exactly as startServers does
// (same accessor behind every callback), each accessor wrapped with the hook.
func (v *VerifState) Ingress(store queue.Store, compiled config.Compiled, h VerifHook) *ingress.Server {
	s := v.s
	ing := ingress.NewServer(store)
	ing.ResolveRoute = func(r *http.Request, requestPath string) (string, bool) {
		h.Before("resolveIngress")
		route, ok := s.resolveIngress(r, requestPath)
		h.After("resolveIngress", fmt.Sprintf("%s|%v", route, ok), VerifArgs{Req: r, Path: requestPath})
		return route, ok
	}
	ing.AllowedMethodsFor = func(r *http.Request, requestPath string) []string {
		h.Before("allowedMethodsFor")
		m := s.allowedMethodsFor(r, requestPath)
		h.After("allowedMethodsFor", strings.Join(m, ","), VerifArgs{Req: r, Path: requestPath})
		return m
	}
	ing.AllowRequestFor = func(route string) bool {
		h.Before("allowIngress")
		ok := s.allowIngress(route)
		h.After("allowIngress", fmt.Sprintf("%v", ok), VerifArgs{Route: route})
		return ok
	}
	ing.AllowEnqueueFor = func(route string) (bool, int, string) {
		h.Before("allowIngressEnqueue")
		a, c, r := s.allowIngressEnqueue(route)
		h.After("allowIngressEnqueue", fmt.Sprintf("%v|%d", a, c), VerifArgs{Route: route})
		return a, c, r
	}
	ing.BasicAuthFor = func(route string) *ingress.BasicAuth {
		h.Before("basicAuthFor")
		a := s.basicAuthFor(route)
		h.After("basicAuthFor", ptrOrNil(a == nil, a), VerifArgs{Route: route})
		return a
	}
	ing.ForwardAuthFor = func(route string) *ingress.ForwardAuth {
		h.Before("forwardAuthFor")
		a := s.forwardAuthFor(route)
		h.After("forwardAuthFor", ptrOrNil(a == nil, a), VerifArgs{Route: route})
		return a
	}
	ing.HMACAuthFor = func(route string) *ingress.HMACAuth {
		h.Before("hmacAuthFor")
		a := s.hmacAuthFor(route)
		h.After("hmacAuthFor", ptrOrNil(a == nil, a), VerifArgs{Route: route})
		return a
	}
	ing.LimitsFor = func(route string) (int64, int) {
		h.Before("limitsFor")
		b, hd := s.limitsFor(route)
		h.After("limitsFor", fmt.Sprintf("%d|%d", b, hd), VerifArgs{Route: route})
		return b, hd
	}
	ing.TargetsFor = func(route string) []string {
		h.Before("targetsFor")
		t := s.targetsFor(route)
		h.After("targetsFor", strings.Join(t, ","), VerifArgs{Route: route})
		return t
	}
	ing.MaxBodyBytes = compiled.Defaults.MaxBodyBytes
	ing.MaxHeaderBytes = compiled.Defaults.MaxHeaderBytes
	return ing
}

// VerifIngressWiring lists which runtimeState accessor Ingress() puts behind which callback;
// the check compares it with the assignments in startServers' source text.
func VerifIngressWiring() map[string]string {
	return map[string]string{
		"ResolveRoute": "resolveIngress", "AllowedMethodsFor": "allowedMethodsFor",
		"AllowRequestFor": "allowIngress", "AllowEnqueueFor": "allowIngressEnqueue",
		"BasicAuthFor": "basicAuthFor", "ForwardAuthFor": "forwardAuthFor", "HMACAuthFor": "hmacAuthFor",
		"LimitsFor": "limitsFor", "TargetsFor": "targetsFor",
	}
}

// Pull returns a pullapi.Server wired as in startServers (ResolveRoute, Authorize), wrapped.
func (v *VerifState) Pull(store queue.Store, compiled config.Compiled, h VerifHook) *pullapi.Server {
	s := v.s
	p := pullapi.NewServer(store)
	p.ResolveRoute = func(endpoint string) (string, bool) {
		h.Before("resolvePull")
		route, ok := s.resolvePull(endpoint)
		h.After("resolvePull", fmt.Sprintf("%s|%v", route, ok), VerifArgs{Endpoint: endpoint})
		return route, ok
	}
	p.Authorize = func(r *http.Request) bool {
		h.Before("authorizePull")
		ok := s.authorizePull(r)
		h.After("authorizePull", fmt.Sprintf("%v", ok), VerifArgs{Req: r})
		return ok
	}
	if compiled.PullAPI.MaxBatch > 0 {
		p.MaxBatch = compiled.PullAPI.MaxBatch
	}
	if compiled.PullAPI.DefaultLeaseTTL > 0 {
		p.DefaultLeaseTTL = compiled.PullAPI.DefaultLeaseTTL
	}
	p.MaxLeaseTTL = compiled.PullAPI.MaxLeaseTTL
	p.DefaultMaxWait = compiled.PullAPI.DefaultMaxWait
	p.MaxWait = compiled.PullAPI.MaxWait
	return p
}

// Admin returns an admin.Server with the state-backed callbacks of startServers.
func (v *VerifState) Admin(store queue.Store, compiled config.Compiled) *admin.Server {
	s := v.s
	a := admin.NewServer(store)
	a.Authorize = s.authorizeAdmin
	a.ResolveManaged = s.resolveManagedEndpoint
	a.ManagedRouteInfoForRoute = s.managedRouteInfoForRoute
	a.ManagedRouteSet = s.managedRouteSetForPolicy
	a.TargetsForRoute = s.targetsForRoute
	a.ModeForRoute = s.modeForRoute
	a.PublishEnabledForRoute = s.publishEnabledForRoute
	a.PublishDirectEnabledForRoute = s.publishDirectEnabledForRoute
	a.PublishManagedEnabledForRoute = s.publishManagedEnabledForRoute
	a.LimitsForRoute = s.limitsFor
	a.MaxBodyBytes = compiled.Defaults.MaxBodyBytes
	a.MaxHeaderBytes = compiled.Defaults.MaxHeaderBytes
	a.PublishGlobalDirectEnabled = compiled.Defaults.PublishPolicy.DirectEnabled
	a.PublishScopedManagedEnabled = compiled.Defaults.PublishPolicy.ManagedEnabled
	a.PublishAllowPullRoutes = compiled.Defaults.PublishPolicy.AllowPullRoutes
	a.PublishAllowDeliverRoutes = compiled.Defaults.PublishPolicy.AllowDeliverRoutes
	a.ManagementModel = s.managementModel
	return a
}

// AuthorizeWorker calls the gRPC authorizer with the given incoming context.
func (v *VerifState) AuthorizeWorker(ctx context.Context, endpoint string) bool {
	return v.s.authorizeWorker(ctx, endpoint)
}

func (v *VerifState) ResolvePull(endpoint string) (string, bool) { return v.s.resolvePull(endpoint) }

// VerifWriteFileAtomicApp is run.go's writeFileAtomic.
func VerifWriteFileAtomicApp(path string, data []byte) error { return writeFileAtomic(path, data) }

// VerifMutation describes what the mutation callback given to mutateManagedEndpointConfig does.
type VerifMutation struct {
	Kind         string // "upsert" | "delete" | "custom"
	Application  string
	EndpointName string
	Route        string
	// custom: edits applied to the parsed config before it is formatted
	SetIngressListen string // non-empty: cfg.Ingress.Listen is replaced (a restart-requiring change)
	BreakRoute       string // non-empty: that route's pull block is removed (the result does not compile)
	// failure injection
	PostWriteFail bool // PostWriteValidate returns an error
	// observation: called after the file has been written and before validation/reload
	OnPostWrite func()
}

type VerifMutationOutcome struct {
	Err        string
	Applied    bool
	Action     string
	RunningNew bool // the returned config is not the running one
}

// VerifMutateManaged runs the real mutateManagedEndpointConfig with the real
// applyManagedEndpointUpsert/Delete (or a custom edit) and optional injected failures.
func VerifMutateManaged(path string, running config.Compiled, v *VerifState, store queue.Store, m VerifMutation) (VerifMutationOutcome, config.Compiled) {
	mutation := func(cfg *config.Config, compiled config.Compiled) (admin.ManagementEndpointMutationResult, error) {
		var res admin.ManagementEndpointMutationResult
		var err error
		switch m.Kind {
		case "upsert":
			res, err = applyManagedEndpointUpsert(cfg, compiled, admin.ManagementEndpointUpsertRequest{
				Application: m.Application, EndpointName: m.EndpointName, Route: m.Route, Reason: "verif"}, store)
		case "delete":
			res, err = applyManagedEndpointDelete(cfg, compiled, admin.ManagementEndpointDeleteRequest{
				Application: m.Application, EndpointName: m.EndpointName, Reason: "verif"}, store)
		case "custom":
			res = admin.ManagementEndpointMutationResult{Applied: true, Action: "custom", Route: m.Route}
			if m.SetIngressListen != "" {
				verifSetIngressListen(cfg, m.SetIngressListen)
			}
			if m.BreakRoute != "" {
				verifBreakRoute(cfg, m.BreakRoute)
			}
		default:
			return res, errors.New("verif: unknown mutation kind")
		}
		if err != nil {
			return res, err
		}
		inner := res.PostWriteValidate
		if res.Applied && (m.PostWriteFail || m.OnPostWrite != nil || inner != nil) {
			res.PostWriteValidate = func() error {
				if m.OnPostWrite != nil {
					m.OnPostWrite()
				}
				if m.PostWriteFail {
					return errors.New("verif: injected post-write validation failure")
				}
				if inner != nil {
					return inner()
				}
				return nil
			}
		}
		return res, nil
	}
	res, updated, err := mutateManagedEndpointConfig(path, running, v.s, newDiscardLogger(), mutation, "verif")
	out := VerifMutationOutcome{Applied: res.Applied, Action: res.Action}
	if err != nil {
		out.Err = err.Error()
	}
	return out, updated
}

func verifSetIngressListen(cfg *config.Config, listen string) {
	if cfg.Ingress == nil {
		cfg.Ingress = &config.IngressBlock{}
	}
	cfg.Ingress.Listen = listen
	cfg.Ingress.ListenQuoted = true
}

// verifBreakRoute duplicates the named route: route paths must be unique, so the edited
// configuration formats and parses but does not compile.
func verifBreakRoute(cfg *config.Config, route string) {
	for _, rt := range cfg.Routes {
		if strings.TrimSpace(rt.Path) == route {
			cfg.Routes = append(cfg.Routes, rt)
			return
		}
	}
}
