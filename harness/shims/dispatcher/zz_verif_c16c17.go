//go:build verif

package dispatcher

import (
	"context"
	"net"
	"net/url"
	"time"
)

// White-box access for the /verif harness (C16, C17). Mounted with -overlay, never committed.

// VerifC16Resolver is the (unexported) resolver interface, so the harness can name it.
type VerifC16Resolver interface {
	LookupIPAddr(ctx context.Context, host string) ([]net.IPAddr, error)
}

func VerifC16CheckURL(ctx context.Context, u *url.URL, policy EgressPolicy, r VerifC16Resolver) error {
	return checkEgressPolicyURL(ctx, u, policy, r)
}

// VerifC16IsAllowedIP asks the policy check itself (rebind protection on, no rules) about a host that
// resolves to exactly this address, so the harness does not depend on the helper's parameter types.
type verifFixedResolver struct{ ip net.IP }

func (f verifFixedResolver) LookupIPAddr(ctx context.Context, host string) ([]net.IPAddr, error) {
	return []net.IPAddr{{IP: f.ip}}, nil
}

func VerifC16IsAllowedIP(ip net.IP) bool {
	u := &url.URL{Scheme: "http", Host: "probe.verif.invalid"}
	return checkEgressPolicyURL(context.Background(), u, EgressPolicy{DNSRebindProtection: true}, verifFixedResolver{ip}) == nil
}

func VerifC17SelectRef(cfg *HMACSigningConfig, at time.Time) (string, error) {
	return selectSigningSecretRef(cfg, at)
}

func VerifC17ValidAt(v HMACSigningSecretVersion, at time.Time) bool {
	return isSigningSecretVersionValidAt(v, at)
}
