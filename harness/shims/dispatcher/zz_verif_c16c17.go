//go:build verif

package dispatcher

import (
	"context"
	"net"
	"net/url"
	"time"
)

// White-box access for the /verif harness (C16, C17). Mounted with -overlay, never committed.

// VerifC16Resolver is the (unexported) resolver interface, so the harness can name it.
type VerifC16Resolver interface {
	LookupIPAddr(ctx context.Context, host string) ([]net.IPAddr, error)
}

func VerifC16CheckURL(ctx context.Context, u *url.URL, policy EgressPolicy, r VerifC16Resolver) error {
	return checkEgressPolicyURL(ctx, u, policy, r)
}

func VerifC16IsAllowedIP(ip net.IP) bool { return isAllowedIP(ip) }

func VerifC16MatchHostRule(host string, rule EgressRule) bool { return matchHostRule(host, rule) }

func VerifC16MatchRules(host string, ips []net.IP, rules []EgressRule) bool {
	return matchEgressRules(host, ips, rules)
}

func VerifC17SelectRef(cfg *HMACSigningConfig, at time.Time) (string, error) {
	return selectSigningSecretRef(cfg, at)
}

func VerifC17ValidAt(v HMACSigningSecretVersion, at time.Time) bool {
	return isSigningSecretVersionValidAt(v, at)
}
