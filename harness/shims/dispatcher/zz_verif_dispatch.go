//go:build verif

package dispatcher

import (
	"log/slog"
	"time"

	"github.com/nuetzliches/hookaido/internal/queue"
)

// White-box access for the /verif harness (mounted with -overlay, never committed).

// VerifAction is the leaseAction classifyDelivery chose, in exported form.
type VerifAction struct {
	Kind    string // ack | nack | dead
	Delay   time.Duration
	Reason  string
	LeaseID string
	Target  string
}

func verifExport(a leaseAction) VerifAction {
	k := "?"
	switch a.kind {
	case leaseActionAck:
		k = "ack"
	case leaseActionNack:
		k = "nack"
	case leaseActionMarkDead:
		k = "dead"
	}
	return VerifAction{Kind: k, Delay: a.delay, Reason: a.reason, LeaseID: a.leaseID, Target: a.target}
}

// VerifClassifyAndApply runs the real classifyDelivery (Deliver through d.Deliverer, attempt
// record through d.Store) and then the real applyLeaseAction, as handleDelivery does.
func (d *PushDispatcher) VerifClassifyAndApply(logger *slog.Logger, env queue.Envelope, target TargetConfig) VerifAction {
	a := d.classifyDelivery(logger, env, target)
	d.applyLeaseAction(logger, a)
	return verifExport(a)
}

// VerifClassifyBatch classifies every envelope and applies the actions through the real
// applyLeaseActions (the batched path with its per-action fallback).
func (d *PushDispatcher) VerifClassifyBatch(logger *slog.Logger, envs []queue.Envelope, target TargetConfig) []VerifAction {
	actions := make([]leaseAction, 0, len(envs))
	out := make([]VerifAction, 0, len(envs))
	for _, env := range envs {
		a := d.classifyDelivery(logger, env, target)
		actions = append(actions, a)
		out = append(out, verifExport(a))
	}
	d.applyLeaseActions(logger, actions)
	return out
}

func VerifRetryDelay(attempt int, retry RetryConfig) time.Duration { return retryDelay(attempt, retry) }
func VerifShouldRetry(res Result) bool                             { return shouldRetry(res) }
func VerifIsSuccess(res Result) bool                               { return isSuccess(res) }

func VerifRouteLeaseTTL(targets []TargetConfig, leaseSlack time.Duration, dequeueBatch int) time.Duration {
	return routeLeaseTTL(targets, leaseSlack, dequeueBatch)
}
func VerifRouteDequeueBatch(concurrency, targetCount int) int { return routeDequeueBatch(concurrency, targetCount) }
func VerifRouteMutationBatch(dequeueBatch int) int            { return routeMutationBatch(dequeueBatch) }
