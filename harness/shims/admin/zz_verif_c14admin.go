//go:build verif

package admin

// White-box constants for the /verif C14 request-layer check (mounted with -overlay, never committed):
// the check compares them with Model/ManageGlue.v admin_default_list_limit / admin_max_list_limit.
const (
	VerifDefaultListLimit = defaultListLimit
	VerifMaxListLimit     = maxListLimit
)
