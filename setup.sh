#!/bin/bash
# Run once after a fresh restore (offline): build the Coq development, warm the Go build cache.
set -e
cd "$(dirname "$0")"
export GOFLAGS=-mod=mod GOPROXY=off
python3 - <<'PY'
import sys
sys.path.insert(0, '.')
from lib import common as C
ctx = C.Ctx("setup", "quick", 0)
try:
    tr, log = C.go_build_translators(ctx)
    if tr is None:
        print(log); sys.exit(1)
    rc, out = C.run([tr, C.REPO, C.COQ + "/Gen"])
    print(out)
    ok, log = C.coq_build()
    print(log[-3000:])
    if not ok:
        sys.exit(1)
    h, log = C.go_build_harness(ctx)
    if h is None:
        print(log); sys.exit(1)
finally:
    ctx.cleanup()
PY
echo setup-ok
