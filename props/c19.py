"""C19 - config fmt round-trips: same meaning, stable output.

Proof side: Properties/C19.v (spelling layer: lexer.go vs quoteString / isUnquoted*Safe /
formatValue / formatRoutePath, all rune sequences).  NOT a theorem: the directive layer
(parser.go, the write* functions of format.go, Compile) - decided here differentially:

  for every generated / corpus text t that config.Parse accepts:
     f = Format(Parse t);  Parse f succeeds;  Compile(Parse t) == Compile(Parse f) (canonical deep
     dump incl. validation errors/warnings);  Format(Parse f) == f.

Correspondence of the model: the Coq lexer is run on every t and f and on a malformed stream and
must give the Go lexer's token stream; the Coq quote/safe/formatValue functions must agree with
Go's on boundary strings; the token-level theorem is also evaluated on the implementation."""
import base64
import collections
import json
import os
import random
import re

from lib import common as C
from lib import hkgrammar as G
from lib import hkgen

HM = 2305843009213693951      # 2^61 - 1, used as a bit mask (see Model/LexerGlue.v)
HP = 1000003

ENV = {"HK_A": "alpha", "HK_LISTEN": ":18099", "HK_REF": "env:FROM_ENV", "HK_HOST": "ci.internal", "HK_BLANK": "",
       "HK_TOKEN": "t1", "HOOKAIDO_PULL_TOKEN": "t2"}
UNSET = ["HK_UNSET", "HK_TOKEN2", "NOPE"]


def b64(b):
    return base64.b64encode(b).decode()


def unb64(s):
    return base64.b64decode(s)


def mix(h, x):
    return (h * HP + x + 1) & HM


def hash_runes(rs):
    h = mix(23, len(rs))
    for x in rs:
        h = (h * HP + x + 1) & HM
    return h


def txt_runes(t):
    """decode the harness' compact text form into the rune-step list"""
    if "a" in t:
        return list(t["a"].encode("latin1"))
    return t.get("r", [])


def hash_lex_go(out):
    h = 17
    for tk in out["tokens"]:
        k = tk["k"]
        if k in (1, 2, 5):
            h = mix(mix(h, k), hash_runes(txt_runes(tk["t"])))
        else:
            h = mix(h, k)
    end = out["end"]
    return mix(h, end)


def hash_fmt_go(o):
    h = 29
    for x in (hash_runes(txt_runes(o["quote"])), int(o["vsafe"]), int(o["psafe"]),
              hash_runes(txt_runes(o["fv_false"])), hash_runes(txt_runes(o["fv_true"])),
              hash_runes(txt_runes(o["fp_false"])), hash_runes(txt_runes(o["fp_true"]))):
        h = mix(h, x)
    return h


def pack_runes(rs):
    """rune list -> list of ints for Model/LexerGlue.runes_of_ints (see there for the encoding)"""
    bs = bytearray()
    for r in rs:
        if r < 248:
            bs.append(r)
        else:
            bs += bytes((248, (r >> 16) & 255, (r >> 8) & 255, r & 255))
    out = []
    for i in range(0, len(bs), 7):
        chunk = bs[i:i + 7]
        v = len(chunk) << 56
        for j, b in enumerate(chunk):
            v |= b << (8 * j)
        out.append(v)
    return out


def coq_text(t):
    """Coq term (list N) for a compact text"""
    ints = pack_runes(txt_runes(t))
    if not ints:
        return "(@nil N)"
    chunks = ["[" + ";".join(map(str, ints[i:i + 800])) + "]" for i in range(0, len(ints), 800)]
    return "(runes_of_ints (" + " ++ ".join(chunks) + "))"


def text_cost(t):
    if "a" in t:
        return len(t["a"])
    return sum(1 if x < 248 else 4 for x in t.get("r", []))


# ---------------------------------------------------------------------------
# running the implementation
# ---------------------------------------------------------------------------

class Impl:
    def __init__(self, ctx, hbin):
        self.ctx = ctx
        self.hbin = hbin
        self.calls = 0

    def run(self, cmd, obj):
        self.calls += 1
        cwd = os.getcwd()
        os.chdir(self.ctx.scratch)      # {file.hk_file_placeholder} in generated texts is relative to the scratch dir
        try:
            rc, out, err = C.harness_run(self.hbin, [cmd], obj, timeout=1800)
        finally:
            os.chdir(cwd)
        if rc != 0:
            raise RuntimeError("%s failed: %s" % (cmd, err[-2000:]))
        return json.loads(out)

    def roundtrip(self, texts, dumps=False):
        if not texts:
            return []
        return self.run("fmt-roundtrip", {"env": ENV, "unset": UNSET, "texts": [b64(t) for t in texts], "dumps": dumps})

    def lex(self, texts, normalize):
        if not texts:
            return []
        return self.run("fmt-lex", {"texts": [b64(t) for t in texts], "normalize": normalize})

    def values(self, strings):
        if not strings:
            return []
        return self.run("fmt-values", {"strings": [b64(s) for s in strings]})


def failure_kind(o):
    """None when the property holds on this text (or Parse rejects it)"""
    if o.get("panic"):
        return "panic"
    if not o["parse_ok"]:
        return None
    if o.get("fmt_err"):
        return "format-error"
    if not o["reparse_ok"]:
        return "reparse-fails"
    if not o["equal"]:
        return "compile-differs"
    if o.get("fmt2_err"):
        return "format-error"
    if not o["idempotent"]:
        return "not-idempotent"
    return None


# ---------------------------------------------------------------------------
# naming a failure: which value slot was a blank quoted value that fmt dropped
# ---------------------------------------------------------------------------

def go_tokens_for_walk(lexout):
    toks = []
    for tk in lexout["tokens"]:
        k = tk["k"]
        rs = txt_runes(tk["t"])
        try:
            sp = bytes(rs)
        except ValueError:
            sp = "".join(chr(x) if x < 0x110000 else "?" for x in rs).encode("utf-8", "replace")
        toks.append(({1: 'id', 2: 'str', 3: '{', 4: '}', 5: '#'}[k], sp))
    return toks


GO_SPACE = {9, 10, 11, 12, 13, 32, 0x85, 0xA0, 0x1680, 0x2028, 0x2029, 0x202F, 0x205F, 0x3000} | set(range(0x2000, 0x200B))


def blank_slots(lexout):
    """contexts (families) of the value tokens - quoted or not - that strings.TrimSpace makes empty"""
    toks = go_tokens_for_walk(lexout)
    w = G.Walk(toks)
    out = []
    for i, tk in enumerate(lexout["tokens"]):
        if tk["k"] in (1, 2) and w.slots[i] and all(x in GO_SPACE for x in txt_runes(tk["t"])):
            out.append(G.family(w.slots[i]))
    return out


def json_diff_paths(a, b, path="", out=None, limit=6):
    if out is None:
        out = []
    if len(out) >= limit:
        return out
    if type(a) != type(b):
        out.append(path or "/")
    elif isinstance(a, dict):
        for k in sorted(set(a) | set(b)):
            if k not in a or k not in b:
                out.append(path + "/" + k)
            else:
                json_diff_paths(a[k], b[k], path + "/" + k, out, limit)
    elif isinstance(a, list):
        if len(a) != len(b):
            out.append(path + "[len %d vs %d]" % (len(a), len(b)))
        else:
            for i, (x, y) in enumerate(zip(a, b)):
                json_diff_paths(x, y, path + "[%d]" % i, out, limit)
    elif a != b:
        out.append(path)
    return out


def name_failure(impl, text, o):
    """(key, details) for a failing text (already minimised)"""
    kind = failure_kind(o)
    details = {"kind": kind}
    if kind == "panic":
        return "panic", {"panic": o.get("panic")}
    f = unb64(o["formatted"]) if o.get("formatted") else b""
    lt = impl.lex([text], True)[0]
    bt = blank_slots(lt)
    dropped = []
    if f and kind != "reparse-fails":
        lf = impl.lex([f], True)[0]
        bf = blank_slots(lf)
        c = collections.Counter(bt)
        c.subtract(collections.Counter(bf))
        dropped = sorted(k for k, v in c.items() if v > 0)
    details["blank_values_in_input"] = bt
    details["blank_values_dropped_by_fmt"] = dropped
    if kind == "compile-differs":
        try:
            d1, d2 = json.loads(o["dump1"]), json.loads(o["dump2"])
            paths = json_diff_paths(d1, d2)
            details["differing_paths"] = paths
            details["errors_before"] = d1.get("errors")
            details["errors_after"] = d2.get("errors")
            details["ok_before"], details["ok_after"] = d1.get("ok"), d2.get("ok")
        except Exception as e:     # noqa
            paths = ["?"]
        if dropped:
            return "blank-value-dropped:" + dropped[0], details
        p = re.sub(r"\[\d+\]", "[]", paths[0]) if paths else "?"
        return "compile-differs:" + p, details
    if kind == "reparse-fails":
        details["reparse_err"] = o.get("reparse_err")
        msg = re.sub(r"at \d+:\d+", "at L:C", o.get("reparse_err", ""))
        msg = re.sub(r'"[^"]*"', '"..."', msg)
        return "reparse-fails:" + msg[:80], details
    if kind == "not-idempotent":
        return "not-idempotent", details
    return kind, details


# ---------------------------------------------------------------------------
# shrinking (delete lines / brace-balanced regions / trailing tokens while the failure persists)
# ---------------------------------------------------------------------------

def shrink(impl, text, kind, max_rounds=40):
    cur = text.replace(b"\r\n", b"\n").replace(b"\r", b"\n")
    o = impl.roundtrip([cur], dumps=False)[0]
    if failure_kind(o) != kind:
        cur = text
    for _ in range(max_rounds):
        lines = cur.split(b"\n")
        cands = []
        for i, l in enumerate(lines):
            if not l.strip():
                continue
            s = l.strip()
            if s.endswith(b"{"):
                depth = 0
                j = i
                while j < len(lines):
                    depth += lines[j].count(b"{") - lines[j].count(b"}")
                    if depth <= 0 and j > i:
                        break
                    if depth <= 0 and j == i:
                        break
                    j += 1
                if j < len(lines):
                    cands.append(lines[:i] + lines[j + 1:])
            cands.append(lines[:i] + lines[i + 1:])
            parts = l.split()
            if len(parts) > 2 and not s.endswith(b"{"):
                cands.append(lines[:i] + [b" ".join(parts[:-1])] + lines[i + 1:])
        seen = set()
        texts = []
        for c in cands:
            t = b"\n".join(x for x in c if x.strip()) + b"\n"
            if t not in seen and len(t) < len(cur):
                seen.add(t)
                texts.append(t)
        if not texts:
            break
        res = impl.roundtrip(texts, dumps=False)
        good = [t for t, r in zip(texts, res) if failure_kind(r) == kind]
        if not good:
            break
        cur = min(good, key=len)
    return cur


# ---------------------------------------------------------------------------
# corpus: every Hookaidofile and fenced snippet in the repository
# ---------------------------------------------------------------------------

def corpus_candidates(repo):
    out = []
    p = os.path.join(repo, "Hookaidofile")
    if os.path.exists(p):
        data = open(p, "rb").read()
        out.append(("Hookaidofile", data))
        # commented-out example blocks, uncommented
        lines = data.split(b"\n")
        unc = b"\n".join(re.sub(rb"^# ?", b"", l) if l.startswith(b"#") else l for l in lines)
        out.append(("Hookaidofile(uncommented)", unc))
        run = []
        for l in lines + [b""]:
            if l.startswith(b"# ") or l == b"#":
                run.append(re.sub(rb"^# ?", b"", l))
            else:
                if len(run) >= 3:
                    out.append(("Hookaidofile(block)", b"\n".join(run) + b"\n"))
                run = []
    for root, dirs, files in os.walk(repo):
        dirs[:] = [d for d in dirs if d not in (".git", "node_modules")]
        for fn in sorted(files):
            fp = os.path.join(root, fn)
            rel = os.path.relpath(fp, repo)
            if fn.endswith(".md"):
                txt = open(fp, "rb").read()
                for m in re.finditer(rb"```[a-zA-Z]*[ \t]*\n(.*?)```", txt, flags=re.S):
                    body = m.group(1)
                    if b"{" in body:
                        out.append((rel, body))
                        # indented fences
                        ded = b"\n".join(re.sub(rb"^ {1,8}", b"", l) for l in body.split(b"\n"))
                        if ded != body:
                            out.append((rel, ded))
            elif fn.endswith("_test.go") or fn in ("doc.go",):
                txt = open(fp, "rb").read()
                for m in re.finditer(rb"`([^`]{8,})`", txt):
                    body = m.group(1)
                    if b"{" in body and b"\n" in body:
                        out.append((rel, body))
            elif fn.lower().startswith("hookaidofile") and fp != p:
                out.append((rel, open(fp, "rb").read()))
    seen = set()
    uniq = []
    for src, b in out:
        if b not in seen:
            seen.add(b)
            uniq.append((src, b))
    return uniq


# ---------------------------------------------------------------------------
# malformed / boundary streams
# ---------------------------------------------------------------------------

BOUNDARY = [b" ", b"\t", b"\n", b"\r", b'"', b"\\", b"#", b"{", b"}", b"a", b"/", b"$", b"n", b"\xc3\xa9", b"\xef\xbf\xbd",
            b"\xff", b"\xc3", b"@", b".", b"\xf0\x9f\x98\x80"]


def lexer_stream(rng, n, programs):
    out = []
    small = [b" ", b"\n", b'"', b"\\", b"#", b"{", b"}", b"a", b"$", b"\xff", b"\r"]
    # exhaustive up to length 3 over the small alphabet
    out.append(b"")
    for a in small:
        out.append(a)
        for b_ in small:
            out.append(a + b_)
            for c in small:
                out.append(a + b_ + c)
    frag = [b"{$", b"{env.", b"{file.", b"{$X}", b"{env.A}", b"{file./p}", b"{vars.x}", b'"a\\n"', b'"\\', b'"\\q"', b"#c\n",
            b"auth", b"hmac", b"/p", b"@m", b"{", b"}", b" ", b"\n", b"\t", b"\r\n", b'"', b"\\", b"\xff", b"\xc3\xa9",
            b"\xe2\x82", b"\xed\xa0\x80", b"\xf4\x90\x80\x80", b"\xc0\x80", b"\xef\xbb\xbf", b"x", b"$", b".", b"}"]
    for _ in range(n):
        k = rng.randrange(1, 12)
        out.append(b"".join(rng.choice(frag if rng.random() < 0.7 else BOUNDARY) for _ in range(k)))
    # damaged programs: cut, byte flips, dropped characters
    for p in programs:
        if not p:
            continue
        how = rng.randrange(4)
        if how == 0:
            out.append(p[:rng.randrange(len(p))])
        elif how == 1:
            i = rng.randrange(len(p))
            out.append(p[:i] + rng.choice(BOUNDARY) + p[i + 1:])
        elif how == 2:
            i = rng.randrange(len(p))
            out.append(p[:i] + p[i + 1:])
        else:
            i = rng.randrange(len(p))
            out.append(p[:i] + rng.choice(BOUNDARY) + p[i:])
    return out


def value_stream(rng, n, seen_values):
    out = [b""]
    alpha = [b" ", b"\t", b"\n", b"\r", b'"', b"\\", b"#", b"{", b"}", b"a", b"/", b"\xc3\xa9", b"\xff"]
    for a in alpha:
        out.append(a)
        for b_ in alpha:
            out.append(a + b_)
            for c in alpha:
                out.append(a + b_ + c)
    extra = [b"{$X}", b"{env.X}", b"{file.X}", b"{foo}", b"{$a b}", b"{$a}b}", b"{$a}{$b}", b"{a{b}", b"/p", b"/p q", b"/{x}",
             b"p", b"\xef\xbf\xbd", b"\xf0\x9f\x98\x80", b"\xed\xa0\x80", b"\xe2\x82", b"{\xff}", b"{$\xff}", b"/\xff",
             b"\xffabc", b"a\xff", b"{$", b"$}", b"{}", b"{ }", b"{\t}", b"{\n}", b"\xc2\xa0", b"\xe2\x80\xa8x", b"\x00", b"a\x00b",
             b"\x7f", b"\x1b[0m"]
    out += extra
    for _ in range(n):
        k = rng.randrange(1, 9)
        out.append(b"".join(rng.choice(BOUNDARY + [b"x", b"env:", b"{$", b"{env.", b"}"]) for _ in range(k)))
    out += list(seen_values)
    uniq = []
    s = set()
    for v in out:
        if v not in s:
            s.add(v)
            uniq.append(v)
    return uniq


# ---------------------------------------------------------------------------
# model evaluation (Coq, vm_compute), sharded
# ---------------------------------------------------------------------------

def coq_hashes(ctx, name, fn, texts, par=16):
    """texts: list of compact texts; returns (list of ints = fn applied in Coq, number of shards)"""
    costs = [text_cost(t) + 20 for t in texts]
    total = sum(costs)
    target = max(15000, -(-total // par))
    if target > 600000:
        target = 600000
    shards, cur, size = [], [], 0
    for t, c in zip(texts, costs):
        cur.append(t)
        size += c
        if size >= target:
            shards.append(cur)
            cur, size = [], 0
    if cur:
        shards.append(cur)
    bodies = []
    for sh in shards:
        b = ["From Coq Require Import List NArith Uint63.",
             "From HK Require Import Model.Lexer Model.FormatValue Model.LexerGlue.",
             "Import ListNotations.", "Open Scope uint63_scope.",
             "Definition R := Eval vm_compute in map %s ([%s] : list (list N))." % (fn, ";\n ".join(coq_text(t) for t in sh)),
             "Print R."]
        bodies.append("\n".join(b) + "\n")
    res = C.coq_eval_shards(ctx, name, bodies, par=par)
    out = []
    for (rc, o), sh in zip(res, shards):
        if rc != 0:
            raise RuntimeError("coq evaluation failed: " + o[-1500:])
        flat = " ".join(o.split())
        m = re.search(r"R\s*=\s*\[(.*?)\]\s*(?:%N)?\s*:\s*list", flat)
        if not m:
            if re.search(r"R\s*=\s*\[\s*\]", flat):
                nums = []
            else:
                raise RuntimeError("cannot parse coq output: " + o[-800:])
        else:
            nums = [int(x) for x in re.findall(r"\d+", m.group(1))]
        if len(nums) != len(sh):
            raise RuntimeError("coq returned %d results for %d cases" % (len(nums), len(sh)))
        out += nums
    return out, len(shards)


def coq_dump_lex(ctx, t):
    body = "\n".join(["From Coq Require Import List NArith Uint63.",
                      "From HK Require Import Model.Lexer Model.FormatValue Model.LexerGlue.",
                      "Import ListNotations.", "Open Scope uint63_scope.",
                      "Definition R := Eval vm_compute in dump_lex %s." % coq_text(t), "Print R."]) + "\n"
    rc, o = C.coq_eval_cases(ctx, "c19dump", body)
    return " ".join(o.split())[:1500]


# ---------------------------------------------------------------------------
# main
# ---------------------------------------------------------------------------

def near_miss_texts():
    """texts that put two spellings of ONE setting (or the same directive twice) into one block.  The parser of the pinned tree refuses
    most of them - a text that does not parse is outside the property - but whatever a tree under check accepts must keep its meaning
    under fmt like any other text: a parser that starts to accept one of these needs a formatter that writes both parts back."""
    head = 'ingress {\n  listen ":8080"\n}\npull_api {\n  listen ":9443"\n  auth token "raw:t"\n}\n'
    pub = ["publish off", "publish on", "publish {\n    enabled off\n  }", "publish {\n    enabled off\n    direct on\n  }", "publish {\n    direct off\n  }",
           "publish.direct on", "publish.direct off", "publish.managed off", "publish.managed on"]
    route_snips = [(a, b) for a in pub for b in pub if a != b or a.startswith("publish.")]
    route_snips += [('queue sqlite', 'queue {\n    backend sqlite\n  }'), ('max_body 1kb', 'max_body 2kb'), ('max_headers 1kb', 'max_headers 2kb'),
                    ('rate_limit {\n    rps 5\n  }', 'rate_limit {\n    rps 7\n    burst 2\n  }'),
                    ('auth basic "u" "p"', 'auth hmac {\n    secret "raw:k"\n  }'), ('deliver_concurrency 2', 'deliver_concurrency 3'),
                    ('application "a1"\n  endpoint_name "e1"', 'application "a2"')]
    out = []
    for k, (a, b) in enumerate(route_snips):
        for wrap in ("", "internal"):
            body = '"/r%d" {\n  %s\n  %s\n  pull { path "/p%d" }\n}\n' % (k, a, b, k)
            if wrap:
                body = "internal {\n%s}\n" % body
            out.append(("nearmiss:route:%d:%s" % (k, wrap or "bare"), (head + body + '"/other" {\n  pull { path "/o" }\n}\n').encode()))
    top = [('defaults {\n  max_body 1kb\n}\n', 'defaults {\n  max_headers 1kb\n}\n'),
           ('queue_limits {\n  max_depth 5\n}\n', 'queue_limits {\n  drop_policy drop_oldest\n}\n'),
           ('observability {\n  access_log off\n}\n', 'observability {\n  access_log {\n    enabled on\n  }\n}\n'),
           ('defaults {\n  publish_policy {\n    direct off\n  }\n  publish_policy {\n    managed off\n  }\n}\n', ''),
           ('defaults {\n  deliver {\n    timeout 5s\n  }\n  deliver {\n    concurrency 3\n  }\n}\n', ''),
           ('defaults {\n  egress {\n    https_only off\n  }\n  egress {\n    redirects on\n  }\n}\n', '')]
    for k, (a, b) in enumerate(top):
        out.append(("nearmiss:top:%d" % k, (head + a + b + '"/x" {\n  pull { path "/px" }\n}\n').encode()))
    return out


def main(ctx, replay):
    rng = random.Random(ctx.seed)
    info = C.prologue(ctx)
    if info["hbin"] is None:
        raise C.HarnessBuildFailed(info.get("go_log", ""))
    impl = Impl(ctx, info["hbin"])
    quick = ctx.tier == "quick"
    assumptions = [
        "the directive layer (parser.go recursive descent, format.go write* functions, Compile) is not modelled: it is "
        "checked differentially on generated programs and the repository's own examples, not proved",
        "utf8.DecodeRuneInString (Go standard library) is executed by the harness; the Coq lexer works on its step sequence "
        "(undecodable byte = item >= 0x110000)",
        "Compile reads the process environment and files for {$X}/{env.X}/{file.X}; the harness fixes both for the run",
        "inputs are shipped to Coq as lists of primitive 63-bit integers (Model/LexerGlue.v, Uint63) and decoded there; "
        "this glue and the checksums are test plumbing, no theorem of Properties/C19.v depends on them",
        "canonical dump: nil slice/map == empty; validation errors/warnings compared as sorted multisets (Compile iterates a "
        "map in compileVars); an order-only difference is counted in the evidence, not reported",
    ]
    cov = C.proof_coverage(info, "C19")
    os.makedirs(ctx.scratch, exist_ok=True)
    fpath = os.path.join(ctx.scratch, "hk_file_placeholder")
    open(fpath, "w").write("env:FROM_FILE")

    # ---- replay of one recorded case
    if replay:
        ro = json.load(open(replay))
        case = ro.get("case", {})
        if "text_b64" in case:
            text = unb64(case["text_b64"])
            o = impl.roundtrip([text], dumps=True)[0]
            kind = failure_kind(o)
            if kind:
                key, det = name_failure(impl, text, o)
                C.report(ctx, key, "replayed case still fails (%s)" % kind,
                         {"kind": "program", "case": case, "observed": det})
            cov.update({"evaluations": 1, "distinct_nontrivial": 1, "rule": "replay of one recorded program",
                        "samples": [case], "traces_validated_against_impl": 1})
            return C.conclude(ctx, info, cov, assumptions)
        # other kinds of replays (lexer / helper correspondence): fall through to a normal run with the same seed

    phases = {}
    import time as _time
    t_last = [_time.time()]

    def phase(name):
        now = _time.time()
        phases[name] = round(now - t_last[0], 2)
        t_last[0] = now

    phase("prologue")
    # ---- 1. texts
    n_prog = 1500 if quick else 24000
    gens = []
    for i in range(n_prog):
        g = hkgen.Gen(rng, file_path=b"hk_file_placeholder")
        items = g.program()
        text = hkgen.render(items, rng)
        gens.append((items, text, g.wild))
    corpus = corpus_candidates(C.REPO)
    corpus += near_miss_texts()
    # single LINES of 60 000 to 300 000 bytes (an inline certificate bundle in vars, a long raw: secret, a long comment): longer than any
    # default line buffer; judged on the implementation (the lexer model is not run on them: 'long' origin)
    longs = []
    for n in (60000, 66000, 70000, 300000):
        longs.append(('ingress {\n  listen ":8080"\n}\npull_api {\n  listen ":9443"\n  auth token "raw:%s"\n}\n"/a" {\n  pull { path /p }\n}\n' % ("k" * n)).encode())
        longs.append(('# %s\ningress {\n  listen ":8080"\n}\nvars {\n  PEM "%s"\n}\npull_api {\n  listen ":9443"\n  auth token "raw:t"\n}\n"/a" {\n  pull { path /p }\n}\n' % ("c" * n, "A" * n)).encode())
    texts = [t for _, t, _ in gens] + [b for _, b in corpus] + longs
    origin = ["gen"] * len(gens) + ["corpus"] * len(corpus) + ["long"] * len(longs)

    phase("generate")
    # ---- 2. the implementation on every text
    res = []
    B = 400
    for i in range(0, len(texts), B):
        res += impl.roundtrip(texts[i:i + B], dumps=False)
    lex_t = []
    for i in range(0, len(texts), B):
        lex_t += impl.lex(texts[i:i + B], True)
    accepted = [i for i, o in enumerate(res) if o["parse_ok"]]
    fmts = {i: unb64(res[i]["formatted"]) for i in accepted if res[i].get("formatted")}
    fkeys = sorted(fmts)
    lex_f_list = []
    for i in range(0, len(fkeys), B):
        lex_f_list += impl.lex([fmts[k] for k in fkeys[i:i + B]], True)
    lex_f = dict(zip(fkeys, lex_f_list))

    phase("impl")
    # ---- 3. measured distribution
    hist = collections.Counter()
    per_prog_dirs = []
    walk_fail = 0
    for i in accepted:
        w = G.Walk(go_tokens_for_walk(lex_t[i]))
        if not w.ok:
            walk_fail += 1
        hist.update(w.kinds)
        per_prog_dirs.append(len(w.kinds))
    all_kinds = G.all_kinds()
    missing = sorted(all_kinds - set(hist))
    n_gen_acc = sum(1 for i in accepted if origin[i] == "gen")
    n_cor_acc = sum(1 for i in accepted if origin[i] == "corpus")
    n_compile_ok = sum(1 for i in accepted if res[i]["compile_ok1"])
    spell = collections.Counter()
    for i in accepted:
        for tk in lex_t[i]["tokens"]:
            if tk["k"] == 2:
                spell["quoted"] += 1
                if not txt_runes(tk["t"]):
                    spell["quoted-empty"] += 1
            elif tk["k"] == 1:
                rs = txt_runes(tk["t"])
                if rs and rs[0] == 123:
                    spell["placeholder"] += 1
                else:
                    spell["unquoted"] += 1
            elif tk["k"] == 5:
                spell["comment"] += 1

    phase("distribution")
    # ---- 4. property on the implementation; shrink; name; report
    failing = [i for i in accepted if failure_kind(res[i])]
    order_only = sum(1 for i in accepted if res[i].get("equal") and not res[i].get("order_equal"))
    nondet = sum(1 for i in accepted if not res[i].get("deterministic", True))
    prekeys = collections.Counter()
    shrunk_budget = 10 if quick else 40
    reported = {}
    fail_kinds = collections.Counter()
    for i in failing:
        kind = failure_kind(res[i])
        fail_kinds[kind] += 1
        bt = blank_slots(lex_t[i])
        bf = blank_slots(lex_f[i]) if i in lex_f else []
        c = collections.Counter(bt)
        c.subtract(collections.Counter(bf))
        pre = (kind, tuple(sorted(k for k, v in c.items() if v > 0)))
        prekeys[pre] += 1
        if prekeys[pre] > 1 or shrunk_budget <= 0:
            continue
        shrunk_budget -= 1
        small = shrink(impl, texts[i], kind)
        o = impl.roundtrip([small], dumps=True)[0]
        if failure_kind(o) != kind:
            small, o = texts[i], impl.roundtrip([texts[i]], dumps=True)[0]
        key, det = name_failure(impl, small, o)
        if key in reported:
            continue
        reported[key] = small
        C.report(ctx, key, "%s after fmt: %s" % (kind, small.decode("utf-8", "replace").replace("\n", "\\n")[:200]),
                 {"kind": "program", "case": {"text_b64": b64(small), "text": small.decode("utf-8", "replace"),
                                              "origin": origin[i], "original_b64": b64(texts[i])},
                  "observed": dict(det, formatted=unb64(o["formatted"]).decode("utf-8", "replace") if o.get("formatted") else None),
                  "expected": "Parse(f) succeeds, Compile(Parse t) == Compile(Parse f), Format(Parse f) == f",
                  "how_to_replay": "./check C19 --replay <this file>"})

    phase("shrink+report")
    # ---- 5. blank-value sweep: every value slot of the language, alone in its enclosing blocks, as "" and " "
    sweep = {}
    spines = {}
    spine_n = {}
    clean_gen = [k for k in range(len(gens)) if res[k]["parse_ok"] and not failure_kind(res[k])]
    per_family = 2 if quick else 8
    for k in clean_gen:
        items = gens[k][0]
        fl = hkgen.flat(items)
        w = G.Walk([(a, b) for a, b, _, _ in fl])
        if not w.ok:
            continue
        for idx, ctxp in enumerate(w.slots):
            if not ctxp:
                continue
            fam = G.family(ctxp)
            lst = spines.setdefault(fam, [])
            if spine_n.get(fam, 0) >= per_family:
                continue
            spine_n[fam] = spine_n.get(fam, 0) + 1
            ii, ti = fl[idx][2], fl[idx][3]
            # spine: the enclosing block heads of item ii, the item itself, the closers
            depth_stack = []
            for j in range(ii):
                it = items[j]
                if it.kind == 'dir' and it.toks[-1] == b'{':
                    depth_stack.append(j)
                elif it.kind == 'close' and depth_stack:
                    depth_stack.pop()
            for blank in (b'""', b'" "', b'\xc2\xa0'):
                lines = []
                for j in depth_stack:
                    lines.append(b" ".join(items[j].toks))
                it = items[ii].copy()
                it.toks[ti] = blank
                lines.append(b" ".join(it.toks))
                opens = len(depth_stack) + (1 if it.toks[-1] == b'{' else 0)
                lines += [b"}"] * opens
                lst.append((fam, blank, b"\n".join(lines) + b"\n"))
    sweep_texts = [t for fam in sorted(spines) for (_, _, t) in spines[fam]]
    sweep_meta = [(fam, bl) for fam in sorted(spines) for (fam, bl, _) in spines[fam]]
    sres = []
    for i in range(0, len(sweep_texts), B):
        sres += impl.roundtrip(sweep_texts[i:i + B], dumps=True)
    for (fam, bl), t, o in zip(sweep_meta, sweep_texts, sres):
        row = sweep.setdefault(fam, {"tried": 0, "parse_ok": 0, "fails": 0, "kinds": {}})
        row["tried"] += 1
        if o["parse_ok"]:
            row["parse_ok"] += 1
        kind = failure_kind(o)
        if kind:
            row["fails"] += 1
            row["kinds"][kind] = row["kinds"].get(kind, 0) + 1
            key, det = name_failure(impl, t, o)
            if key not in reported:
                reported[key] = t
                C.report(ctx, key, "%s after fmt: %s" % (kind, t.decode("utf-8", "replace").replace("\n", "\\n")[:200]),
                         {"kind": "program", "case": {"text_b64": b64(t), "text": t.decode("utf-8", "replace"), "origin": "blank-sweep"},
                          "observed": dict(det, formatted=unb64(o["formatted"]).decode("utf-8", "replace") if o.get("formatted") else None),
                          "expected": "Parse(f) succeeds, Compile(Parse t) == Compile(Parse f), Format(Parse f) == f",
                          "how_to_replay": "./check C19 --replay <this file>"})
    # in context: the same slots blanked inside whole generated programs that were clean (preferably compiling),
    # which also shows the "invalid before fmt, valid after fmt" flips
    ctx_n = 2 if quick else 10
    order = sorted(clean_gen, key=lambda k: (not res[k]["compile_ok1"], len(gens[k][1])))
    inctx = {}
    inctx_n = {}
    for k in order:
        items = gens[k][0]
        fl = hkgen.flat(items)
        w = G.Walk([(a, b) for a, b, _, _ in fl])
        if not w.ok:
            continue
        for idx, ctxp in enumerate(w.slots):
            if not ctxp:
                continue
            fam = G.family(ctxp)
            if inctx_n.get(fam, 0) >= ctx_n:
                continue
            inctx_n[fam] = inctx_n.get(fam, 0) + 1
            ii, ti = fl[idx][2], fl[idx][3]
            for blank in (b'""', b'"\\t "'):
                its = [it.copy() for it in items]
                its[ii].toks[ti] = blank
                inctx.setdefault(fam, []).append((blank, hkgen.render(its), res[k]["compile_ok1"]))
    ic_texts = [t for fam in sorted(inctx) for (_, t, _) in inctx[fam]]
    ic_meta = [(fam, ok0) for fam in sorted(inctx) for (_, _, ok0) in inctx[fam]]
    icres = []
    for i in range(0, len(ic_texts), B):
        icres += impl.roundtrip(ic_texts[i:i + B], dumps=False)
    flips = {}
    shrink_left = 6 if quick else 30
    for (fam, ok0), t, o in zip(ic_meta, ic_texts, icres):
        row = sweep.setdefault(fam, {"tried": 0, "parse_ok": 0, "fails": 0, "kinds": {}})
        row["in_context_tried"] = row.get("in_context_tried", 0) + 1
        kind = failure_kind(o)
        if not kind:
            continue
        row["in_context_fails"] = row.get("in_context_fails", 0) + 1
        if o["parse_ok"] and not o["compile_ok1"] and o.get("compile_ok2"):
            row["flips_invalid_to_valid"] = row.get("flips_invalid_to_valid", 0) + 1
            if fam not in flips or len(t) < len(flips[fam]):
                flips[fam] = t
        if row["fails"] == 0 and not row.get("in_context_reported") and shrink_left > 0:
            # a family the stand-alone spine did not expose: minimise this one and report it
            row["in_context_reported"] = True
            shrink_left -= 1
            small = shrink(impl, t, kind)
            o2 = impl.roundtrip([small], dumps=True)[0]
            if failure_kind(o2) != kind:
                small, o2 = t, impl.roundtrip([t], dumps=True)[0]
            key, det = name_failure(impl, small, o2)
            if key not in reported:
                reported[key] = small
                C.report(ctx, key, "%s after fmt: %s" % (kind, small.decode("utf-8", "replace").replace("\n", "\\n")[:200]),
                         {"kind": "program", "case": {"text_b64": b64(small), "text": small.decode("utf-8", "replace"), "origin": "blank-sweep-in-context"},
                          "observed": dict(det, formatted=unb64(o2["formatted"]).decode("utf-8", "replace") if o2.get("formatted") else None),
                          "expected": "Parse(f) succeeds, Compile(Parse t) == Compile(Parse f), Format(Parse f) == f",
                          "how_to_replay": "./check C19 --replay <this file>"})
    affected = sorted(f for f, r in sweep.items() if r["fails"] or r.get("in_context_fails"))

    # ---- 5b. spelling sweep: every value slot of the language, in context, set to values whose spelling is delicate
    # (a sibling directive keyword, blanks inside, '#', brace, quote+backslash, escapes, non-ASCII, a placeholder)
    sp_n = 1 if quick else 4
    sp = []
    sp_count = {}
    for k in order:
        items = gens[k][0]
        fl = hkgen.flat(items)
        w = G.Walk([(a, b) for a, b, _, _ in fl])
        if not w.ok:
            continue
        for idx, ctxp in enumerate(w.slots):
            if not ctxp:
                continue
            fam = G.family(ctxp)
            if sp_count.get(fam, 0) >= sp_n:
                continue
            sp_count[fam] = sp_count.get(fam, 0) + 1
            ii, ti = fl[idx][2], fl[idx][3]
            blk = fam.split("/")[0]
            if fam == "top/route path":
                specials = [b'"/with space"', b'"/h#x"', b'"/b{x}"', b'"/q\\"u\\\\"', b'"noslash"', b'"/\xc3\xa9"', b'/plain']
            else:
                kws = sorted(G.SPEC.get(blk, {}).keys()) or ["deny"]
                kw = kws[(len(sp) // 7) % len(kws)].encode()
                specials = [b'"' + kw + b'"', b'"a b"', b'"x#y"', b'"{"', b'"a\\"b\\\\c"', b'"t\\tb \xc3\xa9\xf0\x9f\x98\x80"', b'{$HK_A}']
            for spv in specials:
                its = [it.copy() for it in items]
                its[ii].toks[ti] = spv
                sp.append((fam, spv, hkgen.render(its)))
    spres = []
    for i in range(0, len(sp), B):
        spres += impl.roundtrip([t for _, _, t in sp[i:i + B]], dumps=False)
    sp_stats = {"mutants": len(sp), "accepted_by_parse": 0, "failing": 0, "families": len(sp_count)}
    sp_shrink = 6 if quick else 30
    for (fam, spv, t), o in zip(sp, spres):
        if o["parse_ok"]:
            sp_stats["accepted_by_parse"] += 1
        kind = failure_kind(o)
        if not kind:
            continue
        sp_stats["failing"] += 1
        if sp_shrink <= 0:
            continue
        sp_shrink -= 1
        small = shrink(impl, t, kind)
        o2 = impl.roundtrip([small], dumps=True)[0]
        if failure_kind(o2) != kind:
            small, o2 = t, impl.roundtrip([t], dumps=True)[0]
        key, det = name_failure(impl, small, o2)
        if not key.startswith("blank-value-dropped:"):
            key = "%s@%s" % (key, fam)
        if key not in reported:
            reported[key] = small
            C.report(ctx, key, "%s after fmt: %s" % (kind, small.decode("utf-8", "replace").replace("\n", "\\n")[:200]),
                     {"kind": "program", "case": {"text_b64": b64(small), "text": small.decode("utf-8", "replace"),
                                                  "origin": "spelling-sweep", "slot": fam, "value": spv.decode("utf-8", "replace")},
                      "observed": dict(det, formatted=unb64(o2["formatted"]).decode("utf-8", "replace") if o2.get("formatted") else None),
                      "expected": "Parse(f) succeeds, Compile(Parse t) == Compile(Parse f), Format(Parse f) == f",
                      "how_to_replay": "./check C19 --replay <this file>"})
    flip_examples = {f: flips[f].decode("utf-8", "replace")[:900] for f in sorted(flips)}

    phase("blank-sweep")
    # ---- 6. lexer correspondence: Coq lexer vs Go lexer on t, f and the malformed stream
    stream = lexer_stream(rng, 2500 if quick else 30000, [t for _, t, _ in gens[: (400 if quick else 4000)]])
    lex_s = []
    for i in range(0, len(stream), 2000):
        lex_s += impl.lex(stream[i:i + 2000], False)
    rej_cap = 120 if quick else 100000
    lex_idx = []
    for i in range(len(texts)):
        if origin[i] == "long":
            continue
        if res[i]["parse_ok"] or origin[i] == "gen":
            lex_idx.append(i)
        elif rej_cap > 0 and len(texts[i]) < 3000:
            rej_cap -= 1
            lex_idx.append(i)
    lex_all = [(("t", i), lex_t[i]) for i in lex_idx] + [(("f", i), lex_f[i]) for n_, i in enumerate(fkeys) if origin[i] != "long" and ((not quick) or origin[i] == "corpus" or n_ % 2 == 0)] + \
              [(("s", i), lex_s[i]) for i in range(len(stream))]
    # dedupe by source
    seen_src = {}
    uniq_lex = []
    for tag, lo in lex_all:
        k = json.dumps(lo["src"], sort_keys=True)
        if k in seen_src:
            continue
        seen_src[k] = 1
        uniq_lex.append((tag, lo))
    phase("lexer-impl")
    coq_h, nshards = coq_hashes(ctx, "c19lex", "hash_lex", [lo["src"] for _, lo in uniq_lex])
    phase("lexer-coq")
    lex_mism = 0
    end_hist = collections.Counter()
    tok_total = 0
    rt_bad_total = 0
    values_total = 0
    for (tag, lo), hc in zip(uniq_lex, coq_h):
        end_hist[lo["end"]] += 1
        tok_total += len(lo["tokens"])
        values_total += lo.get("values", 0)
        if lo.get("panic"):
            C.report(ctx, "panic:lexer", "the lexer panicked", {"kind": "program", "case": {"src": lo["src"]}, "observed": lo["panic"]})
        if lo["end"] == 8:
            C.report(ctx, "lexer-unknown-error", "the lexer returned an error the model does not know: %s" % lo.get("err"),
                     {"kind": "program", "case": {"src": lo["src"]}, "observed": lo.get("err")})
        if lo.get("rt_bad"):
            rt_bad_total += len(lo["rt_bad"])
            bad = lo["tokens"][lo["rt_bad"][0]]
            C.report(ctx, "token-roundtrip-broken:%s" % ("string" if bad["k"] == 2 else "ident"),
                     "a value token written by formatValue does not lex back as the same single token",
                     {"kind": "program", "case": {"token": bad, "src": lo["src"]},
                      "expected": "C19_format_value_fixpoint evaluated on the implementation"})
        if hash_lex_go(lo) != hc:
            lex_mism += 1
            if lex_mism <= 3:
                C.report(ctx, "lexer-correspondence:end%d" % lo["end"],
                         "Coq lexer and Go lexer disagree on a text",
                         {"kind": "program", "case": {"src": lo["src"], "where": list(tag)},
                          "observed": {"go_tokens": lo["tokens"][:40], "go_end": lo["end"], "go_err": lo.get("err")},
                          "expected": {"coq_dump": coq_dump_lex(ctx, lo["src"])}})

    phase("lexer-correspondence")
    # ---- 7. formatter helpers: Coq vs Go
    seen_values = set()
    for i in accepted[: (600 if quick else 6000)]:
        for tk in lex_t[i]["tokens"]:
            if tk["k"] in (1, 2):
                rs = txt_runes(tk["t"])
                if all(x < 0x110000 for x in rs):
                    seen_values.add("".join(map(chr, rs)).encode("utf-8", "surrogatepass"))
    vals = value_stream(rng, 1500 if quick else 20000, sorted(seen_values)[: (3000 if quick else 40000)])
    vres = []
    for i in range(0, len(vals), 4000):
        vres += impl.values(vals[i:i + 4000])
    phase("helper-impl")
    coq_v, nsh2 = coq_hashes(ctx, "c19val", "hash_fmt", [o["src"] for o in vres])
    phase("helper-coq")
    val_mism = 0
    vstats = collections.Counter()
    for o, hc in zip(vres, coq_v):
        vstats["vsafe" if o["vsafe"] else "not-vsafe"] += 1
        src = txt_runes(o["src"])
        if any(x >= 0x110000 for x in src):
            vstats["has-undecodable-byte"] += 1
        # quote_roundtrip on the implementation: quoted spelling lexes as one string token + the tail
        norm = [0xFFFD if x >= 0x110000 else x for x in src]
        if not (o["qend"] == 0 and o["qn"] == 2 and o["qk"] == 2 and txt_runes(o["qt"]) == norm):
            C.report(ctx, "quote-roundtrip-broken", "quoteString output does not lex back as one string token with the same text",
                     {"kind": "program", "case": {"string": o["src"]}, "observed": {k: o[k] for k in ("quote", "qk", "qt", "qn", "qend")},
                      "expected": "C19_quote_roundtrip_any evaluated on the implementation"})
        if hash_fmt_go(o) != hc:
            val_mism += 1
            if val_mism <= 3:
                C.report(ctx, "fmt-helper-correspondence", "Coq and Go disagree on quoteString/isUnquoted*Safe/formatValue/formatRoutePath",
                         {"kind": "program", "case": {"string": o["src"]}, "observed": o})

    phase("helper-correspondence")
    # ---- evidence
    nontrivial = set()
    for i in accepted:
        if per_prog_dirs and res[i]["parse_ok"]:
            nontrivial.add(C.sha(b64(texts[i])))
    samples = []
    for i in accepted[:400]:
        if origin[i] == "gen" and res[i]["compile_ok1"] and 200 < len(texts[i]) < 700 and len(samples) < 2:
            samples.append({"text": texts[i].decode("utf-8", "replace"), "formatted": fmts[i].decode("utf-8", "replace"), "compile_ok": True})
    for i in accepted[:400]:
        if origin[i] == "gen" and not res[i]["compile_ok1"] and 100 < len(texts[i]) < 500 and len(samples) < 3:
            samples.append({"text": texts[i].decode("utf-8", "replace"), "formatted": fmts[i].decode("utf-8", "replace"),
                            "compile_ok": False, "n_errors": res[i]["n_errors"]})
    dl = sorted(per_prog_dirs)
    cov.update({
        "evaluations": len(texts) + len(sweep_texts) + len(ic_texts) + len(sp) + len(uniq_lex) + len(vres),
        "distinct_nontrivial": len(nontrivial),
        "rule": "distinct texts accepted by the real config.Parse (each was formatted, re-parsed, compiled twice and formatted "
                "again); generated programs cover every block/directive kind of parser.go (kinds_missing lists what was not hit)",
        "samples": samples,
        "traces_validated_against_impl": len(accepted) + len(sweep_texts) + len(ic_texts) + len(sp),
        "input_distribution": {
            "programs_generated": len(gens), "wild_mode": sum(1 for g in gens if g[2]),
            "corpus_candidates": len(corpus), "corpus_accepted_by_parse": n_cor_acc,
            "generated_accepted_by_parse": n_gen_acc,
            "fraction_accepted_by_parse": round(len(accepted) / max(1, len(texts)), 3),
            "fraction_generated_accepted": round(n_gen_acc / max(1, len(gens)), 3),
            "fraction_compile_ok_of_accepted": round(n_compile_ok / max(1, len(accepted)), 3),
            "directive_kinds_in_language": len(all_kinds), "directive_kinds_exercised": len(set(hist) & all_kinds),
            "kinds_missing": missing,
            "directives_per_program": {"min": dl[0] if dl else 0, "median": dl[len(dl) // 2] if dl else 0,
                                       "p90": dl[int(len(dl) * 0.9)] if dl else 0, "max": dl[-1] if dl else 0},
            "directive_histogram": dict(sorted(hist.items(), key=lambda kv: (-kv[1], kv[0]))),
            "token_spellings": dict(spell),
            "walker_could_not_name": walk_fail,
        },
        "property_on_impl": {"programs_failing": len(failing), "by_kind": dict(fail_kinds),
                             "validation_order_only_differences": order_only, "compile_nondeterministic": nondet,
                             "distinct_keys_reported": sorted(reported)},
        "blank_value_sweep": {"slot_families": len(sweep), "families_affected": affected,
                              "families_where_an_invalid_config_validates_after_fmt": sorted(flips),
                              "shortest_flip_example": flip_examples,
                              "table": {f: sweep[f] for f in sorted(sweep)}},
        "spelling_sweep": sp_stats,
        "lexer_correspondence": {"texts": len(uniq_lex), "tokens": tok_total, "mismatches": lex_mism, "coq_shards": nshards,
                                 "end_classes": {str(k): v for k, v in sorted(end_hist.items())},
                                 "value_tokens_roundtripped_on_impl": values_total, "value_tokens_broken": rt_bad_total},
        "helper_correspondence": {"strings": len(vres), "mismatches": val_mism, "stats": dict(vstats)},
        "harness_calls": impl.calls,
        "phase_seconds": phases,
    })
    return C.conclude(ctx, info, cov, assumptions)
