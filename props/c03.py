"""C03 - queue family check (see lib/queuefam.py)."""
from lib import queuefam


def main(ctx, replay):
    return queuefam.run_property(ctx, "C03", 150, 3000, extra=lambda *a: __import__("lib.c03conc", fromlist=["run"]).run(*a[:3]), extra_prop_files=("C03conc",))
