"""C03 - queue family check (see lib/queuefam.py) + concurrent stress (lib/c03conc.py) + lease TTLs beyond the int64 horizon."""
import json
import os

from lib import common as C
from lib import queuefam


def lease_horizon(ctx, info):
    """now+ttl beyond the int64 nanosecond range (year 2262): outside the integer range the stores can store, and outside what the
    correspondence can feed the model; judged on the implementation directly."""
    ttls = [2**63 - 1, 7523372036854775807, 290 * 365 * 86400 * 10**9, 263 * 365 * 86400 * 10**9, 262 * 365 * 86400 * 10**9, 200 * 365 * 86400 * 10**9]
    d = os.path.join(ctx.scratch, "lh")
    os.makedirs(d, exist_ok=True)
    rc, out, err = C.harness_run(info["hbin"], ["lease-horizon"], {"dir": d, "ttls_ns": ttls, "now_ns": 1_700_000_000 * 10**9}, timeout=120)
    if rc != 0:
        raise RuntimeError("lease-horizon failed: " + err[-1500:])
    rows = json.loads(out)["rows"]
    for r in rows:
        probs = []
        if r.get("err") or r["first_items"] != 1:
            probs.append("the first dequeue did not lease the message (%s)" % (r.get("err") or r["first_items"]))
        else:
            if not r["lease_until_after_now"]:
                probs.append("the lease handed out ends before it began")
            if r["second_items"] != 0:
                probs.append("one second later another dequeue returned the message although its lease (ttl %d ns) has not ended" % r["ttl_ns"])
            if r["extend_err"] or r["ack_err"]:
                probs.append("the holder's extend/ack were answered %r / %r" % (r["extend_err"], r["ack_err"]))
        if probs:
            C.report(ctx, "lease-beyond-int64-horizon:%s" % r["backend"], "; ".join(probs),
                     {"kind": "history", "case": {"backend": r["backend"], "lease_ttl_ns": r["ttl_ns"], "clock_ns": 1_700_000_000 * 10**9,
                                                  "calls": ["Enqueue", "Dequeue(batch 1, lease_ttl)", "clock +1s", "Dequeue(batch 5)", "Extend(first lease, 1s)", "Ack(first lease)"]},
                      "observed": r})
    return {"lease_ttl_beyond_int64_horizon": {"cases": len(rows), "ttls_ns": ttls}}


def long_poll_lease(ctx, info):
    """a dequeue that WAITS (max_wait) and is handed a message some time into its wait: the lease it gets runs for the lease TTL it asked
    for from the hand-out - not from the start of the call (the store clock moves a second during the wait)"""
    d = os.path.join(ctx.scratch, "lplease")
    os.makedirs(d, exist_ok=True)
    rc, out, err = C.harness_run(info["hbin"], ["long-poll"], {"dir": d, "max_wait_ms": 600}, timeout=120)
    if rc != 0:
        raise RuntimeError("long-poll failed: " + err[-1500:])
    rows = json.loads(out)["rows"]
    ttl = 60 * 10 ** 9
    n = 0
    for r in rows:
        if r.get("err") or r["items"] < 1:
            continue
        n += 1
        if r["lease_left_ns"] < ttl:
            C.report(ctx, "long-poll-lease-short:%s" % r["backend"],
                     "a waiting dequeue (lease TTL 1 m, max_wait 600 ms) on the %s store was handed the message after its wait (%s) with %d ns of lease left at the "
                     "instant it returned: %d ns of the minute it asked for were spent before it held the message - another consumer can be handed the message "
                     "while this one is inside the TTL it asked for" % (r["backend"], r["scenario"], r["lease_left_ns"], ttl - r["lease_left_ns"]),
                     {"kind": "history", "case": {"backend": r["backend"], "scenario": r["scenario"], "lease_ttl_ns": ttl, "max_wait_ms": 600}, "observed": r})
    return {"long_poll_leases_checked": n}


def extra(ctx, info, rng, *rest):
    cov = __import__("lib.c03conc", fromlist=["run"]).run(ctx, info, rng)
    cov = cov or {}
    cov.update(lease_horizon(ctx, info))
    # the lease a worker is PROMISED (every 204 to its heartbeat extends) is the lease the store keeps: the heartbeat family of the pull
    # layer (HTTP and gRPC, both stores) - a second worker gets nothing before the last promised deadline
    from lib import c04pull
    hb = c04pull.run(ctx, info, rng, only=c04pull.frag_heartbeat, count=6 if ctx.tier == "quick" else 60) or {}
    cov["pull_heartbeat"] = {k: v for k, v in hb.items() if isinstance(v, (int, float, str))}
    # two processes on one database file: a late lease operation of one against the other's re-letting dequeue
    from lib import twostores
    cov.update(twostores.run_relet(ctx, info))
    cov.update(long_poll_lease(ctx, info))
    return cov


def main(ctx, replay):
    return queuefam.run_property(ctx, "C03", 150, 3000, extra=extra, extra_prop_files=("C03conc",))
