"""C20 — MCP tools are role-, flag- and principal-gated, confined and audited."""
import json
import os
import re
import random

from lib import common as C

ROLE = {"read": "RRead", "operate": "ROperate", "admin": "RAdmin"}


def table_names():
    txt = open(os.path.join(C.COQ, "Gen", "McpTables.v")).read()
    m = re.search(r"required_role_table.*?:=\s*\[(.*?)\]\.", txt, flags=re.S)
    return re.findall(r'\("([^"]+)",', m.group(1))


def spec_names():
    txt = open(os.path.join(C.COQ, "Model", "McpSpec.v")).read()
    m = re.search(r"spec_table.*?:=\s*\[(.*?)\n\]\.", txt, flags=re.S)
    return re.findall(r'\("([^"]+)",', m.group(1))


def build_names(rng, tier):
    known = sorted(set(table_names()) | set(spec_names()))
    extra = ["nope", "tools/list", "config", "CONFIG_APPLY", "Config_Apply", "config_appl", "config_applyx",
             " config_apply", "config_apply ", "dlq_requeue2", "DLQ_DELETE", "instance_start\t", "messages_publis",
             "instance", "admin", "*", "config_apply;instance_start"]
    n_extra = 6 if tier == "quick" else 40
    for _ in range(n_extra):
        k = rng.choice(known)
        how = rng.randrange(5)
        if how == 0:
            extra.append(k[:rng.randrange(1, len(k))])
        elif how == 1:
            extra.append(k + rng.choice("xs_1"))
        elif how == 2:
            i = rng.randrange(len(k))
            extra.append(k[:i] + k[i].upper() + k[i + 1:])
        elif how == 3:
            extra.append(k.replace("_", "-", 1))
        else:
            extra.append(rng.choice("abc") + k)
    seen, out = set(), []
    for n in known + extra:
        if n not in seen and n.strip() != "" and '"' not in n and "\\" not in n:
            seen.add(n)
            out.append(n)
    return known, out


def settings_all():
    out = []
    for role in ("read", "operate", "admin", "bogus", ""):
        for mut in (False, True):
            for rt in (False, True):
                for pr in ("", "ops", "   "):
                    out.append({"role": role, "mut": mut, "rt": rt, "principal": pr})
    return out


def coq_srv(s):
    role = ROLE.get(s["role"], "RRead")
    return "{| s_role := %s; s_mut := %s; s_rt := %s; s_principal := %s |}" % (
        role, C.coq_bool(s["mut"]), C.coq_bool(s["rt"]), C.coq_string(s["principal"].strip()))


def model_rows(ctx, settings, names):
    body = ["From Coq Require Import String List NArith.", "From HK Require Import Gen.McpTables Model.McpGate Model.McpSpec.",
            "Import ListNotations.", "Open Scope string_scope.",
            "Definition settings : list srv := [%s]." % ";\n ".join(coq_srv(s) for s in settings),
            "Definition names : list string := [%s]." % "; ".join(C.coq_string(n) for n in names),
            "Definition M := Eval vm_compute in map (fun s => map (enc_row s) names) settings.",
            "Print M."]
    rc, out = C.coq_eval_cases(ctx, "c20cases", "\n".join(body) + "\n")
    if rc != 0:
        return None, out
    flat = " ".join(out.split())
    m = re.search(r"M\s*=\s*(\[.*\])\s*:\s*list", flat)
    if not m:
        return None, out
    rows = []
    for part in re.findall(r"\[([0-9;% N]*)\]", m.group(1)):
        nums = [int(x) for x in re.findall(r"\d+", part)]
        if nums:
            rows.append(nums)
    return rows, out


def trim(s):
    return s.strip()


def py_resolve(cfg, arg):
    """Pure-Python twin of resolve_config_path, used only to phrase expectations for
    the confinement cases (the Coq function is evaluated as well, see below)."""
    cfg = trim(cfg)
    if arg is None:
        return cfg if cfg else None
    a = trim(arg)
    if a == "":
        return cfg if cfg else None
    if cfg == "":
        return None
    return a if a == cfg else None


VALID2 = """ingress {
  listen ":18081"
}
pull_api {
  listen ":19444"
  auth token "raw:verif-token-2"
}
"/hooks2" {
  pull { path "/pull/hooks2" }
}
"""
PARSE_BAD = 'ingress {\n  listen ":1"\n'
COMPILE_BAD = '"/x" {\n  pull { path "/pull/x" }\n}\n'   # pull route without any token allowlist


def confine_cases():
    cases = []
    for cfgk in ("set", "empty", "padded"):
        for pk in ("absent", "empty", "same", "padded", "foreign", "foreign_new", "nonstring", "casefold", "suffix", "prefixdir", "dotdot_symlink"):
            for content, ck in ((VALID2, "valid"), (PARSE_BAD, "parse_bad"), (COMPILE_BAD, "compile_bad")):
                for mode in ("write_only", "preview_only"):
                    cases.append({"tool": "config_apply", "cfg_kind": cfgk, "path_kind": pk, "content": content,
                                  "mode": mode, "principal": "ops", "_ck": ck})
    for tool in ("management_endpoint_upsert", "management_endpoint_delete"):
        for cfgk in ("set", "empty"):
            for pk in ("absent", "same", "foreign", "foreign_new", "casefold", "suffix", "dotdot_symlink"):
                extra = {"application": "app1", "endpoint_name": "ep1", "reason": "verif"}
                if tool.endswith("upsert"):
                    extra["route"] = "/hooks"
                cases.append({"tool": tool, "cfg_kind": cfgk, "path_kind": pk, "principal": "ops", "extra": extra, "_ck": "mgmt"})
    # actor binding on real queue mutations (sqlite-backed config)
    for tool, ids in (("dlq_requeue", ["dead-1"]), ("dlq_delete", ["dead-1"]), ("messages_cancel", ["q-1"])):
        for actor in ("", "ops", " ops ", "other", "OPS", "ops2", "op"):
            cases.append({"tool": tool, "cfg_kind": "set", "path_kind": "absent", "principal": "ops", "actor": actor,
                          "extra": {"ids": ids, "reason": "verif"}, "_ck": "actor"})
    return cases


def mcp_life_steps(ctx, info, rng):
    """config_apply of a candidate whose meaning depends on the environment ({file.PATH} / {$VAR} placeholders are resolved by compile):
    previewed while it compiles, then the file it refers to goes away (or turns into something invalid), then the SAME bytes are applied
    on the same server.  Also the harmless direction (invalid first, valid later: the later call may write)."""
    original = '"/r" {\n  deliver "https://example.com" {}\n}\n'
    cand_file = '"/r" {\n  deliver "{file.%DIR%/deliver-url}" {}\n}\n'
    setting = {"role": "admin", "mut": True, "rt": False, "principal": "ops"}

    def call(mode, content=cand_file, **kw):
        return {"call": {"name": "config_apply", "args": dict({"content": content, "mode": mode}, **kw)}}
    cases = []
    for mode2 in ("write_only",):
        for gone in ("rm", "invalid"):
            steps = [call("preview_only"), ({"rm": "deliver-url"} if gone == "rm" else {"write": "deliver-url", "content": "not a url at all\n\x00"}), call(mode2), call("preview_only")]
            cases.append({"setting": setting, "initial": original, "files": {"deliver-url": "https://example.org"}, "steps": steps, "_kind": "valid-then-%s" % gone})
        # twice valid: the second call writes
        cases.append({"setting": setting, "initial": original, "files": {"deliver-url": "https://example.org"}, "steps": [call("preview_only"), call(mode2)],
                      "_kind": "valid-twice"})
        # invalid first (file missing), valid later
        cases.append({"setting": setting, "initial": original, "files": {}, "steps": [call("preview_only"), {"write": "deliver-url", "content": "https://example.net"}, call(mode2)],
                      "_kind": "invalid-then-valid"})
    rc, out, err = C.harness_run(info["hbin"], ["mcp-life-steps"], {"dir": os.path.join(ctx.scratch, "mcpsteps"), "cases": [{k: v for k, v in c.items() if not k.startswith("_")} for c in cases]},
                                 timeout=300)
    if rc != 0:
        raise RuntimeError("mcp-life-steps failed: " + err[-1500:])
    stats = {"cases": len(cases), "calls": 0}
    for c, o in zip(cases, json.loads(out)["cases"]):
        if o.get("err"):
            raise RuntimeError("mcp-life-steps case %s: %s" % (c["_kind"], o["err"]))
        calls = o["calls"]
        stats["calls"] += len(calls)
        problems = []
        for k, co in enumerate(calls):
            if not co["file_compiles"]:
                problems.append("after call %d the configuration file does not compile (the tool answered ok=%s applied=%s)" % (k + 1, co.get("ok"), co.get("applied")))
        nmut = sum(1 for st in c["steps"] if "call" in st)
        if o["audit_records"] != nmut:
            problems.append("%d audit records for %d mutating calls" % (o["audit_records"], nmut))
        if c["_kind"].startswith("valid-then-"):
            if calls[1].get("applied") or calls[1].get("ok") or not calls[1]["file_same_as_before_call"]:
                problems.append("the candidate no longer compiles when it is applied (the file it refers to %s), yet the tool answered ok=%s applied=%s and the file %s" %
                                ("is gone" if c["_kind"].endswith("rm") else "is not a URL any more", calls[1].get("ok"), calls[1].get("applied"),
                                 "was rewritten" if not calls[1]["file_same_as_before_call"] else "was left alone"))
        elif c["_kind"] in ("valid-twice", "invalid-then-valid"):
            last = calls[-1]
            if not last.get("applied") or last["file_same_as_before_call"]:
                problems.append("a candidate that compiles when it is applied was not written (ok=%s applied=%s): %s" % (last.get("ok"), last.get("applied"), last.get("text")))
        if problems:
            C.report(ctx, "config-apply-life:%s" % c["_kind"], "one MCP server, config_apply calls with byte-identical content: " + "; ".join(problems),
                     {"kind": "request", "case": {k: v for k, v in c.items() if not k.startswith("_")}, "observed": o})
    return stats


def mcp_serve_killed(ctx, rng):
    import signal
    import subprocess
    import select
    hk = os.path.join(ctx.scratch, "hk-mcp")
    rc, log = C.run(["go", "build", "-o", hk, "./cmd/hookaido"], cwd=C.REPO, env=C.GOENV, timeout=1200)
    if rc != 0:
        raise RuntimeError("building cmd/hookaido failed: " + log[-1500:])
    d = os.path.join(ctx.scratch, "mcpserve")
    os.makedirs(d, exist_ok=True)
    cfg = os.path.join(d, "Hookaidofile")
    open(cfg, "w").write('ingress {\n  listen ":18080"\n}\npull_api {\n  listen ":19443"\n  auth token "raw:t"\n}\n"/hooks" {\n  pull { path /pull/h }\n}\n')
    stats = {"sessions": 0, "calls": 0, "records": 0}

    def frame(o):
        b = json.dumps(o).encode()
        return b"Content-Length: %d\r\n\r\n" % len(b) + b

    def read_frame(f, timeout=10.0):
        hdr = b""
        while not hdr.endswith(b"\r\n\r\n"):
            r, _, _ = select.select([f], [], [], timeout)
            if not r:
                return None
            ch = os.read(f.fileno(), 1)
            if not ch:
                return None
            hdr += ch
        n = int(re.search(rb"Content-Length: (\d+)", hdr).group(1))
        body = b""
        while len(body) < n:
            r, _, _ = select.select([f], [], [], timeout)
            if not r:
                return None
            chunk = os.read(f.fileno(), n - len(body))
            if not chunk:
                return None
            body += chunk
        return json.loads(body)
    # calls whose ARGUMENTS are very large (a thousand long ids; a candidate configuration of more than a megabyte): whatever the server
    # answers, a mutating call leaves its audit record
    big_ids = ["dead-%04d-%s" % (i, "x" * 400) for i in range(1000)]
    big_cfg = open(cfg).read() + "# " + ("c" * 1200) + "\n" + "".join("# padding line %06d %s\n" % (i, "p" * 100) for i in range(11000))
    big = {"dlq_delete+": ("dlq_delete", {"ids": big_ids, "reason": "verif"}), "messages_cancel+": ("messages_cancel", {"ids": big_ids, "reason": "verif"}),
           "config_apply+": ("config_apply", {"content": big_cfg, "mode": "preview_only"}),
           "messages_publish+": ("messages_publish", {"items": [{"id": "p%d" % i, "route": "/hooks", "payload_b64": "eA==", "headers": {"X-Pad": "h" * 300}} for i in range(900)],
                                                      "reason": "verif"})}
    sessions = [("operate", ["config_apply", "messages_cancel", "dlq_delete"], signal.SIGKILL),
                ("admin", ["messages_cancel_by_filter", "management_endpoint_delete", "messages_resume", "messages_publish"], signal.SIGTERM),
                ("read", ["dlq_requeue", "instance_stop"], signal.SIGKILL),
                ("admin", ["dlq_delete+", "config_apply", "config_apply+", "messages_cancel+", "messages_publish+", "dlq_requeue"], signal.SIGTERM)]
    for role, tools, sig in sessions:
        p = subprocess.Popen([hk, "mcp", "serve", "--config", cfg, "--db", os.path.join(d, "q-%s.db" % role), "--role", role, "--principal", "ops@example.test",
                              "--enable-mutations"], stdin=subprocess.PIPE, stdout=subprocess.PIPE, stderr=subprocess.PIPE, cwd=d)
        answered = []
        try:
            for i, t in enumerate(tools):
                tname, targs = big[t] if t in big else (t, {"actor": "ops@example.test"})
                p.stdin.write(frame({"jsonrpc": "2.0", "id": i + 1, "method": "tools/call", "params": {"name": tname, "arguments": targs}}))
                p.stdin.flush()
                resp = read_frame(p.stdout)
                if resp is None:
                    break
                answered.append(t)
        finally:
            p.send_signal(sig)          # the host goes away; no clean end of session
            try:
                _, errout = p.communicate(timeout=10)
            except subprocess.TimeoutExpired:
                p.kill()
                _, errout = p.communicate()
        recs = []
        for line in errout.decode(errors="replace").splitlines():
            try:
                ev = json.loads(line)
            except ValueError:
                continue
            if isinstance(ev, dict) and "tool" in ev and "result" in ev:
                recs.append(ev["tool"])
        stats["sessions"] += 1
        stats["calls"] += len(answered)
        stats["records"] += len(recs)
        if not answered:
            raise RuntimeError("hookaido mcp serve (%s) answered nothing: %s" % (role, errout[-400:]))
        answered = [a.rstrip("+") for a in answered]
        if recs != answered:
            C.report(ctx, "mcp-serve-killed:%s" % ("audit-records-lost" if len(recs) < len(answered) else "audit-records-differ"),
                     "hookaido mcp serve --role %s answered the mutating calls %s and was then killed (%s): its audit stream (stderr) holds records for %s" %
                     (role, answered, sig.name, recs),
                     {"kind": "request", "case": {"role": role, "tools": tools, "signal": sig.name}, "observed": {"answered": answered, "audit_records": recs,
                                                                                                              "stderr_tail": errout.decode(errors="replace")[-600:]}})
    return stats


def mcp_symlinked_config(ctx, rng):
    """the real binary, `hookaido mcp serve --config <a symbolic link>`: the configured path is the link.  Writing tools may change what
    that path holds; the file the link pointed to - in another directory - is not the configured path and must stay byte for byte what
    it was, and nothing may appear next to it.  (Role admin, mutations enabled: the calls are permitted.)"""
    import subprocess
    import select
    hk = os.path.join(ctx.scratch, "hk-mcp")
    if not os.path.exists(hk):
        rc, log = C.run(["go", "build", "-o", hk, "./cmd/hookaido"], cwd=C.REPO, env=C.GOENV, timeout=1200)
        if rc != 0:
            raise RuntimeError("building cmd/hookaido failed: " + log[-1500:])
    stats = {"cases": 0, "calls": 0, "writes_reported": 0}
    original = 'ingress {\n  listen ":18080"\n}\npull_api {\n  listen ":19443"\n  auth token "raw:t"\n}\n"/hooks" {\n  pull { path /pull/h }\n}\n'
    changed = original.replace("/pull/h", "/pull/changed")

    def frame(o):
        b = json.dumps(o).encode()
        return b"Content-Length: %d\r\n\r\n" % len(b) + b

    def read_frame(f, timeout=15.0):
        hdr = b""
        while not hdr.endswith(b"\r\n\r\n"):
            r, _, _ = select.select([f], [], [], timeout)
            if not r:
                return None
            ch = os.read(f.fileno(), 1)
            if not ch:
                return None
            hdr += ch
        n = int(re.search(rb"Content-Length: (\d+)", hdr).group(1))
        body = b""
        while len(body) < n:
            r, _, _ = select.select([f], [], [], timeout)
            if not r:
                return None
            chunk = os.read(f.fileno(), n - len(body))
            if not chunk:
                return None
            body += chunk
        return json.loads(body)
    calls = [("config_apply", {"content": changed, "mode": "write_only"}),
             ("management_endpoint_upsert", {"application": "app1", "endpoint_name": "ep1", "route": "/hooks", "reason": "verif", "actor": "ops@example.test"}),
             ("config_apply", {"content": original, "mode": "write_only"})]
    for kind in ("link-to-other-dir", "link-chain", "relative-link"):
        d = os.path.join(ctx.scratch, "mcplink-" + kind)
        shared = os.path.join(d, "shared")
        live = os.path.join(d, "live")
        os.makedirs(shared, exist_ok=True)
        os.makedirs(live, exist_ok=True)
        foreign = os.path.join(shared, "shared.Hookaidofile")
        open(foreign, "w").write(original)
        cfg = os.path.join(live, "Hookaidofile")
        if kind == "link-to-other-dir":
            os.symlink(foreign, cfg)
        elif kind == "relative-link":
            os.symlink(os.path.join("..", "shared", "shared.Hookaidofile"), cfg)
        else:
            mid = os.path.join(live, "mid.link")
            os.symlink(foreign, mid)
            os.symlink(mid, cfg)
        before_dir = sorted(os.listdir(shared))
        p = subprocess.Popen([hk, "mcp", "serve", "--config", cfg, "--db", os.path.join(d, "q.db"), "--role", "admin", "--principal", "ops@example.test",
                              "--enable-mutations"], stdin=subprocess.PIPE, stdout=subprocess.PIPE, stderr=subprocess.PIPE, cwd=live)
        answers = []
        try:
            for i, (tool, args) in enumerate(calls):
                p.stdin.write(frame({"jsonrpc": "2.0", "id": i + 1, "method": "tools/call", "params": {"name": tool, "arguments": args}}))
                p.stdin.flush()
                resp = read_frame(p.stdout)
                if resp is None:
                    break
                stats["calls"] += 1
                txt = json.dumps(resp)
                answers.append({"tool": tool, "is_error": bool((resp.get("result") or {}).get("isError")) or "error" in resp, "text": txt[:400]})
                foreign_now = open(foreign).read() if os.path.exists(foreign) else None
                if foreign_now != original or sorted(os.listdir(shared)) != before_dir:
                    C.report(ctx, "mcp-config-symlink:%s" % tool,
                             "hookaido mcp serve --config %s (a symbolic link, %s): after %s the file the link pointed to, %s, %s and its directory lists %s (before: %s); "
                             "the configured path is the link, only what IT holds may change" % (
                                 cfg, kind, tool, foreign, "holds other bytes" if foreign_now is not None else "is gone", sorted(os.listdir(shared)), before_dir),
                             {"kind": "request", "case": {"layout": kind, "calls": [c_[0] for c_ in calls[:i + 1]]},
                              "observed": {"foreign_content": foreign_now, "answers": answers}, "expected": {"foreign_content": original}})
                    break
        finally:
            try:
                p.stdin.close()
            except OSError:
                pass
            try:
                p.wait(timeout=10)
            except subprocess.TimeoutExpired:
                p.kill()
                p.wait()
        if not answers:
            raise RuntimeError("hookaido mcp serve (symlinked config, %s) answered nothing: %s" % (kind, p.stderr.read()[-400:]))
        stats["cases"] += 1
        stats["writes_reported"] += sum(1 for a in answers if not a["is_error"])
        if all(a["is_error"] for a in answers):
            raise RuntimeError("symlinked config (%s): every writing call was refused, nothing was exercised: %s" % (kind, answers[:2]))
    return stats


def main(ctx, replay):
    rng = random.Random(ctx.seed)
    info = C.prologue(ctx)
    if info["hbin"] is None:
        raise C.HarnessBuildFailed(info.get("go_log", ""))
    assumptions = ["settings normalisation (unknown role string -> read, principal trimmed) is done by the Python glue as NewServer's options do",
                   "tool bodies are exercised with an argument set that fails validation before any side effect; 'no effect' is judged by hashing config/db/pid files"]
    known, names = build_names(rng, ctx.tier)
    settings = settings_all()
    cov = C.proof_coverage(info, "C20")

    proof_broken = []
    if not info.get("translate_ok"):
        proof_broken.append("translator could not regenerate coq/Gen (source shape changed): " + info.get("translate_log", "")[-500:])
    if not info["coq_ok"]:
        proof_broken.append("coq build failed: " + info.get("coq_log", "")[-1500:])
    elif not info["prop_ok"]:
        proof_broken.append("Properties/C20.v no longer checks: " + info.get("prop_log", "")[-1500:])
    if info.get("forbidden"):
        proof_broken.append("forbidden keyword in development: %s" % info["forbidden"])

    # ---- implementation table
    rc, out, err = C.harness_run(info["hbin"], ["mcp-gate"],
                                 {"dir": ctx.scratch, "settings": settings, "names": names, "actors": [""]})
    if rc != 0:
        raise RuntimeError("mcp-gate failed: " + err[-2000:])
    impl = json.loads(out)
    rows = impl["rows"]
    by = {(r["setting"], r["name"]): r for r in rows}

    # ---- model table
    mrows, mlog = model_rows(ctx, settings, names)
    evaluations = 0
    mism = 0
    nontrivial = set()
    samples = []
    if mrows is None:
        proof_broken.append("model could not be evaluated: " + mlog[-800:])
    for si, st in enumerate(settings):
        listed_impl = impl["lists"][si] or []
        if len(listed_impl) != len(set(listed_impl)):
            C.report(ctx, "list-dup", "tools/list advertises a tool twice", {"kind": "request", "setting": st, "list": listed_impl})
        for ni, name in enumerate(names):
            r = by[(si, name)]
            evaluations += 1
            obs_allowed = r["gate_allowed"]
            obs_denied_call = r["call_is_gate_error"]
            case = {"setting": st, "tool": name}
            problems = []
            # internal consistency of the implementation's own observations (black box vs white box)
            if r["rpc_error"]:
                problems.append("tools/call answered with a JSON-RPC error")
            if obs_allowed and obs_denied_call:
                problems.append("gate allows but call was refused with the gate's error")
            if (not obs_allowed) and not obs_denied_call:
                problems.append("gate refuses but tools/call did not return the gate's refusal (tool body may have run)")
            if r["listed"] != obs_allowed:
                problems.append("tools/list and tools/call disagree (listed=%s, allowed=%s)" % (r["listed"], obs_allowed))
            if (not obs_allowed) and not r["files_same"]:
                problems.append("a refused call changed config/db/pid files")
            if mrows is not None:
                v = mrows[si][ni]
                m_allowed, m_listed, m_mut, m_disp = bool(v & 1), bool(v & 2), bool(v & 4), bool(v & 8)
                s_known, s_allowed, sm_known, s_mut = bool(v & 16), bool(v & 32), bool(v & 64), bool(v & 128)
                if m_allowed != obs_allowed or m_listed != r["listed"] or m_disp != (not obs_denied_call):
                    mism += 1
                    problems.append("model/implementation disagree: model allowed=%s listed=%s dispatched=%s" % (m_allowed, m_listed, m_disp))
                if s_known and s_allowed != obs_allowed:
                    problems.append("documented table says allowed=%s, implementation allowed=%s" % (s_allowed, obs_allowed))
                mut = s_mut if sm_known else m_mut
                exp_audit = []
                if mut:
                    exp_audit = ["denied"] if not obs_allowed else None  # allowed: error or success
                if mut:
                    if len(r["audit_results"]) != 1:
                        problems.append("mutating call wrote %d audit records" % len(r["audit_results"]))
                    elif (not obs_allowed) and r["audit_results"] != ["denied"]:
                        problems.append("refused mutating call audited as %s" % r["audit_results"])
                    elif obs_allowed and r["audit_results"][0] not in ("error", "success"):
                        problems.append("allowed mutating call audited as %s" % r["audit_results"])
                    if not (r["audit_fields_ok"] and r["audit_tool_ok"]):
                        problems.append("audit record lacks one of the seven fields / wrong tool or principal")
                else:
                    if r["audit_results"]:
                        problems.append("non-mutating tool wrote an audit record")
                if (m_allowed or m_mut) and name in known:
                    nontrivial.add((si, name))
            if problems:
                C.report(ctx, "gate:%s" % name, "; ".join(problems),
                         {"kind": "request", "case": case, "observed": r, "problems": problems,
                          "how_to_replay": "./check C20 --replay <this file>"})
            elif len(samples) < 6 and rng.random() < 0.002:
                samples.append({"case": case, "observed": {k: r[k] for k in ("gate_allowed", "listed", "audit_results")}})

    # ---- confinement / actor binding
    ccases = confine_cases()
    rc, out, err = C.harness_run(info["hbin"], ["mcp-confine"],
                                 {"dir": os.path.join(ctx.scratch, "conf"), "cases": [{k: v for k, v in c.items() if not k.startswith("_")} for c in ccases]})
    if rc != 0:
        raise RuntimeError("mcp-confine failed: " + err[-2000:])
    cres = json.loads(out)
    conf_eval = 0
    for c, r in zip(ccases, cres):
        conf_eval += 1
        evaluations += 1
        problems = []
        if r["foreign_changed"] or r["foreign_new_created"]:
            problems.append("a file other than the configured config path was written")
        if r.get("other_files"):
            problems.append("stray files left beside the config: %s" % r["other_files"])
        if not r["cfg_compiles_after"]:
            problems.append("config file no longer parses+compiles after the call")
        cfgs = {"set": "CFG", "empty": "", "padded": "  CFG  "}[c["cfg_kind"]]
        arg = {"absent": None, "empty": "", "same": "CFG", "padded": " CFG\t", "foreign": "FOREIGN", "foreign_new": "FOREIGN_NEW",
               "casefold": "cfg", "suffix": "CFG.bak", "prefixdir": "DIRx/CFG", "dotdot_symlink": "DIR/current/../CFG"}.get(c["path_kind"], "NONSTRING")
        resolved = None if arg == "NONSTRING" else py_resolve(cfgs, arg)
        if c["tool"] == "config_apply":
            if resolved is None:
                if not r["is_error"]:
                    problems.append("path not resolvable to the configured path but the call did not fail")
                if r["cfg_changed"]:
                    problems.append("config changed although the path argument was refused")
            else:
                want_write = c["_ck"] == "valid" and c["mode"] == "write_only"
                if want_write and not (r["cfg_changed"] and r["cfg_content"] == c["content"]):
                    problems.append("valid write_only apply did not install exactly the supplied content")
                if (not want_write) and r["cfg_changed"]:
                    problems.append("config changed by a %s/%s apply" % (c["_ck"], c["mode"]))
                if c["_ck"] != "valid" and r.get("applied") not in (False, None):
                    problems.append("invalid content reported as applied")
            if r["audit_results"] not in (["error"], ["success"]):
                problems.append("audit records for allowed mutating call: %s" % r["audit_results"])
        elif c["_ck"] == "mgmt":
            if resolved is None and (not r["is_error"] or r["cfg_changed"]):
                problems.append("management mutation with a foreign/unconfigured path was not refused without effect")
        elif c["_ck"] == "actor":
            a = trim(c.get("actor", ""))
            mismatch = a != "" and a != "ops"
            target = c["extra"]["ids"][0]
            before = {"dead-1": "dead", "q-1": "queued"}[target]
            after = r["db_states"].get(target)
            if mismatch:
                if not r["is_error"]:
                    problems.append("actor %r differs from principal but the call succeeded" % c.get("actor"))
                if after != before:
                    problems.append("actor mismatch yet the message changed (%s -> %s)" % (before, after))
                if r["audit_results"] != ["error"]:
                    problems.append("actor mismatch audited as %s" % r["audit_results"])
            else:
                if r["is_error"]:
                    problems.append("matching/absent actor refused: " + r["text"][:120])
                if r["audit_results"] != ["success"]:
                    problems.append("successful mutating call audited as %s" % r["audit_results"])
            nontrivial.add(("actor", c["tool"], c.get("actor", "")))
        if c["tool"] == "config_apply":
            nontrivial.add(("confine", c["cfg_kind"], c["path_kind"], c["_ck"], c["mode"]))
        if problems:
            C.report(ctx, "confine:%s:%s:%s" % (c["tool"], c["cfg_kind"], c["path_kind"]), "; ".join(problems),
                     {"kind": "request", "case": {k: v for k, v in c.items() if k != "content"}, "observed": r, "problems": problems})
        elif len(samples) < 10 and rng.random() < 0.05:
            samples.append({"case": {k: v for k, v in c.items() if k not in ("content",)}, "observed": {"is_error": r["is_error"], "cfg_changed": r["cfg_changed"]}})

    if proof_broken and not ctx.violations:
        C.report(ctx, "proof-broken", "proof obligation no longer checks",
                 {"kind": "obligation", "no_failing_input_found": True, "broken": proof_broken,
                  "theorems": info["theorems"],
                  "note": "exhaustive gate table and confinement cases were run on the implementation and showed no property failure"})
    elif proof_broken:
        ctx.notes.append("proof obligations broken: %s" % proof_broken)
        cov["discharged"] = 0

    # ONE long-lived server, a sequence of mutating calls, an audit sink that fails for a moment and works again: every call whose record
    # could be written is audited, in order
    MUTATING = ["config_apply", "management_endpoint_upsert", "management_endpoint_delete", "dlq_requeue", "dlq_delete", "messages_cancel", "messages_requeue",
                "messages_resume", "messages_publish", "messages_cancel_by_filter", "messages_requeue_by_filter", "messages_resume_by_filter",
                "instance_start", "instance_stop", "instance_reload"]
    life_cases = []
    for k in range(10 if ctx.tier == "quick" else 60):
        n = rng.randint(3, 8)
        calls = []
        for _ in range(n):
            t = rng.choice(MUTATING)
            args = rng.choice([{}, {"actor": "ops"}, {"actor": "somebody-else"}, {"ids": ["seed-1"], "actor": "ops"}, {"reason": "r", "actor": "ops"}])
            calls.append({"name": t, "args": args})
        setting = rng.choice([{"role": "admin", "mut": True, "rt": True, "principal": "ops"}, {"role": "operate", "mut": True, "rt": False, "principal": "ops"},
                              {"role": "read", "mut": False, "rt": False, "principal": "ops"}, {"role": "admin", "mut": True, "rt": True, "principal": ""}])
        fw, sw = [], []
        if k % 3 == 0:
            fw = [rng.randrange(n)]
        elif k % 3 == 1:
            sw = [rng.randrange(n)]
        life_cases.append({"setting": setting, "calls": calls, "fail_writes": fw, "short_writes": sw})
    rc_l, out_l, err_l = C.harness_run(info["hbin"], ["mcp-audit-life"], {"dir": os.path.join(ctx.scratch, "mcplife"), "cases": life_cases}, timeout=600)
    life_stats = {"cases": len(life_cases), "calls": 0, "records": 0, "sink_failures": 0}
    if rc_l != 0:
        raise RuntimeError("mcp-audit-life failed: " + err_l[-1500:])
    for c, o in zip(life_cases, json.loads(out_l)["cases"]):
        tools = [x["name"] for x in c["calls"]]
        life_stats["calls"] += len(tools)
        recs = [r for r in (o.get("records") or []) if r["complete"]]
        life_stats["records"] += len(recs)
        bad_w = sorted(c["fail_writes"] + c["short_writes"])
        life_stats["sink_failures"] += len(bad_w)
        problems = []
        if o.get("err") or o.get("responses") != len(tools):
            problems.append("%s responses for %d calls (%s)" % (o.get("responses"), len(tools), o.get("err")))
        got = [r["tool"] for r in recs]
        if not bad_w:
            if got != tools:
                problems.append("audit records %s for the calls %s" % (got, tools))
        else:
            # the record(s) whose write failed may be missing; every other call has its record, in order.  One record is one Write for
            # every encoder observed so far; stated loosely: at most len(bad_w) calls lack a record, and all calls after the last
            # failed write are audited
            missing = len(tools) - len(got)
            it = iter(tools)
            is_subseq = all(any(t == g for t in it) for g in got)
            if missing > len(bad_w) or missing < 0 or not is_subseq:
                problems.append("after %d failed write(s) of the audit sink (write index %s) %d of %d mutating calls left no complete audit record: records %s for calls %s" %
                                (len(bad_w), bad_w, missing, len(tools), got, tools))
        if problems:
            C.report(ctx, "audit-life:%s" % ("sink-recovers" if bad_w else "healthy-sink"), "one MCP server, %d mutating calls: %s" % (len(tools), "; ".join(problems)),
                     {"kind": "request", "case": c, "observed": o})
    cov["mcp_audit_life"] = life_stats
    # ONE server, the environment changes between two calls with byte-identical content: what is written must compile WHEN it is written
    cov["mcp_life_steps"] = mcp_life_steps(ctx, info, rng)
    # the REAL binary (`hookaido mcp serve` over stdio, built from the working tree): mutating calls are answered, then the host kills
    # the server as MCP hosts do - every answered mutating call has its audit record on the audit stream (stderr) by then
    cov["mcp_serve_killed"] = mcp_serve_killed(ctx, rng)
    cov["mcp_symlinked_config"] = mcp_symlinked_config(ctx, rng)
    # every call of a queue-mutation tool appends exactly one audit record, whatever it matched (real MCP server on a real database)
    from lib import c14admin
    proxy_probe = c14admin.audit_probe_proxy(ctx, info, rng, start_only=True)     # Admin-proxy mode, in the background (one call waits 5 s)
    audit_stats = c14admin.audit_probe(ctx, info, rng)
    cov.update(audit_stats)
    cov.update(c14admin.audit_probe_proxy(ctx, info, rng, handle=proxy_probe))
    cov.update({
        "evaluations": evaluations,
        "distinct_nontrivial": len(nontrivial),
        "rule": "exhaustive product of %d server settings (5 role strings x mut x rt x 3 principals) x %d tool names (every table/spec name + unknown/near-miss names, %d seeded mutations) through tools/list, tools/call (JSON-RPC frames) and toolAccessError; plus %d confinement/actor-binding calls. Non-trivial = row where a known tool is allowed or mutating, or a distinct confinement/actor shape." % (len(settings), len(names), len(names) - len(known), conf_eval),
        "samples": samples or [{"case": {"setting": settings[0], "tool": names[0]}}],
        "exhaustive": True,
        "traces_validated_against_impl": evaluations,
        "model_impl_mismatches": mism,
        "input_distribution": {"settings": len(settings), "names_known": len(known), "names_unknown": len(names) - len(known), "confinement_cases": conf_eval},
    })
    return C.finish(ctx, cov, assumptions)
