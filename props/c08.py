"""C08 - ingress authentication is sound and fails closed.

The real ingress.Server, wired by the real runtimeState.loadAuth from Hookaidofiles that went through
the real config.Parse/Compile, is served by net/http on loopback; every generated request is written
as raw bytes on a socket.  A scripted loopback auth service plays the forward-auth endpoint.  Each
request's status and queue delta are compared with Model/Ingress.v (serve) instantiated with the
Gallina SHA-256/HMAC; acceptance is re-judged by an independent Python oracle (hashlib/hmac); the Go
library functions the model twins (TrimSpace, ParseInt, hex, BasicAuth/base64, path.Clean,
CanonicalHeaderKey, sha256, hmac) are compared with Go on every generated input; the modelled Compile
rules are compared with the real Parse/Compile."""
import base64
import hashlib
import hmac as pyhmac
import json
import os
import random
import re

from lib import common as C
from lib import authgen as G

SEC = G.SEC
T0 = 1_700_000_000          # base signed timestamp; secret windows are laid out around it
TOL = 300 * SEC


def base_config():
    vers = [
        {"id": "S1", "value": "raw:v1", "valid_from": T0 - 1000, "valid_until": T0},
        {"id": "S2", "value": "raw:v2", "valid_from": T0, "valid_until": T0 + 100},
        {"id": "S3", "value": "env:VERIF_S3", "valid_from": T0 + 50},
    ]
    text = (G.PRELUDE + G.secrets_block(vers)
            + G.route_block("/hm", G.hmac_block(secrets=["raw:k1"], tolerance="5m"))
            + G.route_block("/hm2", G.hmac_block(secrets=["raw:k2a", "raw:k2b"], sig="X-Hub-Sig", ts="x-hub-time",
                                                 nonce="X-Request-Nonce", tolerance="1s"))
            + G.route_block("/rot", G.hmac_block(secrets=["raw:inl"], secret_refs=["S1", "S2", "S3"], tolerance="5m"))
            + G.route_block("/rot2", G.hmac_block(secret_refs=["S1", "S3"], tolerance="5m"))
            + G.route_block("/basic", '  auth basic "alice" "s3cret"\n  auth basic "bob" "pa:ss"\n')
            + G.route_block("/fwd", '  auth forward "{{FWD}}/check" {\n    timeout 300ms\n    copy_headers "X-User-Id"\n    copy_headers "x-org-id"\n  }\n')
            + G.route_block("/fwdclosed", '  auth forward "{{FWD_CLOSED}}/check" {\n    timeout 300ms\n  }\n')
            + G.route_block("/open")
            # the only secret of this route is an environment variable holding white space: it is a secret like any other
            # (a loader that trims it to nothing would leave an authenticator without secrets)
            + G.route_block("/hmws", G.hmac_block(secrets=["env:VERIF_WS"], tolerance="5m"))
            + G.route_block("/small", G.hmac_block(secrets=["raw:k1"]), extra="  max_body 64b\n  max_headers 300b\n")
            + G.route_block("/fan", G.hmac_block(secrets=["raw:k1"]), pull=False,
                            delivers=["http://127.0.0.1:9/a", "http://127.0.0.1:9/b", "http://127.0.0.1:9/c"])
            + G.route_block("/rl", '  auth basic "alice" "s3cret"\n', extra="  rate_limit { rps 0.001 burst 2 }\n"))
    versions = {
        "/rot": [{"value": b"v1", "from": (T0 - 1000) * SEC, "until": T0 * SEC},
                 {"value": b"v2", "from": T0 * SEC, "until": (T0 + 100) * SEC},
                 {"value": b"v3", "from": (T0 + 50) * SEC, "until": None}],
        "/rot2": [{"value": b"v1", "from": (T0 - 1000) * SEC, "until": T0 * SEC},
                  {"value": b"v3", "from": (T0 + 50) * SEC, "until": None}],
    }
    return text, versions, {"VERIF_S3": "v3", "VERIF_WS": " \t "}


# what the configuration text above SAYS about each route (the oracle must not learn the auth requirement from the compiled output only)
EXPECT_AUTH = {"/hm": "hmac", "/hm2": "hmac", "/rot": "hmac", "/rot2": "hmac", "/basic": "basic", "/fwd": "forward", "/fwdclosed": "forward",
               "/open": None, "/small": "hmac", "/fan": "hmac", "/rl": "basic", "/hmws": "hmac"}
EXPECT_BASIC = {"/basic": {"alice": "s3cret", "bob": "pa:ss"}, "/rl": {"alice": "s3cret"}}
NAMES = {"/hm2": ("X-Hub-Sig", "x-hub-time", "X-Request-Nonce")}
DEFAULT_NAMES = ("X-Signature", "X-Timestamp", "X-Nonce")
TOLS = {"/hm": TOL, "/hm2": SEC, "/rot": TOL, "/rot2": TOL, "/small": TOL, "/fan": TOL, "/hmws": TOL}
STATIC = {"/hm": [b"k1"], "/hm2": [b"k2a", b"k2b"], "/rot": [b"inl"], "/rot2": [], "/small": [b"k1"], "/fan": [b"k1"], "/hmws": [b" \t "]}

FWD_CLASS = {"200": "F2xx", "204": "F2xx", "299": "F2xx", "200hdr": "F2xx", "302loc": "F2xx", "401": "F401", "403": "F403",
             "500": "FOther", "503": "FOther", "302": "FOther", "404": "FOther", "300": "FOther", "199": "FOther", "400": "FOther",
             "hang": "FTimeout", "drop": "FUnreachable", "slow200": "F2xx", "slow403": "F403", "slow401": "F401", "slow500": "FOther", "slow302": "FOther",
             # final statuses below 200 written on the raw connection; raw100 = informational responses only, then the connection closes
             "raw101": "FOther", "raw099": "FOther", "raw000": "FOther", "raw100": "FUnreachable"}


class Gen:
    def __init__(self, rng, nbits=3):
        self.rng = rng
        self.cases = []
        self.n = 0
        self.nbits = nbits

    def nonce(self):
        self.n += 1
        return "n%06d" % self.n

    def add(self, route, tag, method, target, headers, body, now=None, fwd="", fail_at=0, half=False, cl=True, version="HTTP/1.1", host="hook.test", hangup=False):
        self.cases.append({"route": route, "tag": tag, "method": method, "target": target, "headers": headers, "body": body,
                           "now": T0 * SEC if now is None else now, "fwd": fwd, "fail_at": fail_at, "half": half, "hangup": hangup,
                           "wire": G.wire(method, target, headers, body, host=host, content_length=cl, version=version)})

    # ---- HMAC
    def signed(self, route, ts_text=None, method="POST", target=None, cpath=None, body=b'{"k":"v"}', secret=None, nonce=None, names=None):
        names = names or NAMES.get(route, DEFAULT_NAMES)
        ts_text = str(T0) if ts_text is None else ts_text
        target = route if target is None else target
        cpath = target if cpath is None else cpath
        secret = STATIC[route][0] if secret is None else secret
        nonce = self.nonce() if nonce is None else nonce
        sig = G.sign(secret, ts_text.strip() if isinstance(ts_text, str) else ts_text, method, cpath, body)
        return {"method": method, "target": target, "body": body,
                "headers": [(names[0], sig), (names[1], ts_text), (names[2], nonce)], "names": names, "sig": sig}

    def put(self, route, tag, r, **kw):
        self.add(route, tag, r["method"], r["target"], r["headers"], r["body"], **kw)

    def hmac_family(self, route, light=False):
        rng = self.rng
        tol = TOLS[route]
        names = NAMES.get(route, DEFAULT_NAMES)
        t = T0 * SEC
        # valid baseline + clock offsets at both edges
        offs = [-tol - 1, -tol, -tol + 1, -1, 0, 1, tol - 1, tol, tol + 1]
        if light:
            offs = [-tol - 1, -tol, tol, tol + 1]
        for off in offs:
            self.put(route, "clock%+d" % off, self.signed(route), now=t + off)
        if light:
            return
        base_body = bytes(rng.randrange(32, 127) for _ in range(rng.randrange(1, 80)))

        def mut(tag, f, **kw):
            r = self.signed(route, body=base_body)
            r = f(r) or r
            self.put(route, tag, r, **kw)

        def seth(r, idx, val):
            r["headers"][idx] = (r["headers"][idx][0], val)

        # single-field mutations after signing
        mut("body-append", lambda r: r.update(body=r["body"] + b"x"))
        mut("body-truncate", lambda r: r.update(body=r["body"][:-1]))
        mut("body-empty", lambda r: r.update(body=b""))
        for blen in (49, 200):   # long body, last byte altered after signing
            r = self.signed(route, body=b"L" * blen)
            r["body"] = r["body"][:-1] + b"M"
            self.put(route, "body-tail-flip", r)
        mut("method-put", lambda r: r.update(method="PUT"))
        mut("method-lower", lambda r: r.update(method="post"))
        mut("path-child", lambda r: r.update(target=route + "/x"))
        mut("path-slash", lambda r: r.update(target=route + "/"))      # cleans to the signed path: valid
        mut("path-dotdot", lambda r: r.update(target=route + "/y/.."))  # cleans to the signed path: valid
        mut("path-query", lambda r: r.update(target=route + "?sig=1"))  # query is not part of the path: valid
        mut("ts-plus1", lambda r: seth(r, 1, str(T0 + 1)))
        mut("ts-minus1", lambda r: seth(r, 1, str(T0 - 1)))
        mut("nonce-other", lambda r: seth(r, 2, "zz" + r["headers"][2][1]))   # the nonce is not signed: still valid
        mut("sig-upper", lambda r: seth(r, 0, r["sig"].upper()))              # hex decoding accepts both cases: valid
        mut("sig-mixed", lambda r: seth(r, 0, "".join(c.upper() if i % 3 == 0 else c for i, c in enumerate(r["sig"]))))
        mut("sig-odd", lambda r: seth(r, 0, r["sig"][:-1]))
        mut("sig-short", lambda r: seth(r, 0, r["sig"][:-2]))
        mut("sig-long", lambda r: seth(r, 0, r["sig"] + "00"))
        mut("sig-nonhex", lambda r: seth(r, 0, r["sig"][:-1] + "g"))
        mut("sig-0x", lambda r: seth(r, 0, "0x" + r["sig"]))
        mut("sig-sha256=", lambda r: seth(r, 0, "sha256=" + r["sig"]))
        mut("sig-empty", lambda r: seth(r, 0, ""))
        mut("sig-spaces", lambda r: seth(r, 0, "   "))
        mut("sig-padded", lambda r: seth(r, 0, " \t" + r["sig"] + " "))       # trimmed: valid
        mut("sig-nbsp", lambda r: seth(r, 0, b"\xc2\xa0" + r["sig"].encode() + b"\xe2\x80\x83"))   # unicode spaces trimmed: valid
        mut("sig-badutf8", lambda r: seth(r, 0, b"\xa0" + r["sig"].encode()))  # lone continuation byte is not a space
        mut("sig-inner-space", lambda r: seth(r, 0, r["sig"][:10] + " " + r["sig"][10:]))
        # wrong / other secrets
        self.put(route, "secret-wrong", self.signed(route, secret=b"not-the-secret", body=base_body))
        self.put(route, "secret-empty", self.signed(route, secret=b"", body=base_body))
        self.put(route, "secret-prefix", self.signed(route, secret=STATIC[route][0][:-1] if STATIC[route] else b"v", body=base_body))
        for s in STATIC[route][1:]:
            self.put(route, "secret-second", self.signed(route, secret=s, body=base_body))
        # single-BIT mutations of every field
        nbits = self.nbits
        for field in ("body", "sig", "ts", "nonce", "path", "method"):
            for _ in range(nbits):
                r = self.signed(route, body=base_body, target=route + "/bits")
                if field == "body":
                    b = bytearray(r["body"]); i = rng.randrange(len(b) * 8); b[i // 8] ^= 1 << (i % 8); r["body"] = bytes(b)
                elif field in ("sig", "ts", "nonce"):
                    idx = {"sig": 0, "ts": 1, "nonce": 2}[field]
                    b = bytearray(r["headers"][idx][1].encode()); i = rng.randrange(len(b) * 8); b[i // 8] ^= 1 << (i % 8)
                    seth(r, idx, bytes(b))
                elif field == "path":
                    b = bytearray(r["target"].encode()); i = rng.randrange(8, len(b) * 8); b[i // 8] ^= 1 << (i % 8); r["target"] = bytes(b)
                else:
                    b = bytearray(r["method"].encode()); i = rng.randrange(len(b) * 8); b[i // 8] ^= 1 << (i % 8); r["method"] = bytes(b)
                self.put(route, "bit-" + field, r)
        # missing / blank / duplicate headers, header-name case
        for idx, nm in enumerate(("sig", "ts", "nonce")):
            r = self.signed(route, body=base_body); del r["headers"][idx]; self.put(route, "missing-" + nm, r)
            r = self.signed(route, body=base_body); seth(r, idx, ""); self.put(route, "blank-" + nm, r)
            r = self.signed(route, body=base_body); r["headers"].insert(idx + 1, (r["headers"][idx][0], "garbage")); self.put(route, "dup-valid-first-" + nm, r)
            r = self.signed(route, body=base_body); r["headers"].insert(idx, (r["headers"][idx][0], "garbage" if nm != "ts" else "12")); self.put(route, "dup-garbage-first-" + nm, r)
        r = self.signed(route, body=base_body); r["headers"] = [(k.lower(), v) for k, v in r["headers"]]; self.put(route, "names-lower", r)
        r = self.signed(route, body=base_body); r["headers"] = [(k.upper(), v) for k, v in r["headers"]]; self.put(route, "names-upper", r)
        other = DEFAULT_NAMES if names != DEFAULT_NAMES else ("X-Hub-Sig", "X-Hub-Time", "X-Request-Nonce")
        self.put(route, "names-of-other-route", self.signed(route, body=base_body, names=other))
        # timestamp spellings (signed with exactly the text sent, trimmed)
        for txt, now in (("+%d" % T0, None), ("%020d" % T0, None), (" %d " % T0, None), ("-%d" % T0, -t), ("-%d" % T0, None),
                         ("1_700_000_000", None), ("1.7e9", None), ("%d.0" % T0, None), ("0x%x" % T0, None), ("%de0" % T0, None),
                         ("9223372036854775807", None), ("9223372036854775808", None), ("-9223372036854775808", None),
                         ("-9223372036854775809", None), ("99999999999999999999999999", None), ("+", None), ("-", None), ("++%d" % T0, None),
                         ("+-%d" % T0, None), ("%d " % T0 + "1", None), ("١٧", None), ("0", 0), ("-0", 0), ("+0", 1),
                         # correctly signed, but further from the clock than a time.Duration can express (Sub saturates at +-2^63 ns)
                         (str(T0 + 9_223_372_036), None), (str(T0 + 9_223_372_037), None), (str(T0 + 9_300_000_000), None),
                         ("11010254400", None), ("99999999999", None), (str(T0 - 9_223_372_037), None), (str(T0 - 9_300_000_000), None),
                         ("-99999999999", None), ("253402300800", None)):
            tt = txt.encode("utf-8") if any(ord(c) > 255 for c in txt) else txt
            r = self.signed(route, ts_text=txt if isinstance(tt, str) else None, body=base_body)
            if not isinstance(tt, str):
                sig = G.sign(STATIC[route][0] if STATIC[route] else b"v1", tt, "POST", route, base_body)
                r["headers"][0] = (r["headers"][0][0], sig)
                r["headers"][1] = (r["headers"][1][0], tt)
            self.put(route, "ts-spelling", r, now=now)
        # paths: signature over the cleaned, decoded path
        for target, cpath in ((route + "//a", route + "/a"), (route + "/./a", route + "/a"), (route + "/a/../b", route + "/b"),
                              (route + "/%61", route + "/a"), (route + "/a%2Fb", route + "/a/b"), (route + "/a/", route + "/a"),
                              ("/x/.." + route, route), (route + "/a?b=c", route + "/a"), (route + "/%41%20b", route + "/A b")):
            self.put(route, "path-cleaned-signed", self.signed(route, target=target, cpath=cpath, body=base_body))
            self.put(route, "path-raw-signed", self.signed(route, target=target, cpath=target.split("?")[0], body=base_body))
        # bodies
        for body in (b"", b"\x00", bytes(range(256)), b"a" * 55, b"a" * 56, b"a" * 63, b"a" * 64, b"a" * 65, b"a" * 119, b"a" * 120, b"z" * 1000):
            self.put(route, "body-shape", self.signed(route, body=body))
        # replay inside this run: second presentation must be refused (C09's subject; the model threads the cache)
        r = self.signed(route, body=base_body)
        self.put(route, "replay-first", r)
        self.put(route, "replay-second", r, now=t + 5)
        # truncated body on the wire
        r = self.signed(route, body=base_body)
        self.add(route, "body-truncated-on-wire", r["method"], r["target"], r["headers"], r["body"][: len(r["body"]) // 2], half=True, cl=len(r["body"]))

    def rotation_family(self, route):
        t_points = [T0 - 1001, T0 - 1000, T0 - 1, T0, T0 + 49, T0 + 50, T0 + 99, T0 + 100, T0 + 5000]
        secrets = [b"v1", b"v2", b"v3", b"inl", b"nope"]
        for ts in t_points:
            for s in secrets:
                self.put(route, "window", self.signed(route, ts_text=str(ts), secret=s), now=ts * SEC)
        # validity is judged at the SIGNED instant, not at the clock: sign at T0-1 with v1, present at T0-1+tol
        self.put(route, "window-signed-instant", self.signed(route, ts_text=str(T0 - 1), secret=b"v1"), now=(T0 - 1) * SEC + TOL)
        self.put(route, "window-signed-instant", self.signed(route, ts_text=str(T0), secret=b"v1"), now=(T0 - 100) * SEC)
        self.put(route, "window-signed-instant", self.signed(route, ts_text=str(T0 + 50), secret=b"v3"), now=(T0 + 50) * SEC - TOL)

    def rotation_sequences(self, route):
        """ORDERED on one long-lived authenticator: a request stamped exactly at a window edge, then requests stamped a little earlier and
        a little later under the secrets that are / are not valid there - the answer for one instant must not colour the next"""
        edges = [(T0 - 1000, b"v1"), (T0, b"v2"), (T0 + 50, b"v3"), (T0 + 100, b"v2")]
        for k, (b, s_new) in enumerate(edges):
            for s in (s_new, b"v1", b"v2", b"v3"):
                self.put(route, "seq-window-edge", self.signed(route, ts_text=str(b), secret=s), now=b * SEC)
                for off in (-10, -1, 1, 10):
                    for s2 in (s_new, b"v1", b"v2", b"v3"):
                        self.put(route, "seq-window-near-edge", self.signed(route, ts_text=str(b + off), secret=s2), now=(b + off) * SEC)

    def basic_family(self, route, light=False):
        def hdr(v):
            return [("Authorization", v)]
        ok = G.basic_header("alice", "s3cret")
        cases = [("valid-alice", ok), ("valid-bob-colon-in-password", G.basic_header("bob", "pa:ss")),
                 ("scheme-lower", "basic " + ok[6:]), ("scheme-upper", "BASIC " + ok[6:])]
        if not light:
            cases += [
                ("wrong-user", G.basic_header("mallory", "s3cret")), ("user-case", G.basic_header("Alice", "s3cret")),
                ("user-padded", G.basic_header("alice ", "s3cret")), ("user-empty", G.basic_header("", "s3cret")),
                ("pass-prefix", G.basic_header("alice", "s3cre")), ("pass-suffix", G.basic_header("alice", "s3cret1")),
                ("pass-case", G.basic_header("alice", "S3cret")), ("pass-empty", G.basic_header("alice", "")),
                ("pass-of-other-user", G.basic_header("alice", "pa:ss")), ("pass-padded", G.basic_header("alice", "s3cret ")),
                ("pass-nul", G.basic_header("alice", "s3cret\x00")), ("bob-cut-password", G.basic_header("bob", "pa")),
                ("no-colon", "Basic " + base64.b64encode(b"alices3cret").decode()),
                ("colon-only", "Basic " + base64.b64encode(b":").decode()),
                ("b64-malformed", "Basic !!!notbase64"), ("b64-unpadded", "Basic " + ok[6:].rstrip("=")),
                ("b64-urlsafe", "Basic " + base64.urlsafe_b64encode(b"alice:s3cret").decode().replace("=", "")),
                ("b64-trailing-garbage", ok + "AAAA"), ("b64-inner-space", ok[:10] + " " + ok[10:]),
                ("b64-extra-padding", ok + "="), ("b64-nonzero-trailing-bits", "Basic " + base64.b64encode(b"alice:s3cret").decode()[:-2] + "R=" if base64.b64encode(b"alice:s3cret").decode().endswith("=") else ok),
                ("double-space", "Basic  " + ok[6:]), ("no-space", "Basic" + ok[6:]), ("tab", "Basic\t" + ok[6:]),
                ("bearer", "Bearer " + ok[6:]), ("empty", ""), ("just-basic", "Basic "), ("just-basic-nospace", "Basic"),
                ("negotiate", "Negotiate abc"), ("digest", 'Digest username="alice"'),
            ]
        for tag, v in cases:
            self.add(route, "basic-" + tag, "POST", route, hdr(v), b"{}")
        if not light:
            self.add(route, "basic-absent", "POST", route, [], b"{}")
            self.add(route, "basic-two-headers-valid-first", "POST", route, hdr(ok) + hdr("Basic xxxx"), b"{}")
            self.add(route, "basic-two-headers-garbage-first", "POST", route, hdr("Basic xxxx") + hdr(ok), b"{}")
            self.add(route, "basic-header-case", "POST", route, [("aUTHORIZATION", ok)], b"{}")
            self.add(route, "basic-proxy-authorization", "POST", route, [("Proxy-Authorization", ok)], b"{}")
            for _ in range(2 * self.nbits):   # random single-bit flips of the valid header value
                b = bytearray(ok.encode()); i = self.rng.randrange(len(b) * 8); b[i // 8] ^= 1 << (i % 8)
                self.add(route, "basic-bit", "POST", route, hdr(bytes(b)), b"{}")

    def forward_family(self):
        for beh in ("200", "204", "299", "200hdr", "302loc", "401", "403", "500", "503", "302", "404", "300", "199", "400", "drop",
                    "raw101", "raw099", "raw000", "raw100"):
            for body in (b"", b'{"x":1}'):
                self.add("/fwd", "fwd-" + beh, "POST", "/fwd", [("X-Caller", "c1")], body, fwd=beh)
        self.add("/fwd", "fwd-hang", "POST", "/fwd", [], b"{}", fwd="hang")
        self.add("/fwd", "fwd-hang", "PUT", "/fwd/sub", [], b"", fwd="hang")
        for beh in ("200", "401"):
            self.add("/fwdclosed", "fwd-closed-port", "POST", "/fwdclosed", [], b"{}", fwd=beh)
        # the caller hangs up while the auth service is still deciding (it answers 150 ms later): nothing but a 2xx answer admits
        for beh in ("slow403", "slow401", "slow500", "slow302"):
            for body in (b"", b'{"x":1}'):
                self.add("/fwd", "fwd-hangup-" + beh, "POST", "/fwd", [("X-Caller", "c1")], body, fwd=beh, hangup=True)
        # and a slow decision with a patient caller
        for beh in ("slow200", "slow403"):
            self.add("/fwd", "fwd-" + beh, "POST", "/fwd", [("X-Caller", "c1")], b"{}", fwd=beh)

    def misc_family(self):
        self.add("/open", "open", "POST", "/open", [], b"{}")
        self.add("/open", "open", "PUT", "/open/x", [("Authorization", "Basic zzz")], b"")
        self.add(None, "no-route", "POST", "/nothing", [], b"{}")
        self.add(None, "no-route", "POST", "/hmx", [], b"{}")
        self.add(None, "no-route", "POST", "/", [], b"{}")
        # body / header limits on /small
        for n in (0, 63, 64, 65, 200):
            self.put("/small", "body-limit-%d" % n, self.signed("/small", body=b"b" * n))
        self.put("/small", "header-limit", dict(self.signed("/small", body=b"x"), **{}))
        r = self.signed("/small", body=b"x"); r["headers"].append(("X-Filler", "f" * 400)); self.put("/small", "header-limit-over", r)
        # fan-out: the store refuses the k-th target
        for k in (0, 1, 2, 3):
            self.put("/fan", "fanout-fail-at-%d" % k, self.signed("/fan"), fail_at=k)
        self.put("/fan", "fanout-unauth", dict(self.signed("/fan", secret=b"bad")), fail_at=2)
        # rate limit (burst 2) comes before authentication
        for i in range(4):
            self.add("/rl", "ratelimit", "POST", "/rl", [("Authorization", G.basic_header("alice", "s3cret" if i % 2 == 0 else "bad"))], b"{}")
        # protocol-level garbage: never reaches the handler
        self.add("/hm", "proto-http09", "POST", "/hm", [], b"", version="HTTP/0.9")
        self.add("/hm", "proto-bad-header-name", "POST", "/hm", [("X Sig nature", "1")], b"")
        self.add("/hm", "proto-no-host", "POST", "/hm", [], b"", host=None)


def build_cases(rng, tier):
    g = Gen(rng, 3 if tier == "quick" else 12)
    g.hmac_family("/hm")
    g.hmac_family("/hm2", light=(tier == "quick"))
    g.hmac_family("/hmws", light=True)
    g.put("/hmws", "ws-unsigned", {"method": "POST", "target": "/hmws", "headers": [], "body": b"{}"})
    g.put("/hmws", "ws-foreign-key", g.signed("/hmws", secret=b"someone-else"))
    g.put("/hmws", "ws-empty-key", g.signed("/hmws", secret=b""))
    if tier != "quick":
        g.hmac_family("/fan", light=True)
        g.hmac_family("/rot", light=True)
        for _ in range(4):          # further rounds: fresh random bodies and bit positions
            g.hmac_family("/hm")
            g.hmac_family("/hm2")
        g.hmac_family("/fan")
    g.rotation_family("/rot")
    g.rotation_sequences("/rot")
    g.rotation_sequences("/rot2")
    g.rotation_family("/rot2")
    g.basic_family("/basic")
    g.forward_family()
    g.misc_family()
    return g.cases


# --------------------------------------------------------------------------
# independent Python judgement of an accepted request (third opinion)

def py_secrets_at(route, versions, ts_ns):
    out = []
    for v in versions.get(route, []):
        if v["from"] <= ts_ns and (v["until"] is None or ts_ns < v["until"]):
            out.append(v["value"])
    return out + STATIC[route]


def py_hmac_valid(route, versions, parsed, body, now):
    names = NAMES.get(route, DEFAULT_NAMES)
    hs = parsed["headers"]

    def get(nm):
        v = hs.get(G.canonical_header(nm))
        return G.trim_space(v[0].encode("latin-1")) if v else b""
    sig, ts, nonce = get(names[0]), get(names[1]), get(names[2])
    if not sig or not ts or not nonce:
        return "header missing"
    if not re.fullmatch(rb"[+-]?[0-9]+", ts):
        return "timestamp not an integer"
    tsv = int(ts)
    if not (G.MINI64 <= tsv <= G.MAXI64):
        return "timestamp out of int64"
    if abs(now - tsv * SEC) > TOLS[route]:
        return "outside tolerance"
    try:
        raw = bytes.fromhex(sig.decode("ascii"))
    except (ValueError, UnicodeDecodeError):
        return "signature not hex"
    if " " in sig.decode("ascii") or not raw:
        return "signature not hex"
    msg = ts + b"\n" + parsed["method"].encode("latin-1") + b"\n" + parsed["clean_path"].encode("latin-1") + b"\n" + hashlib.sha256(body).hexdigest().encode()
    for k in py_secrets_at(route, versions, tsv * SEC):
        if k and pyhmac.compare_digest(pyhmac.new(k, msg, hashlib.sha256).digest(), raw):
            return None
    return "no valid secret matches"


def py_basic_valid(users, parsed):
    v = parsed["headers"].get("Authorization")
    if not v:
        return "no Authorization header"
    v = v[0]
    if len(v) < 6 or v[:6].lower() != "basic ":
        return "not Basic"
    try:
        dec = base64.b64decode(v[6:].encode("latin-1"), validate=True)
    except Exception:
        return "bad base64"
    if b":" not in dec:
        return "no colon"
    u, p = dec.split(b":", 1)
    if users.get(u.hex()) != p.hex():
        return "unknown user or wrong password"
    return None


# --------------------------------------------------------------------------
# model side

def coq_route_cfg(I, ri, versions):
    basic = G.clist("(%s, %s)" % (I.b(bytes.fromhex(u)), I.b(bytes.fromhex(p))) for u, p in sorted((ri["basic"] or {}).items()))
    if ri["hmac"]:
        cfg = {"sig": ri["sig_header"], "ts": ri["ts_header"], "nonce": ri["nonce_header"], "tol": ri["tolerance"],
               "static": [bytes.fromhex(s) for s in (ri["static_secrets"] or [])], "versions": versions.get(ri["path"], [])}
        hm = "(Some %s)" % G.coq_hmac_cfg(I, cfg)
    else:
        hm = "None"
    return "{| rc_basic := %s; rc_forward := %s; rc_hmac := %s; rc_targets := %s; rc_max_body := %s |}" % (
        basic, G.cbool(ri["forward"]), hm, G.clist(I.b(t) for t in (ri["targets"] or [])), G.cz(ri["max_body"]))


def hdr_fit(parsed, max_header, extra):
    """Python twin of copyHeadersWithExtra/headerKVSize (C07's subject; here only an oracle input)."""
    if max_header <= 0:
        return len(parsed["headers"]) == 0 and not extra
    out = {}
    for k, vs in parsed["headers"].items():
        if k.lower() in ("authorization", "proxy-authorization", "cookie"):
            continue
        out[G.canonical_header(k)] = ",".join(vs)
    for k, v in extra.items():
        out[k] = v
    return sum(len(k.encode("latin-1", "replace")) + len(v.encode("latin-1", "replace")) for k, v in out.items()) <= max_header


def coq_group(route_info, versions, items):
    """items: list of (case, impl_step) that reached the handler and resolved to this route (in order)."""
    I = G.Intern()
    rows = []
    rc = coq_route_cfg(I, route_info, versions) if route_info else None
    for c, io in items:
        p = io["parsed"]
        if not p["route_ok"]:
            rs = "(RNone %s)" % G.cbool(bool(p.get("allowed")))
        else:
            rs = "(RRoute rc0)"
        hm = [(k, [v.encode("latin-1") for v in vs]) for k, vs in sorted(p["headers"].items())]
        req = G.coq_hreq(I, p["method"], p["clean_path"], hm, c["body"] if not c["half"] else c["body"])
        fc = c["_fwd_class"]
        fwd = "(F2xx [])" if fc == "F2xx" else fc
        k = c["fail_at"]
        enq = G.clist(["true"] * (k - 1) + ["false"]) if k > 0 else "[]"
        orc = "{| o_rate_ok := %s; o_backpressure := None; o_body_err := %s; o_fwd := %s; o_hdr_fit := %s; o_enq := %s |}" % (
            G.cbool(c["_rate_ok"]), G.cbool(c["half"]), fwd, G.cbool(c["_hdr_fit"]), enq)
        rows.append("{| sc_rs := %s; sc_now := %s; sc_req := %s; sc_or := %s |}" % (rs, G.cz(c["now"]), req, orc))
    body = ["From Coq Require Import ZArith List Bool NArith.",
            "From HK Require Import Model.NonceCache Model.Hmac Model.BasicAuth Model.Ingress Model.AuthEval.",
            "Import ListNotations.", "Open Scope Z_scope.", I.preamble()]
    if rc:
        body.append("Definition rc0 : route_cfg := %s." % rc)
    body += ["Definition L : list scase := %s." % G.clist(rows),
             "Definition R := Eval vm_compute in serve_run [] L.", "Print R."]
    return "\n".join(body) + "\n"


def w(b):
    return 0 + sum((i + 1) * (x + 1) for i, x in enumerate(b))


def twins_coq(vals, rot_cfg, rot_points):
    I = G.Intern()
    names = [I.b(v) for v in vals]
    body = ["From Coq Require Import ZArith List Bool NArith.",
            "From HK Require Import Model.NonceCache Model.Hmac Model.BasicAuth Model.Sha256 Model.AuthEval.",
            "Import ListNotations.", "Open Scope Z_scope.", I.preamble(),
            "Definition V : list (list N) := %s." % G.clist(names),
            "Definition RT := Eval vm_compute in map trim_code V.", "Print RT.",
            "Definition RI := Eval vm_compute in map parse_int_code V.", "Print RI.",
            "Definition RH := Eval vm_compute in map hex_code V.", "Print RH.",
            "Definition RB := Eval vm_compute in map basic_code V.", "Print RB."]
    if rot_cfg:
        body += ["Definition RS := Eval vm_compute in map (secrets_code %s) %s." % (rot_cfg, G.clist(G.cz(t) for t in rot_points)), "Print RS."]
    return "\n".join(body) + "\n"


def crypto_coq(shas, hmacs):
    I = G.Intern()
    ls = G.clist(I.b(m) for m in shas)
    lm = G.clist("(%s, %s)" % (I.b(k), I.b(m)) for k, m in hmacs)
    body = ["From Coq Require Import ZArith List Bool NArith.",
            "From HK Require Import Model.NonceCache Model.Sha256 Model.AuthEval.",
            "Import ListNotations.", "Open Scope Z_scope.", I.preamble(),
            "Definition RS := Eval vm_compute in map (fun m => bweight 1 (sha256 m)) (%s : list (list N))." % ls, "Print RS.",
            "Definition RM := Eval vm_compute in map (fun km => bweight 1 (hmac_sha256 (fst km) (snd km))) (%s : list (list N * list N))." % lm, "Print RM."]
    return "\n".join(body) + "\n"


# --------------------------------------------------------------------------
# Compile rules differential

def compile_cases(rng, n):
    out = []
    hdr_pool = [None, None, "X-Sig", "x-sig", "X-Timestamp", "X-TIMESTAMP", "X-Nonce", "x-nonce", "X-Signature", "Bad Name", "", "X-Ts", "a(b)"]
    tol_pool = [None, None, "5m", "1s", "0", "off", "-5s", "0s", "1ns", "banana", "7d", "1h30m"]
    for i in range(n):
        secrets = []
        for _ in range(rng.choice([0, 0, 1, 1, 2, 3])):
            k = rng.random()
            if k < 0.45:
                secrets.append((rng.choice(["raw:k1", "raw:k2", "env:VERIF_X", "raw:", "bogus:zz", "plain", "file:/x"]), "inline"))
            elif k < 0.85:
                secrets.append((rng.choice(["S1", "S2", "S9", "S1"]), "ref"))
            else:
                secrets.append(("raw:k%d" % rng.randrange(9), "inline"))
        ra = {"secrets": secrets, "sig": rng.choice(hdr_pool), "ts": rng.choice(hdr_pool), "nonce": rng.choice(hdr_pool),
              "tol": rng.choice(tol_pool),
              "basic": [(rng.choice(["alice", "bob", "alice", "carol"]), rng.choice(["pw", "p w", "x"])) for _ in range(rng.choice([0, 0, 0, 1, 2]))],
              "forward": rng.random() < 0.15}
        r_ = rng.random()
        if r_ < 0.35:    # a clean config with exactly one thing perturbed, so that single rules are isolated
            ra = {"secrets": [(rng.choice(["raw:k1", "env:VERIF_X"]), "inline")] + ([("S1", "ref")] if rng.random() < 0.5 else []),
                  "sig": rng.choice([None, "X-Sig"]), "ts": rng.choice([None, "X-Ts"]), "nonce": rng.choice([None, "X-Nc"]),
                  "tol": rng.choice([None, "5m", "1s", "7d"]), "basic": [], "forward": False}
            what = rng.choice(["none", "none", "secret", "hdr", "hdrdup", "tol", "basic", "forward", "ref"])
            if what == "secret":
                ra["secrets"].append((rng.choice(["raw:", "bogus:zz", "plain", " "]), "inline"))
            elif what == "hdr":
                ra[rng.choice(["sig", "ts", "nonce"])] = rng.choice(["Bad Name", "", "a(b)", "X-Ok"])
            elif what == "hdrdup":
                a_, b_ = rng.sample(["sig", "ts", "nonce"], 2)
                ra[a_] = "X-Same"
                ra[b_] = rng.choice(["X-Same", "x-same", "X-SAME", "X-Same2"])
            elif what == "tol":
                ra["tol"] = rng.choice(["0", "off", "-5s", "0s", "banana", "1ns"])
            elif what == "basic":
                ra["basic"] = [("alice", "pw")]
            elif what == "forward":
                ra["forward"] = True
            elif what == "ref":
                ra["secrets"].append((rng.choice(["S1", "S2", "S9"]), "ref"))
        elif r_ < 0.6:
            ra["basic"], ra["forward"] = [], False
        elif r_ < 0.75:   # basic only / forward only
            ra = {"secrets": [], "sig": None, "ts": None, "nonce": None, "tol": None,
                  "basic": [(rng.choice(["alice", "bob"]), "pw")] + ([(rng.choice(["alice", "carol"]), "x")] if rng.random() < 0.5 else []),
                  "forward": False}
            if rng.random() < 0.3:
                ra = dict(ra, basic=[], forward=True)
        out.append(ra)
    return out


def compile_text(ra):
    auth = ""
    if ra["secrets"] or ra["sig"] is not None or ra["ts"] is not None or ra["nonce"] is not None or ra["tol"] is not None:
        auth += "  auth hmac {\n"
        for s, kind in ra["secrets"]:
            auth += '    %s "%s"\n' % ("secret_ref" if kind == "ref" else "secret", s)
        for nm, key in (("signature_header", "sig"), ("timestamp_header", "ts"), ("nonce_header", "nonce")):
            if ra[key] is not None:
                auth += '    %s "%s"\n' % (nm, ra[key])
        if ra["tol"] is not None:
            auth += '    tolerance "%s"\n' % ra["tol"]
        auth += "  }\n"
    for u, p in ra["basic"]:
        auth += '  auth basic "%s" "%s"\n' % (u, p)
    if ra["forward"]:
        auth += '  auth forward "http://127.0.0.1:9/check"\n'
    vers = [{"id": "S1", "value": "raw:v1", "valid_from": T0}, {"id": "S2", "value": "raw:v2", "valid_from": T0}]
    return G.PRELUDE + G.secrets_block(vers) + G.route_block("/r", auth)


def py_validate_ref(ref):
    ref = ref.strip()
    if ref.startswith("env:"):
        return ref[4:].strip() != ""
    if ref.startswith("file:"):
        return ref[5:].strip() != ""
    if ref.startswith("raw:"):
        return ref[4:] != ""
    return False


def py_duration(raw):
    """parseDurationValue + parsePositiveDuration for the spellings the generator uses: returns ns or None"""
    raw = raw.strip()
    if raw == "" or raw.lower() == "off" or raw == "0":
        return None
    low = raw.lower()
    if low.endswith("d"):
        try:
            v = int(low[:-1])
        except ValueError:
            return None
        return v * 24 * 3600 * SEC if v >= 0 else None
    m = re.fullmatch(r"([+-]?)((?:\d+(?:\.\d*)?(?:ns|us|ms|s|m|h))+)", raw)
    if not m:
        return None
    total = 0
    for num, unit in re.findall(r"(\d+(?:\.\d*)?)(ns|us|ms|s|m|h)", m.group(2)):
        total += float(num) * {"ns": 1, "us": 1e3, "ms": 1e6, "s": 1e9, "m": 60e9, "h": 3600e9}[unit]
    total = int(total)
    if m.group(1) == "-":
        total = -total
    return total if total >= 0 else None


def compile_coq(cases):
    I = G.Intern()
    rows = []
    for ra in cases:
        secs = G.clist("(%s, %s)" % (I.b(s.strip()), "KRef" if kind == "ref" else "KInline %s" % G.cbool(py_validate_ref(s))) for s, kind in ra["secrets"])

        def opt(x):
            return "None" if x is None else "(Some %s)" % I.b(x.strip())
        if ra["tol"] is None:
            tol = "None"
        else:
            d = py_duration(ra["tol"])
            tol = "(Some None)" if d is None else "(Some (Some %s))" % G.cz(d)
        basic = G.clist("(%s, %s)" % (I.b(u.strip()), I.b(p.strip())) for u, p in ra["basic"])
        rows.append("{| ra_secrets := %s; ra_sig := %s; ra_ts := %s; ra_nonce := %s; ra_tol := %s; ra_basic := %s; ra_forward := %s |}" % (
            secs, opt(ra["sig"]), opt(ra["ts"]), opt(ra["nonce"]), tol, basic, G.cbool(ra["forward"])))
    body = ["From Coq Require Import ZArith List Bool NArith.",
            "From HK Require Import Model.NonceCache Model.AuthCompile.",
            "Import ListNotations.", "Open Scope Z_scope.", I.preamble(),
            "Definition known : list (list N) := [%s; %s]." % (I.b("S1"), I.b("S2")),
            "Definition L : list raw_auth := %s." % G.clist(rows),
            "Definition R := Eval vm_compute in map (fun ra => if compile_auth known ra then 1 else 0) L.", "Print R."]
    return "\n".join(body) + "\n"


# --------------------------------------------------------------------------

def strip(o):
    if isinstance(o, dict):
        return {k: strip(v) for k, v in o.items() if not k.startswith("_")}
    if isinstance(o, (list, tuple)):
        return [strip(x) for x in o]
    if isinstance(o, (bytes, bytearray)):
        return {"hex": bytes(o).hex()}
    return o


WIRING = ["ing.ResolveRoute = state.resolveIngress", "ing.AllowRequestFor = state.allowIngress", "ing.AllowEnqueueFor = state.allowIngressEnqueue",
          "ing.BasicAuthFor = state.basicAuthFor", "ing.ForwardAuthFor = state.forwardAuthFor", "ing.HMACAuthFor = state.hmacAuthFor",
          "ing.LimitsFor = state.limitsFor", "ing.TargetsFor = state.targetsFor"]


def secrets_only_reloads(ctx, info):
    """reloads (the real reloadConfig on a running state) that edit nothing but the `secrets { }` block a route's `secret_ref`s point into:
    a version retired by a valid_until, a version's value rotated, the edit taken back.  Routes, tokens and limits are byte-identical
    across the files.  Each request is judged by the secrets block in force when it arrives: signed with a secret valid at its
    timestamp -> 202 and enqueued once, otherwise 401 and nothing enqueued."""
    ts = 1_700_000_000
    t = ts * 10 ** 9
    SEC_ = 10 ** 9

    def text(vers):
        return (G.PRELUDE + G.secrets_block(vers) + G.route_block("/hooks", G.hmac_block(secret_refs=[v["id"] for v in vers], tolerance="5m"))
                + G.route_block("/other"))

    def pool(k1_until=None, k2="raw:k2"):
        return [{"id": "S1", "value": "raw:k1", "valid_from": 1_600_000_000, "valid_until": k1_until},
                {"id": "S2", "value": k2, "valid_from": ts - 1000, "valid_until": None}]
    pools = [pool(), pool(k1_until=ts - 500), pool(k2="raw:k2b"), pool(k1_until=ts - 500, k2="raw:k2b")]
    names = ("X-Signature", "X-Timestamp", "X-Nonce")
    scen = []
    orders = [[0, 1, 0, 2, 3, 0], [1, 0, 1], [0, 2, 0], [0, 0, 1, 1, 3, 2]]
    for oi, order in enumerate(orders):
        steps, meta = [], []
        now = t
        n = 0
        for ci in order:
            steps.append({"op": "load", "cfg": ci})
            meta.append(None)
            for secret in (b"k1", b"k2", b"k2b"):
                n += 1
                now += SEC_
                body = b'{"n":%d}' % n
                sig = G.sign(secret, str(ts), "POST", "/hooks", body)
                hs = [(names[0], sig), (names[1], str(ts)), (names[2], "so-%d-%d" % (oi, n))]
                steps.append({"op": "req", "now": now, "wire": G.b64(G.wire("POST", "/hooks", hs, body))})
                valid = any(v["value"] == "raw:" + secret.decode() and v["valid_from"] <= ts and (v["valid_until"] is None or ts < v["valid_until"])
                            for v in pools[ci])
                meta.append({"cfg": ci, "secret": secret.decode(), "expect": 202 if valid else 401})
        scen.append({"name": "secrets-only-%d" % oi, "configs": [text(p_) for p_ in pools], "steps": steps, "_meta": meta})
    # reloads that change only the TOLERANCE of the route (10m -> 1m -> 10m -> 30s): a fresh, correctly signed request whose timestamp lies
    # outside the tolerance in force is refused - whatever window the route had before the reload
    tol_cfgs = ["10m", "1m", "30s"]

    def tol_text(tol):
        return G.PRELUDE + G.route_block("/hooks", G.hmac_block(secrets=["raw:k1"], tolerance=tol)) + G.route_block("/other")
    tol_ns = {"10m": 600 * SEC_, "1m": 60 * SEC_, "30s": 30 * SEC_}
    steps, meta = [], []
    now = t
    n = 0
    for ci in (0, 1, 0, 2, 1, 0):
        steps.append({"op": "load", "cfg": ci})
        meta.append(None)
        for age in (5, 45, 90, 300, 599, 601, -45, -300):       # seconds between the signed timestamp and the clock
            n += 1
            now += SEC_
            signed = now // SEC_ - age
            body = b'{"t":%d}' % n
            sig = G.sign(b"k1", str(signed), "POST", "/hooks", body)
            hs = [(names[0], sig), (names[1], str(signed)), (names[2], "tol-%d" % n)]
            steps.append({"op": "req", "now": now, "wire": G.b64(G.wire("POST", "/hooks", hs, body))})
            inside = abs(now - signed * SEC_) <= tol_ns[tol_cfgs[ci]]
            meta.append({"cfg": ci, "secret": "k1 (signed %d s %s the clock, tolerance %s)" % (abs(age), "before" if age >= 0 else "after", tol_cfgs[ci]),
                         "expect": 202 if inside else 401})
    scen.append({"name": "tolerance-only-reloads", "configs": [tol_text(x) for x in tol_cfgs], "steps": steps, "_meta": meta})
    rc, out, err = C.harness_run(info["hbin"], ["auth-run"], {"dir": os.path.join(ctx.scratch, "c08reload"),
                                                            "scenarios": [{k: v for k, v in s_.items() if not k.startswith("_")} for s_ in scen]})
    if rc != 0:
        raise RuntimeError("auth-run (C08 secrets-only reloads) failed: " + err[-1500:])
    stats = {"scenarios": len(scen), "reloads": 0, "requests": 0, "202": 0, "401": 0}
    for s_, im in zip(scen, json.loads(out)):
        if im.get("err"):
            raise RuntimeError("scenario %s: %s" % (s_["name"], im["err"]))
        for si, (st, io, m) in enumerate(zip(s_["steps"], im["steps"], s_["_meta"])):
            if m is None:
                stats["reloads"] += 1
                if not io["load_ok"]:
                    C.report(ctx, "secrets-only-reload:refused", "a reload that edits only the secrets block was refused: %s" % io.get("load_err"),
                             {"kind": "history", "case": {"configs": s_["configs"], "steps": s_["steps"][:si + 1]}})
                continue
            stats["requests"] += 1
            delta = io["total_after"] - io["total_before"]
            stats[str(io["status"])] = stats.get(str(io["status"]), 0) + 1
            if io["status"] != m["expect"] or delta != (1 if m["expect"] == 202 else 0):
                C.report(ctx, "secrets-only-reload:%s" % ("accepted-retired" if m["expect"] == 401 else "rejected-valid"),
                         "after a reload that edited only the secrets block (file %d in force), a request signed with secret %r at %d was answered %d with queue "
                         "delta %d; under the secrets block in force it is %s" % (m["cfg"], m["secret"], ts, io["status"], delta,
                                                                                  "valid: 202, enqueued once" if m["expect"] == 202 else "not valid at that instant: 401, nothing enqueued"),
                         {"kind": "history", "case": {"configs": s_["configs"], "steps": s_["steps"][:si + 1]}, "observed": {"status": io["status"], "queue_delta": delta},
                          "expected": m, "how_to_replay": "./check C08 --replay <this file>"})
    return stats


def main(ctx, replay):
    rng = random.Random(ctx.seed)
    info = C.prologue(ctx)
    if info["hbin"] is None:
        raise C.HarnessBuildFailed(info.get("go_log", ""))
    cov = C.proof_coverage(info, "C08")
    assumptions = [
        "net/http request parsing, url decoding and path.Clean are Go library behaviour: the model is fed the request as the handler receives it (recorded by a pass-through wrapper), path.Clean / CanonicalHeaderKey twins are compared with Go on the generated inputs",
        "route resolution (C10), the token bucket (C12) and header copying/size (C07) enter the model as oracle inputs",
        "the shim wires ingress.Server exactly as startServers does; the check verifies that run.go still contains those assignment lines",
        "tolerance < 2^63-1 ns (time.Time.Sub saturates; with the maximal tolerance the timestamp test is vacuous anyway)",
        "Model/Sha256.v is a test oracle compared with crypto/sha256 and crypto/hmac on the generated inputs; theorems are parametric in sha256/hmac",
    ]
    # ---- wiring lines
    run_go = open(os.path.join(C.REPO, "internal", "app", "run.go")).read()
    missing = [l for l in WIRING if l not in run_go]
    if missing:
        C.report(ctx, "wiring", "startServers no longer wires the ingress handler to the runtime state as the harness shim does: %s" % missing,
                 {"kind": "obligation", "missing_lines": missing})

    text, versions, env = base_config()
    cases = build_cases(rng, ctx.tier)
    # requests of one route must stay in order (nonce cache); spread routes over several runtimes
    n_rt = 6 if ctx.tier == "quick" else 12
    buckets = [[] for _ in range(n_rt)]
    fam_rr = {}
    for c in cases:
        key = (c["route"], c["tag"].split("-")[0])
        if c["tag"].startswith("replay") or c["route"] == "/rl":
            b = 0
        elif c["tag"].startswith("seq-"):
            b = 1 if c["route"] == "/rot" else 2          # ordered families: one runtime, generation order
        else:
            fam_rr[key] = fam_rr.get(key, 0) + 1
            b = (hash_str(key) + fam_rr[key]) % n_rt
        buckets[b].append(c)
    scen = []
    rot_points = [T0 - 1001, T0 - 1000, T0 - 1, T0, T0 + 49, T0 + 50, T0 + 99, T0 + 100, T0 + 100000]
    for bi, b in enumerate(buckets):
        steps = [{"op": "load", "cfg": 0}]
        if bi == 0:
            for rt in ("/rot", "/rot2", "/hm"):
                steps.append({"op": "select", "wire": json.dumps({"route": rt, "at": rot_points})})
        for c in b:
            steps.append({"op": "req", "now": c["now"], "wire": G.b64(c["wire"]), "half": c["half"], "fwd": c["fwd"], "fail_at": c["fail_at"], "hangup": c.get("hangup", False), "_c": c})
        scen.append({"name": "rt%d" % bi, "configs": [text], "env": env, "steps": steps})
    rc, out, err = C.harness_run(info["hbin"], ["auth-run"], {"dir": os.path.join(ctx.scratch, "c08"), "scenarios": [strip(s) for s in scen]}, timeout=600)
    if rc != 0:
        raise RuntimeError("auth-run failed: " + err[-2000:])
    impl = json.loads(out)
    ctx.notes.append("t_impl=%.1f" % ctx.wall())

    evaluations = 0
    nontrivial = set()
    samples = []
    dist = {"cases": len(cases), "runtimes": n_rt, "by_route": {}, "by_status": {}, "by_family": {}, "reached_handler": 0, "not_reached": 0,
            "accepted_202": 0, "enqueued_messages": 0, "py_oracle_judged": 0}
    groups = {}   # (scenario, route) -> list of (case, io)
    route_infos = {}
    selected = {}
    for si, (s, im) in enumerate(zip(scen, impl)):
        if im.get("err"):
            raise RuntimeError("scenario %s: %s" % (s["name"], im["err"]))
        for st, io in zip(s["steps"], im["steps"]):
            if st["op"] == "load":
                if not io["load_ok"]:
                    raise RuntimeError("config did not load: %s" % io.get("load_err"))
                route_infos[si] = {r["path"]: r for r in io["routes"]}
                if s["name"] == scen[0]["name"]:
                    for rp, want in EXPECT_AUTH.items():
                        r = route_infos[si].get(rp)
                        got = None if r is None else ("hmac" if r["hmac"] else "basic" if r["basic"] else "forward" if r["forward"] else None)
                        basic_got = None if r is None else {bytes.fromhex(u).decode(): bytes.fromhex(pw).decode() for u, pw in (r["basic"] or {}).items()}
                        if r is None or got != want or (want == "basic" and basic_got != EXPECT_BASIC[rp]) or \
                                (want == "hmac" and sorted(bytes.fromhex(x) for x in (r["static_secrets"] or [])) != sorted(STATIC[rp])):
                            C.report(ctx, "auth-requirement-lost-in-compile:%s" % rp,
                                     "route %s is configured with %s authentication, the compiled runtime configuration says %s" % (rp, want, got if r is not None else "no such route"),
                                     {"kind": "program", "case": {"config": text, "route": rp}, "observed": r, "expected": {"auth": want}})
                continue
            if st["op"] == "select":
                selected[json.loads(st["wire"])["route"]] = io["selected"]
                continue
            c = st["_c"]
            evaluations += 1
            dist["by_status"][str(io["status"])] = dist["by_status"].get(str(io["status"]), 0) + 1
            fam = re.split(r"[-+]", c["tag"])[0]
            dist["by_family"][fam] = dist["by_family"].get(fam, 0) + 1
            delta = io["total_after"] - io["total_before"]
            ok_calls = [x for x in io["calls"] if x["ok"]]
            replay_obj = {"kind": "request", "case": strip({k: v for k, v in c.items() if k != "wire"}), "wire_b64": G.b64(c["wire"]),
                          "observed": {"status": io["status"], "queue_delta": delta, "enqueue_calls": io["calls"], "parsed": io.get("parsed"), "fwd": io.get("fwd")},
                          "how_to_replay": "./check C08 --replay <this file>"}
            # -- property, judged directly on what the implementation did
            if c.get("hangup"):
                # no status can be observed; the auth service never answered 2xx, so the queue must be untouched
                dist["hangup_cases"] = dist.get("hangup_cases", 0) + 1
                if io["status"] == -8:
                    C.report(ctx, "forward-call:%s" % c["tag"], "the auth service was never asked", replay_obj)
                if delta != 0 or io["calls"]:
                    C.report(ctx, "forged-accepted:%s" % c["tag"],
                             "the caller hung up while the forward-auth service was deciding (it answered %s 150 ms later): %d message(s) were enqueued (%d "
                             "Store.Enqueue calls) although the auth service never answered 2xx" % (c["fwd"][4:], delta, len(io["calls"])), replay_obj)
                continue
            if len(ok_calls) != delta or len(io["new_items"]) != delta:
                C.report(ctx, "queue-accounting:%s" % c["tag"], "successful Store.Enqueue calls (%d), listing delta (%d) and Stats delta (%d) disagree" % (
                    len(ok_calls), len(io["new_items"]), delta), replay_obj)
            if io["status"] != 202 and delta != 0 and not (c["fail_at"] > 1 and io["status"] == 503):
                C.report(ctx, "enqueue-without-202:%s" % c["tag"], "status %d but %d message(s) were enqueued" % (io["status"], delta), replay_obj)
            if not io["reached"]:
                dist["not_reached"] += 1
                if io["status"] == 202 or delta != 0:
                    C.report(ctx, "accepted-unparsed:%s" % c["tag"], "request never reached the handler yet status %d, queue delta %d" % (io["status"], delta), replay_obj)
                continue
            dist["reached_handler"] += 1
            p = io["parsed"]
            p["headers"] = {k: [bytes.fromhex(x).decode("latin-1") for x in vs] for k, vs in p["headers"].items()}
            p["method"] = bytes.fromhex(p["method_hex"]).decode("latin-1")
            p["url_path"] = bytes.fromhex(p["url_path_hex"]).decode("latin-1")
            p["clean_path"] = bytes.fromhex(p["clean_path_hex"]).decode("latin-1")
            route = p["route"] if p["route_ok"] else None
            dist["by_route"][str(route)] = dist["by_route"].get(str(route), 0) + 1
            ri = route_infos[si].get(route) if route else None
            if io["status"] == 202:
                dist["accepted_202"] += 1
                dist["enqueued_messages"] += delta
                why = None
                if ri is None:
                    why = "no route resolved"
                else:
                    dist["py_oracle_judged"] += 1
                    if ri["basic"]:
                        why = py_basic_valid(ri["basic"], p)
                    if why is None and ri["forward"]:
                        if FWD_CLASS.get(c["fwd"] or "200") != "F2xx" or route == "/fwdclosed":
                            why = "auth service did not answer 2xx (%s)" % (c["fwd"] or "closed port")
                        elif not io["fwd"]:
                            why = "auth service was never asked"
                    if why is None and ri["hmac"]:
                        why = py_hmac_valid(route, versions, p, c["body"], c["now"])
                    want_targets = ri["targets"] or ["pull"]
                    got_targets = [x["target"] for x in io["new_items"]]
                    if why is None and got_targets != want_targets:
                        why = "enqueued targets %s, route has %s" % (got_targets, want_targets)
                    if why is None and any(x["payload_sha"] != hashlib.sha256(c["body"]).hexdigest() for x in io["new_items"]):
                        why = "enqueued payload is not the request body"
                if why is not None:
                    C.report(ctx, "forged-accepted:%s" % c["tag"], "202 + enqueue for a request that does not authenticate: %s" % why, replay_obj)
            # -- prepare the model's inputs
            c["_fwd_class"] = "FUnreachable" if route == "/fwdclosed" else FWD_CLASS.get(c["fwd"] or "200", "FOther")
            c["_rate_ok"] = io["status"] != 429
            extra = {}
            if route == "/fwd" and c["fwd"] == "200hdr":
                extra = {"X-User-Id": "u-17", "X-Org-Id": "o-1,o-2"}
            c["_hdr_fit"] = hdr_fit(p, ri["max_header"], extra) if ri else True
            if ri and ri["forward"] and io["status"] not in (429,) and route == "/fwd":
                # validate the oracle: the scripted service saw exactly one call and answered as scripted
                if len(io["fwd"]) != 1 or io["fwd"][0]["answer"] != (c["fwd"] or "200") or io["fwd"][0]["orig_path"] != p["clean_path"]:
                    C.report(ctx, "forward-call:%s" % c["tag"], "forward-auth service saw %s" % io["fwd"], replay_obj)
            # library twins: path.Clean
            if p["clean_path"] != G.path_clean(p["url_path"]):
                C.report(ctx, "twin-path-clean", "path.Clean(%r) = %r, Python twin %r" % (p["url_path"], p["clean_path"], G.path_clean(p["url_path"])), replay_obj)
            groups.setdefault((si, route), []).append((c, io, replay_obj))

    # ---- model
    keys = sorted(groups.keys(), key=lambda k: (k[0], str(k[1])))
    bodies = [coq_group(route_infos[k[0]].get(k[1]) if k[1] else None, versions, [(c, io) for c, io, _ in groups[k]]) for k in keys]
    results = C.coq_eval_shards(ctx, "c08m", bodies)
    ctx.notes.append("t_model=%.1f" % ctx.wall())
    mism = 0
    for k, (crc, cout) in zip(keys, results):
        rows = G.parse_rows(cout, "R") if crc == 0 else None
        if rows is None or len(rows) != len(groups[k]):
            raise RuntimeError("model evaluation failed for group %s: %s" % (k, cout[-1500:]))
        for (c, io, ro), (mst, menq) in zip(groups[k], rows):
            delta = io["total_after"] - io["total_before"]
            if mst != io["status"] or menq != delta:
                mism += 1
                C.report(ctx, "model-mismatch:%s" % c["tag"], "route %s: implementation answered %d and enqueued %d; model (handler order + Verify as written) says %d / %d" % (
                    k[1], io["status"], delta, mst, menq), dict(ro, expected={"status": mst, "enqueued": menq}))
            if io["status"] in (202, 401, 403, 503, 413, 400, 429):
                nontrivial.add(C.sha([str(k[1]), c["tag"], c["wire"].hex()]))
            if len(samples) < 8 and c["tag"] in ("clock+300000000000", "bit-sig", "window", "basic-pass-prefix", "fwd-hang", "fanout-fail-at-2", "ts-spelling", "path-raw-signed"):
                if not any(s["tag"] == c["tag"] for s in samples):
                    samples.append({"tag": c["tag"], "route": k[1], "now": c["now"], "request_head": c["wire"][:220].decode("latin-1"),
                                    "status": io["status"], "enqueued": delta, "model": [mst, menq]})

    # ---- the secret-selection closure built by loadAuth vs Model.secrets_at
    I = G.Intern()
    for rt in ("/rot", "/rot2", "/hm"):
        ri = route_infos[0][rt]
        cfg = {"sig": ri["sig_header"], "ts": ri["ts_header"], "nonce": ri["nonce_header"], "tol": ri["tolerance"],
               "static": [bytes.fromhex(s) for s in (ri["static_secrets"] or [])], "versions": versions.get(rt, [])}
        want = [sorted(bytes.fromhex(x) for x in row) for row in selected[rt]]
        got = [sorted(py_secrets_at(rt, versions, t * SEC)) for t in rot_points]
        evaluations += len(rot_points)
        if want != got:
            C.report(ctx, "secret-selection:%s" % rt, "SelectSecrets built by loadAuth returns %s, expected (valid_from <= t < valid_until, then inline) %s" % (want, got),
                     {"kind": "request", "route": rt, "instants": rot_points, "observed": selected[rt]})

    # ---- library twins and crypto, Go vs Gallina, on every generated header value / body / signed string
    vals = set()
    for c in cases:
        for _, v in c["headers"]:
            vals.add(v if isinstance(v, bytes) else v.encode("latin-1", "replace"))
    vals |= {b"", b" ", b"\t\n\x0b\x0c\r x \r\n", b"\xc2\x85a\xc2\xa0", b"\xe1\x9a\x80b\xe2\x80\x8a", b"\xe2\x80\x8bc", b"\xe3\x80\x80d\xe2\x81\x9f",
             b"\xe2\x80\xa8e\xe2\x80\xa9\xe2\x80\xaf", b"\x80f", b"g\xc2", b"\xe2\x80", b"+12", b"-0012", b"12a", b"ABCDEF", b"abcdeg", b"0", b"00", b"AbCd",
             b"Basic QQ==", b"Basic Q===", b"Basic QUI=", b"Basic QUJD", b"Basic QUJDRA==", b"Basic QTpC", b"Basic QTpCOkM=", b"Basic =QTpC", b"Basic QT pC",
             b"bAsIc QTpC", b"Basic QTpC\n", b"Basic QTp", b"Basic Q-pC", b"Basic Q_pC"}
    vals = sorted(vals)
    rc, out, err = C.harness_run(info["hbin"], ["lib-twins"], [v.hex() for v in vals])
    if rc != 0:
        raise RuntimeError("lib-twins failed: " + err[-1000:])
    go_tw = json.loads(out)
    shas = sorted({c["body"] for c in cases})[:60 if ctx.tier == "quick" else 400]
    hm = []
    for c in cases:
        if c["route"] in STATIC and c["tag"].startswith(("clock", "body-shape", "window", "path-cleaned")):
            ts_v = [v for k, v in c["headers"] if G.canonical_header(k if isinstance(k, str) else k.decode()) in (G.canonical_header(NAMES.get(c["route"], DEFAULT_NAMES)[1]),)]
            if ts_v and isinstance(ts_v[0], str):
                key = (STATIC[c["route"]] or [b"v1"])[0]
                hm.append((key, G.string_to_sign(ts_v[0].strip(), c["method"], G.path_clean(c["target"].split("?")[0]) if isinstance(c["target"], str) else "/", c["body"])))
    hm = hm[:40 if ctx.tier == "quick" else 300] + [(b"k" * 64, b"m"), (b"k" * 65, b"m" * 64), (b"\x00", b"")]
    rc, out, err = C.harness_run(info["hbin"], ["crypto-vectors"], {"sha": [m.hex() for m in shas], "hmac": [[k.hex(), m.hex()] for k, m in hm]})
    if rc != 0:
        raise RuntimeError("crypto-vectors failed: " + err[-1000:])
    go_cv = json.loads(out)
    nsh = 4
    sh_chunks = [shas[i::nsh] for i in range(nsh)]
    hm_chunks = [hm[i::nsh] for i in range(nsh)]
    tw = twins_coq(vals, None, None)
    # secrets_code needs the cfg inside the same file as its interned names
    I2 = G.Intern()
    cfg_txt = G.coq_hmac_cfg(I2, {"sig": "a", "ts": "b", "nonce": "c", "tol": 1, "static": [b"inl"], "versions": versions["/rot"]})
    tw = tw.replace("Import ListNotations.", "Import ListNotations.\n" + I2.preamble().replace("Definition b", "Definition rb"), 1)
    cfg_txt = re.sub(r"\bb(\d+)\b", r"rb\1", cfg_txt)
    tw += "Definition RS := Eval vm_compute in map (secrets_code %s) %s.\nPrint RS.\n" % (cfg_txt, G.clist(G.cz(t * SEC) for t in rot_points))
    comp = compile_cases(rng, 150 if ctx.tier == "quick" else 1500)
    rc, out, err = C.harness_run(info["hbin"], ["compile-check"], [compile_text(ra) for ra in comp])
    if rc != 0:
        raise RuntimeError("compile-check failed: " + err[-1000:])
    go_cc = json.loads(out)
    res = C.coq_eval_shards(ctx, "c08t", [tw] + [crypto_coq(a, b) for a, b in zip(sh_chunks, hm_chunks)] + [compile_coq(comp)])
    ctx.notes.append("t_twins=%.1f" % ctx.wall())
    trc, tout = res[0]
    if trc != 0:
        raise RuntimeError("twin evaluation failed: " + tout[-1500:])
    RT, RI, RH, RB, RS = (G.parse_rows(tout, m) for m in ("RT", "RI", "RH", "RB", "RS"))
    tw_bad = 0
    for v, g, rt_, ri_, rh_, rb_ in zip(vals, go_tw, RT, RI, RH, RB):
        evaluations += 1
        tr = bytes.fromhex(g["trim"])
        exp = [(len(tr), w(tr)), (1, g["int"]) if g["int_ok"] else (0, 0),
               (1, len(bytes.fromhex(g["hex"])), w(bytes.fromhex(g["hex"]))) if g["hex_ok"] else (0, 0, 0),
               (1, len(bytes.fromhex(g["user"])), w(bytes.fromhex(g["user"])), len(bytes.fromhex(g["pass"])), w(bytes.fromhex(g["pass"]))) if g["basic_ok"] else (0, 0, 0, 0, 0)]
        got = [tuple(rt_), tuple(ri_), tuple(rh_), tuple(rb_)]
        if exp != got or tr != G.trim_space(v) or bytes.fromhex(g["canon"]).decode("latin-1") != G.canonical_header(v.decode("latin-1")):
            tw_bad += 1
            C.report(ctx, "library-twin", "Go library and model twin disagree on %r: Go (trim, ParseInt, hex, BasicAuth) = %s, model = %s" % (v, exp, got),
                     {"kind": "request", "value_hex": v.hex(), "go": g, "model": got})
    want_rs = [(len(row), sum(w(bytes.fromhex(x)) for x in row)) for row in selected["/rot"]]
    if [tuple(x) for x in RS] != want_rs:
        C.report(ctx, "secret-selection-model", "Model.secrets_at and the SelectSecrets closure disagree: model %s, Go %s" % (RS, want_rs),
                 {"kind": "request", "instants": rot_points, "go": selected["/rot"]})
    for ci, (crc, cout) in enumerate(res[1:1 + nsh]):
        if crc != 0:
            raise RuntimeError("crypto evaluation failed: " + cout[-1500:])
        rs, rm = G.parse_rows(cout, "RS") or [], G.parse_rows(cout, "RM") or []
        go_s = go_cv["sha"][ci::nsh]
        go_m = go_cv["hmac"][ci::nsh]
        for m, gs, ms in zip(sh_chunks[ci], go_s, rs):
            evaluations += 1
            if w(bytes.fromhex(gs)) != ms[0] or gs != hashlib.sha256(m).hexdigest():
                C.report(ctx, "crypto-oracle-sha256", "Gallina SHA-256 differs from crypto/sha256 on a %d-byte input" % len(m), {"kind": "request", "input_hex": m.hex(), "go": gs})
        for (k_, m), gm, mm in zip(hm_chunks[ci], go_m, rm):
            evaluations += 1
            if w(bytes.fromhex(gm)) != mm[0] or gm != pyhmac.new(k_, m, hashlib.sha256).hexdigest():
                C.report(ctx, "crypto-oracle-hmac", "Gallina HMAC-SHA256 differs from crypto/hmac (key %d bytes, message %d bytes)" % (len(k_), len(m)),
                         {"kind": "request", "key_hex": k_.hex(), "input_hex": m.hex(), "go": gm})
    crc, cout = res[-1]
    rows = G.parse_rows(cout, "R") if crc == 0 else None
    if rows is None or len(rows) != len(comp):
        raise RuntimeError("compile model evaluation failed: " + cout[-1500:])
    cc = {"parse_failed": 0, "compile_ok": 0, "compile_refused": 0}
    for ra, g, (m,) in zip(comp, go_cc, rows):
        evaluations += 1
        if not g["parse_ok"]:
            cc["parse_failed"] += 1
            if m == 1:
                C.report(ctx, "compile-rules:parse", "the parser refuses a route auth section the modelled Compile rules accept: %s" % g["errors"][:2],
                         {"kind": "program", "case": ra, "config": compile_text(ra), "observed": g})
            continue
        cc["compile_ok" if g["compile_ok"] else "compile_refused"] += 1
        if bool(m) != g["compile_ok"]:
            C.report(ctx, "compile-rules", "config.Compile %s an auth section the modelled rules %s: %s" % (
                "accepts" if g["compile_ok"] else "refuses", "refuse" if g["compile_ok"] else "accept", g["errors"][:3]),
                {"kind": "program", "case": ra, "config": compile_text(ra), "observed": g, "expected_compile_ok": bool(m)})
    dist["compile_cases"] = cc
    dist["library_twin_values"] = len(vals)
    dist["crypto_vectors"] = len(shas) + len(hm)
    dist["secrets_only_reloads"] = secrets_only_reloads(ctx, info)
    evaluations += dist["secrets_only_reloads"]["requests"]

    cov.update({
        "evaluations": evaluations,
        "distinct_nontrivial": len(nontrivial),
        "rule": "non-trivial = distinct request (by hash of route, family and raw bytes) that reached the handler and was decided by an authentication, limit or store stage (status 202/401/403/503/413/400/429)",
        "samples": samples,
        "traces_validated_against_impl": dist["reached_handler"],
        "model_impl_mismatches": mism,
        "input_distribution": dist,
    })
    return C.conclude(ctx, info, cov, assumptions, searched_note="request families (mutations of valid signed requests, clock edges, secret windows, Basic near-misses, forward-auth behaviours, fan-out) were run and showed no property failure")


def hash_str(x):
    return int(hashlib.sha1(repr(x).encode()).hexdigest()[:8], 16)
