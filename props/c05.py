"""C05 - queue family check (see lib/queuefam.py) + a consumer that is already waiting inside a long-polling dequeue."""
import json
import os

from lib import common as C
from lib import queuefam


def long_poll(ctx, info, rng, *rest):
    """the queue model has no waiting calls (a long poll is a sequence of dequeue attempts); that every attempt of the wait looks at
    the queue as it is then - expired leases released, matured delays due, new messages - is judged on the stores directly"""
    d = os.path.join(ctx.scratch, "lp")
    os.makedirs(d, exist_ok=True)
    rc, out, err = C.harness_run(info["hbin"], ["long-poll"], {"dir": d, "max_wait_ms": 600}, timeout=120)
    if rc != 0:
        raise RuntimeError("long-poll failed: " + err[-1500:])
    rows = json.loads(out)["rows"]
    for r in rows:
        want = 0 if r["scenario"] == "nothing-becomes-ready" else 1
        if r.get("err") or r["items"] != want:
            C.report(ctx, "long-poll:%s:%s" % (r["backend"], r["scenario"]),
                     "a dequeue waiting with max_wait 600 ms returned %s item(s) after %d ms (%s); a message became ready 40 ms into the wait "
                     "(%s): want %d" % (r["items"], r["waited_ms"], r.get("err") or "no error", r["scenario"], want),
                     {"kind": "history", "case": {"backend": r["backend"], "scenario": r["scenario"], "max_wait_ms": 600,
                                                  "calls": ["(set-up: enqueue / lease with ttl 50 ms / nack with delay 50 ms)", "clock +20 ms", "Dequeue(batch 5, max_wait 600 ms) starts",
                                                            "40 ms later: clock +1 s (lease expires / delay matures) or Enqueue"]},
                      "observed": r})
    return {"long_poll": {"cases": len(rows), "waited_ms": {"%s:%s" % (r["backend"], r["scenario"]): r["waited_ms"] for r in rows}}}


def main(ctx, replay):
    return queuefam.run_property(ctx, "C05", 150, 3000, extra=long_poll)
