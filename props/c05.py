"""C05 - queue family check (see lib/queuefam.py) + a consumer that is already waiting inside a long-polling dequeue."""
import json
import os

from lib import common as C
from lib import queuefam


def long_poll(ctx, info, rng, *rest):
    """the queue model has no waiting calls (a long poll is a sequence of dequeue attempts); that every attempt of the wait looks at
    the queue as it is then - expired leases released, matured delays due, new messages - is judged on the stores directly"""
    d = os.path.join(ctx.scratch, "lp")
    os.makedirs(d, exist_ok=True)
    rc, out, err = C.harness_run(info["hbin"], ["long-poll"], {"dir": d, "max_wait_ms": 600}, timeout=120)
    if rc != 0:
        raise RuntimeError("long-poll failed: " + err[-1500:])
    rows = json.loads(out)["rows"]
    for r in rows:
        want = 0 if r["scenario"] == "nothing-becomes-ready" else 1
        if r.get("err") or r["items"] != want:
            C.report(ctx, "long-poll:%s:%s" % (r["backend"], r["scenario"]),
                     "a dequeue waiting with max_wait 600 ms returned %s item(s) after %d ms (%s); a message became ready 40 ms into the wait "
                     "(%s): want %d" % (r["items"], r["waited_ms"], r.get("err") or "no error", r["scenario"], want),
                     {"kind": "history", "case": {"backend": r["backend"], "scenario": r["scenario"], "max_wait_ms": 600,
                                                  "calls": ["(set-up: enqueue / lease with ttl 50 ms / nack with delay 50 ms)", "clock +20 ms", "Dequeue(batch 5, max_wait 600 ms) starts",
                                                            "40 ms later: clock +1 s (lease expires / delay matures) or Enqueue"]},
                      "observed": r})
    return {"long_poll": {"cases": len(rows), "waited_ms": {"%s:%s" % (r["backend"], r["scenario"]): r["waited_ms"] for r in rows}}}


def bulk_ready(ctx, info, rng):
    """hundreds / thousands of messages becoming ready at one instant (leases running out together, also across a restart; nack delays and
    scheduled deliveries maturing together): each of the next dequeues, a millisecond or a microsecond apart, returns min(batch, ready)
    (Theorem C05_dequeue_count: the closed form, no model evaluation needed), every message is offered again exactly once"""
    d = os.path.join(ctx.scratch, "br")
    os.makedirs(d, exist_ok=True)
    sizes = [501, 640, 1300] if ctx.tier == "quick" else [501, 777, 1300, 2600, 5200]
    cases = []
    for backend in ("memory", "sqlite"):
        for scen in ("lease-expires", "restart-then-expires", "nack-delay-matures", "scheduled-matures"):
            if scen == "restart-then-expires" and backend == "memory":
                continue
            for n in (sizes if scen in ("lease-expires", "restart-then-expires") else sizes[:2]):
                cases.append({"backend": backend, "scenario": scen, "n": n, "batch": rng.choice([100, 100, 64]), "step_ns": rng.choice([1000, 10 ** 6, 10 ** 6])})
    rc, out, err = C.harness_run(info["hbin"], ["bulk-ready"], {"dir": d, "cases": cases}, timeout=900)
    if rc != 0:
        raise RuntimeError("bulk-ready failed: " + err[-1500:])
    outs = json.loads(out)["cases"]
    for c, o in zip(cases, outs):
        want, left = [], c["n"]
        for _ in range((c["n"] + c["batch"] - 1) // c["batch"] + 1):
            k = min(c["batch"], left)
            want.append(k)
            left -= k
        if o.get("err") or o["counts"] != want or o["distinct"] != c["n"]:
            first = next((i for i, (a, b) in enumerate(zip(o.get("counts") or [], want)) if a != b), None)
            C.report(ctx, "bulk-ready:%s:%s" % (c["backend"], c["scenario"]),
                     "%d messages became ready at the same instant (%s); the following dequeues (batch %d, %d ns apart) returned %s items, "
                     "min(batch, ready) is %s (first difference at dequeue %s; %d distinct messages re-offered of %d; %s)" %
                     (c["n"], c["scenario"], c["batch"], c["step_ns"], o.get("counts"), want, first, o.get("distinct", 0), c["n"], o.get("err") or "no error"),
                     {"kind": "history", "case": c, "observed": o, "expected_counts": want})
    return {"bulk_ready": {"cases": len(cases), "sizes": sizes, "scenarios": sorted({c["scenario"] for c in cases})}}


def extras(ctx, info, rng, *rest):
    cov = long_poll(ctx, info, rng)
    cov.update(bulk_ready(ctx, info, rng))
    return cov


def main(ctx, replay):
    return queuefam.run_property(ctx, "C05", 150, 3000, extra=extras)
