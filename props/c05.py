"""C05 - queue family check (see lib/queuefam.py) + a consumer that is already waiting inside a long-polling dequeue."""
import json
import os

from lib import common as C
from lib import queuefam


def long_poll(ctx, info, rng, *rest):
    """the queue model has no waiting calls (a long poll is a sequence of dequeue attempts); that every attempt of the wait looks at
    the queue as it is then - expired leases released, matured delays due, new messages - is judged on the stores directly"""
    d = os.path.join(ctx.scratch, "lp")
    os.makedirs(d, exist_ok=True)
    rc, out, err = C.harness_run(info["hbin"], ["long-poll"], {"dir": d, "max_wait_ms": 600}, timeout=120)
    if rc != 0:
        raise RuntimeError("long-poll failed: " + err[-1500:])
    rows = json.loads(out)["rows"]
    for r in rows:
        want = 0 if r["scenario"] == "nothing-becomes-ready" else 1
        if r.get("err") or r["items"] != want:
            C.report(ctx, "long-poll:%s:%s" % (r["backend"], r["scenario"]),
                     "a dequeue waiting with max_wait 600 ms returned %s item(s) after %d ms (%s); a message became ready 40 ms into the wait "
                     "(%s): want %d" % (r["items"], r["waited_ms"], r.get("err") or "no error", r["scenario"], want),
                     {"kind": "history", "case": {"backend": r["backend"], "scenario": r["scenario"], "max_wait_ms": 600,
                                                  "calls": ["(set-up: enqueue / lease with ttl 50 ms / nack with delay 50 ms)", "clock +20 ms", "Dequeue(batch 5, max_wait 600 ms) starts",
                                                            "40 ms later: clock +1 s (lease expires / delay matures) or Enqueue"]},
                      "observed": r})
    # the same four situations on Model/LongPoll.v: an attempt on entry (clock +20 ms) and one after the change, the deadline attempt last
    body = """From Coq Require Import ZArith List NArith.
From HK Require Import Model.Queue Model.LongPoll.
Import ListNotations.
Open Scope Z_scope.
Definition c0 := mkCfg 0 false 0 0 0 0 0 0.
Definition o0 := mkOracle [] [] [] [].
Definition ms := 1000000.
Definition b := 1700000000000000000.
Definition e1 := mkEnq (Some 1%N) 1 1 None None 0 0 0.
Definition e2 := mkEnq (Some 2%N) 1 1 None None 0 0 0.
Definition pre (fl : flavour) (k : nat) : state :=
  snd (run fl c0 init (match k with
    | O => [(Enqueue b e1, o0); (Dequeue b (Some 1%N) (Some 1%N) 1 (50 * ms), mkOracle [(1%N, 9%N)] [] [] [])]
    | S O => [(Enqueue b e1, o0); (Dequeue b (Some 1%N) (Some 1%N) 1 (60000 * ms), mkOracle [(1%N, 9%N)] [] [] []);
              (LeaseOp b (KNack (50 * ms)) (LKnown 9%N false), o0)]
    | _ => [] end)).
Definition ats (k : nat) : list attempt :=
  match k with
  | O | S O => [mkAttempt [] (b + 20 * ms) o0; mkAttempt [] (b + 1000 * ms) (mkOracle [(1%N, 10%N)] [] [] []); mkAttempt [] (b + 1600 * ms) o0]
  | S (S O) => [mkAttempt [] (b + 20 * ms) o0; mkAttempt [(Enqueue (b + 20 * ms) e2, o0)] (b + 20 * ms) (mkOracle [(2%N, 10%N)] [] [] []); mkAttempt [] (b + 620 * ms) o0]
  | _ => [mkAttempt [] (b + 20 * ms) o0; mkAttempt [] (b + 45 * ms) o0; mkAttempt [] (b + 620 * ms) o0]
  end.
Definition count (r : option res) : Z := match r with Some (RItems l) => Z.of_nat (length l) | _ => -1 end.
Definition R := Eval vm_compute in
  map (fun fl => map (fun k => (count (snd (long_poll fl c0 (Some 1%N) (Some 1%N) 5 (60000 * ms) (pre fl k) (ats k))),
                                Z.of_nat (attempts_made fl c0 (Some 1%N) (Some 1%N) 5 (60000 * ms) (pre fl k) (ats k)))) [0; 1; 2; 3]%nat) [Mem; Sql].
Print R.
"""
    model = None
    if info.get("coq_ok"):
        crc, cout = C.coq_eval_cases(ctx, "c05longpoll", body, timeout=300)
        pairs = __import__("re").findall(r"\((-?\d+),\s*(-?\d+)\)", " ".join(cout.split())) if crc == 0 else []
        if len(pairs) == 8:
            model = [(int(a), int(b_)) for a, b_ in pairs]
        else:
            ctx.notes.append("long-poll model evaluation failed: " + cout[-400:])
    mism = 0
    if model is not None:
        order = ["lease-expires", "nack-delay-matures", "enqueued", "nothing-becomes-ready"]
        for r in rows:
            k = order.index(r["scenario"]) + (0 if r["backend"] == "memory" else 4)
            m_items, m_attempts = model[k]
            if not r.get("err") and r["items"] != m_items:
                mism += 1
                C.report(ctx, "long-poll-model:%s:%s" % (r["backend"], r["scenario"]),
                         "the waiting dequeue returned %d item(s); Model/LongPoll.v (attempt on entry, attempt after the change, deadline attempt) returns %d after %d attempts" %
                         (r["items"], m_items, m_attempts), {"kind": "history", "case": {"backend": r["backend"], "scenario": r["scenario"]}, "observed": r,
                                                            "expected": {"items": m_items, "attempts": m_attempts}})
    return {"long_poll": {"cases": len(rows), "waited_ms": {"%s:%s" % (r["backend"], r["scenario"]): r["waited_ms"] for r in rows},
                          "model": model, "model_mismatches": mism}}


def bulk_ready(ctx, info, rng):
    """hundreds / thousands of messages becoming ready at one instant (leases running out together, also across a restart; nack delays and
    scheduled deliveries maturing together): each of the next dequeues, a millisecond or a microsecond apart, returns min(batch, ready)
    (Theorem C05_dequeue_count: the closed form, no model evaluation needed), every message is offered again exactly once"""
    d = os.path.join(ctx.scratch, "br")
    os.makedirs(d, exist_ok=True)
    sizes = [501, 640, 1300] if ctx.tier == "quick" else [501, 777, 1300, 2600, 5200]
    cases = []
    for backend in ("memory", "sqlite"):
        for scen in ("lease-expires", "restart-then-expires", "nack-delay-matures", "scheduled-matures"):
            if scen == "restart-then-expires" and backend == "memory":
                continue
            for n in (sizes if scen in ("lease-expires", "restart-then-expires") else sizes[:2]):
                cases.append({"backend": backend, "scenario": scen, "n": n, "batch": rng.choice([100, 100, 64]), "step_ns": rng.choice([1000, 10 ** 6, 10 ** 6])})
    rc, out, err = C.harness_run(info["hbin"], ["bulk-ready"], {"dir": d, "cases": cases}, timeout=900)
    if rc != 0:
        raise RuntimeError("bulk-ready failed: " + err[-1500:])
    outs = json.loads(out)["cases"]
    for c, o in zip(cases, outs):
        want, left = [], c["n"]
        for _ in range((c["n"] + c["batch"] - 1) // c["batch"] + 1):
            k = min(c["batch"], left)
            want.append(k)
            left -= k
        if o.get("err") or o["counts"] != want or o["distinct"] != c["n"]:
            first = next((i for i, (a, b) in enumerate(zip(o.get("counts") or [], want)) if a != b), None)
            C.report(ctx, "bulk-ready:%s:%s" % (c["backend"], c["scenario"]),
                     "%d messages became ready at the same instant (%s); the following dequeues (batch %d, %d ns apart) returned %s items, "
                     "min(batch, ready) is %s (first difference at dequeue %s; %d distinct messages re-offered of %d; %s)" %
                     (c["n"], c["scenario"], c["batch"], c["step_ns"], o.get("counts"), want, first, o.get("distinct", 0), c["n"], o.get("err") or "no error"),
                     {"kind": "history", "case": c, "observed": o, "expected_counts": want})
    return {"bulk_ready": {"cases": len(cases), "sizes": sizes, "scenarios": sorted({c["scenario"] for c in cases})}}


def other_store_visibility(ctx, info, rng):
    """two store objects on one SQLite file (the gateway and `hookaido mcp` in direct mode, or two gateways): a message made ready through
    the OTHER object - enqueued, requeued from the DLQ, nacked, or leased by a process that died - is returned by this object's next
    dequeue (exactly min(batch, ready), attempt counter as the model gives it), however long this object has been polling an empty queue"""
    d = os.path.join(ctx.scratch, "tv")
    cases = [{"scenario": sc, "polls": p} for sc in ("other-enqueues", "other-leases-and-dies", "other-requeues-dead", "other-nacks") for p in (0, 1, 3)]
    rc, out, err = C.harness_run(info["hbin"], ["two-stores-visibility"], {"dir": d, "cases": cases}, timeout=300)
    if rc != 0:
        raise RuntimeError("two-stores-visibility failed: " + err[-1500:])
    want_attempt = {"other-enqueues": 1, "other-leases-and-dies": 2, "other-requeues-dead": 2, "other-nacks": 2}
    for c, o in zip(cases, json.loads(out)["cases"]):
        if o.get("err") or o.get("got") != ["evt_1"] or o.get("attempts") != [want_attempt[c["scenario"]]] or any(o.get("before") or []):
            C.report(ctx, "other-store:%s" % c["scenario"],
                     "after %d empty polls by this store object, the other store object on the same file made evt_1 ready (%s); this object's next dequeue "
                     "returned %s with attempts %s (%s); want ['evt_1'] with attempt %d" %
                     (c["polls"], c["scenario"], o.get("got"), o.get("attempts"), o.get("err") or "no error", want_attempt[c["scenario"]]),
                     {"kind": "history", "case": c, "observed": o})
    return {"other_store_visibility": {"cases": len(cases)}}


def schedule_horizon(ctx, info, rng):
    """instants outside the int64 nanosecond range (the Admin publish API accepts any RFC 3339 next_run_at / received_at): the queue model
    is over unbounded integers, so these are judged on the stores directly - a message scheduled for the year 2263 / 2300 / 9999 is not
    offered today, and under drop_oldest the message received in 1600 is the oldest"""
    d = os.path.join(ctx.scratch, "sh")
    os.makedirs(d, exist_ok=True)
    rc, out, err = C.harness_run(info["hbin"], ["schedule-horizon"], {"dir": d, "now_ns": 1_790_000_000 * 10 ** 9, "years": [2100, 2262, 2263, 2300, 9999],
                                                                    "old_years": [1970, 1700, 1677, 1600, 1000]}, timeout=120)
    if rc != 0:
        raise RuntimeError("schedule-horizon failed: " + err[-1500:])
    rows = json.loads(out)["rows"]
    for r in rows:
        if r["case"].startswith("next_run_at"):
            if r.get("err") or r["offered_now"] != 0 or r["state"] != "queued" or not r["next_after_now"]:
                C.report(ctx, "schedule-beyond-int64-horizon:%s" % r["backend"],
                         "a message enqueued with %s (1 January of that year) on the %s store: a dequeue at the current clock returned %d item(s), the message is %s, its "
                         "listed next_run_at is %s the clock (%s) - a message scheduled for the future is not offered before its time" %
                         (r["case"], r["backend"], r["offered_now"], r["state"], "after" if r["next_after_now"] else "NOT after", r.get("err") or "no error"),
                         {"kind": "history", "case": {"backend": r["backend"], "next_run_at_year": r["case"], "calls": ["Enqueue(next_run_at = 1 Jan of the year)", "Dequeue(batch 5) now"]},
                          "observed": r})
        elif r["case"].startswith("received_at-future"):
            if r.get("err") or r["evicted"] != "recent":
                C.report(ctx, "newest-beyond-int64-horizon:%s" % r["backend"],
                         "max_depth 2 drop_oldest on the %s store, messages received an hour ago and on %s (1 January of that year, in the future): a third enqueue "
                         "evicted %r (%s); the oldest queued message is the one received an hour ago" % (r["backend"], r["case"], r["evicted"], r.get("err") or "no error"),
                         {"kind": "history", "case": {"backend": r["backend"], "received_at_year": r["case"]}, "observed": r})
        else:
            if r.get("err") or r["evicted"] != "ancient":
                C.report(ctx, "oldest-beyond-int64-horizon:%s" % r["backend"],
                         "max_depth 2 drop_oldest on the %s store, messages received an hour ago and on %s (1 January of that year): a third enqueue evicted %r (%s); "
                         "the oldest queued message is the one with the earliest received_at" % (r["backend"], r["case"], r["evicted"], r.get("err") or "no error"),
                         {"kind": "history", "case": {"backend": r["backend"], "received_at_year": r["case"]}, "observed": r})
    return {"schedule_horizon": {"rows": len(rows)}}


def stale_lease_after_dequeue(ctx, fam):
    """judged on the stores alone, on every history of this run: once a dequeue has been served at instant t, no message is still held under
    a lease that ended at or before t - 10 ms (the lease-sweep granularity) - a lease that has run out is released by the next dequeue,
    whether or not that dequeue needed the message to fill its batch"""
    checked = 0
    for h, outs in fam.kept_outs:
        for out in outs:
            if out.get("fatal"):
                continue
            for k, (op, st) in enumerate(zip(h["ops"], out["steps"])):
                if op["op"] != "dequeue" or not st.get("has_snap") or (st["res"].get("err") or ""):
                    continue
                checked += 1
                stale = [r for r in st["snap"] if r["state"] == "leased" and r["until"] < op["now"] - 10 * 10 ** 6]
                if stale:
                    C.report(ctx, "expired-lease-still-held-after-dequeue:%s" % out["backend"],
                             "after a dequeue served at %d on the %s store, message %s is still leased under a lease that ended at %d (%d ns earlier): it has "
                             "not become ready within the sweep granularity and is hidden from consumers" % (op["now"], out["backend"], stale[0]["id"], stale[0]["until"],
                                                                                                          op["now"] - stale[0]["until"]),
                             {"kind": "history", "backend": out["backend"], "history": {"cfg": h["cfg"], "ops": h["ops"][:k + 1], "snap_every": 1}, "failing_step": k,
                              "observed": st["res"], "stored_after": st["snap"][:20]})
                    break
    return {"dequeues_checked_for_stale_leases": checked}


def extras(ctx, info, rng, *rest):
    cov = long_poll(ctx, info, rng)
    cov.update(bulk_ready(ctx, info, rng))
    cov.update(other_store_visibility(ctx, info, rng))
    cov.update(schedule_horizon(ctx, info, rng))
    # another process holds the write lock when the gateway polls: the refused dequeue must not cost the gateway its store
    from lib import twostores
    cov.update(twostores.run_busy(ctx, info))
    cov.update(twostores.run_dequeue_stress(ctx, info))
    if rest:
        cov.update(stale_lease_after_dequeue(ctx, rest[0]))
    return cov


def main(ctx, replay):
    return queuefam.run_property(ctx, "C05", 150, 3000, extra=extras, extra_prop_files=("C05poll",))
