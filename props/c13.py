"""C13 - queue backends are observationally equivalent.

Each backend is compared with the model of its own flavour (lib/queuefam.py), the Coq theorems
(Properties/C13.v) state where the two flavours of the model can differ at all, and the two real
stores are compared with each other directly, step by step, on the same history."""
import json
import re

from lib import common as C
from lib import pgtie
from lib import queuefam


def canon_id(row):
    i = row["id"]
    if i.startswith("evt_"):
        m = re.match(r"^body-(\d+)\x00", row.get("payload") or "")
        return "G%s" % (m.group(1) if m else "?")
    return i


def cross_compare(ctx, info, rng, fam, hs):
    """direct comparison memory vs sqlite on the histories of this run"""
    hs = [h for h, _ in fam.kept_outs]
    outs = [o for _, o in fam.kept_outs]
    compared = 0
    full = 0
    diverged_on_choice = 0
    ended_at_restart = 0
    steps = 0
    for h, (om, osq) in zip(hs, outs):
        if om.get("fatal") or osq.get("fatal"):
            continue
        compared += 1
        lease_name = [{}, {}]
        gen_name = [{}, {}]
        ended = False
        prev_snap = []
        for k, (op, sm, ss) in enumerate(zip(h["ops"], om["steps"], osq["steps"])):
            if op["op"] == "reopen":
                # a process restart is not a Store-interface call and means different things for the two backends
                # (SQLite: same rows, throttles reset; memory: nothing to reopen): the direct comparison ends here,
                # each backend is still compared with the model of its own flavour to the end of the history
                ended_at_restart += 1
                ended = True
                break
            steps += 1
            views = []
            for bi, st in enumerate((sm, ss)):
                res = st["res"]
                for r in res.get("items") or []:
                    lease_name[bi].setdefault(r["lease"], "L%d.%s" % (k, canon_id(r)))
                if st.get("has_snap"):
                    for r in st["snap"]:
                        if r["id"].startswith("evt_"):
                            gen_name[bi][r["id"]] = canon_id(r)

                def cid(x, bi=bi):
                    return gen_name[bi].get(x, x)

                def crow(r, bi=bi, with_lease=True):
                    d = {"id": canon_id(r), "route": r["route"], "target": r["target"], "state": r["state"], "recv": r["recv"],
                         "attempt": r["attempt"], "next": r["next"], "payload": r["payload"], "headers": r.get("headers") or {},
                         "trace": r.get("trace") or {}, "reason": r["reason"]}
                    if with_lease:
                        d["lease"] = lease_name[bi].get(r["lease"], r["lease"]) if r["lease"] else ""
                        d["until"] = r["until"]
                    return d
                v = {"err": (res.get("err") or "").split(":")[0], "count": res.get("count", 0), "matched": res.get("matched", 0),
                     "preview": res.get("preview", False), "succeeded": res.get("succeeded", 0), "total": res.get("total", 0),
                     "stats": res.get("stats") or {},
                     "items": sorted((json.dumps(crow(r), sort_keys=True) for r in res.get("items") or [])),
                     "listed": [json.dumps(crow(r, with_lease=False), sort_keys=True) for r in res.get("listed") or []],
                     "lookup": sorted(json.dumps([cid(x[0]), x[1], x[2]]) for x in res.get("lookup") or []),
                     "conflicts": sorted(json.dumps([lease_name[bi].get(c["lease"].strip(), c["lease"].strip()), c["expired"]]) for c in res.get("conflicts") or []),
                     "snap": sorted(json.dumps(crow(r), sort_keys=True) for r in st["snap"]) if st.get("has_snap") else None}
                if op["op"] in ("manage",) and op["kind"] in ("requeue_dead", "delete_dead"):
                    v["matched"] = 0
                views.append(v)
            a, b = views
            before_snap = prev_snap        # the stores agreed on it (or it is None before the first snapshot)
            if a == b:
                prev_snap = a["snap"] if a["snap"] is not None else prev_snap
                oa = [r["id"] for r in sm["res"].get("items") or []]
                ob = [r["id"] for r in ss["res"].get("items") or []]
                if [gen_name[0].get(x, x) for x in oa] != [gen_name[1].get(x, x) for x in ob]:
                    # same set, different order inside one dequeue result: a sanctioned choice, but later symbolic
                    # lease references (j-th item of that result) now name different messages: stop comparing here
                    diverged_on_choice += 1
                    ended = True
                    break
                continue
            # a difference: sanctioned only when it is a different choice among eligible messages
            sanctioned = False
            if op["op"] == "dequeue" and not a["err"] and not b["err"] and len(a["items"]) == len(b["items"]):
                ids_a = sorted(json.loads(x)["id"] for x in a["items"])
                ids_b = sorted(json.loads(x)["id"] for x in b["items"])
                if ids_a != ids_b:
                    sanctioned = True          # different members of the ready set were picked (each validated by its own model)
            if op["op"] in ("enqueue", "enqueue_batch") and h["cfg"]["drop_oldest"] and a["err"] == b["err"] and a["snap"] is not None:
                ra = set(json.loads(x)["id"] for x in a["snap"])
                rb = set(json.loads(x)["id"] for x in b["snap"])
                if len(ra) == len(rb) and ra != rb:
                    sanctioned = True          # a different victim among equally old queued messages (validated by the models)
            if op["op"] in ("enqueue", "enqueue_batch", "dequeue", "list", "list_dead", "stats") and h["cfg"]["dlq_depth"] > 0 and a["err"] == b["err"] and a["snap"] is not None:
                ra = set(json.loads(x)["id"] for x in a["snap"])
                rb = set(json.loads(x)["id"] for x in b["snap"])
                if len(ra) == len(rb) and ra != rb:
                    sanctioned = True          # DLQ depth prune chose differently inside a received_at tie
            rows_before = [json.loads(x) for x in (before_snap or [])]
            if op["op"] in ("enqueue", "enqueue_batch") and h["cfg"]["drop_oldest"] and h["cfg"]["max_depth"] > 0:
                # the victim among equally old queued messages is a sanctioned choice; when the incoming id equals one of the tied
                # candidates the choice also decides between "replaced" and "duplicate id" (found by the thorough tier)
                qr = sorted(r["recv"] for r in rows_before if r["state"] == "queued")
                if len(qr) >= 2 and qr[0] == qr[1]:
                    sanctioned = True
            if op["op"] in ("list", "list_dead", "manage_f") and a["err"] == b["err"]:
                # order inside a received_at tie is by id, and generated ids are random per store: a limit that cuts through such a tie
                # selects different messages (the statement allows differences in generated ids)
                recv_of_generated = set(r["recv"] for r in rows_before if str(r["id"]).startswith("G"))
                if any(r["recv"] in recv_of_generated and not str(r["id"]).startswith("G") for r in rows_before) or \
                        len([r for r in rows_before if str(r["id"]).startswith("G")]) != len(recv_of_generated):
                    sanctioned = True
            if sanctioned:
                diverged_on_choice += 1
                ended = True
                break
            diff = [kk for kk in a if a[kk] != b[kk]]
            C.report(ctx, "cross:%s:%s" % (op["op"], op.get("kind", "")),
                     "memory and SQLite stores answer the same %s %s call differently (%s)" % (op["op"], op.get("kind", ""), ", ".join(diff)),
                     {"kind": "history", "history": {"cfg": h["cfg"], "ops": h["ops"][:k + 1], "snap_every": 1}, "failing_step": k,
                      "memory": {kk: a[kk] for kk in diff}, "sqlite": {kk: b[kk] for kk in diff}})
            ended = True
            break
        if not ended:
            full += 1
    return {"cross_backend_histories_compared": compared, "cross_backend_compared_to_the_end": full,
            "cross_backend_diverged_on_choice": diverged_on_choice, "cross_backend_ended_at_restart": ended_at_restart,
            "cross_backend_steps": steps}


def extra(ctx, info, rng, fam, hs):
    """memory vs SQLite directly (executed), Postgres vs SQLite statically (lib/pgtie.py, Properties/C13pg.v)"""
    cov = cross_compare(ctx, info, rng, fam, hs)
    cov.update(pgtie.run(ctx, info, rng, fam, hs))
    from lib import c13att
    cov.update(c13att.run(ctx, info, rng))
    return cov


def main(ctx, replay):
    return queuefam.run_property(ctx, "C13", 150, 3000, extra=extra, extra_prop_files=("C13pg", "C13att"),
                                 assumptions=["C13 histories keep clock steps at 0 or >= the SQLite sweep interval and avoid the memory-only admission rules "
                                              "(memory pressure, delivered-retention depth term); those regimes are covered by C05/C12 per backend",
                                              "the Postgres store is tied to the SQLite store only statically (C13pg: equal statement skeletons modulo the reviewed "
                                              "table Model/PgAllowedDiffs.v); the semantics of the Postgres engine, of pgx and of the listed differences are trusted"])
