"""C09 - replay protection: a signed request is accepted at most once.

White-box: the real ingress.HMACAuth.Verify (injected Now, InheritNonces) on generated histories,
compared event by event with Model/Hmac.v + Model/NonceCache.v (accept/reject, cache size, cache
checksum).  Black-box: the real ingress.Server + runtimeState.loadAuth/reloadConfig over loopback,
replays at the window edges, across reloads (same config, new secrets, tolerance changes, route or
auth block dropped and re-added), 32 concurrent copies, the clock-reading/lock schedule; compared
with Model/HmacHistory.v.  The property predicate P_C09 (no second acceptance of a nonce while the
first request's window is open) is evaluated on what the implementation did."""
import json
import os
import random

from lib import common as C
from lib import authgen as G

SEC = G.SEC
KNOWN_TOL_KEY = "reload-tolerance-grown-after-cleanup"
KNOWN_TOL_WHAT = ("a request replayed after its window closed under the old tolerance, its nonce was forgotten by a "
                  "clean-up, and a reload then raised the tolerance is accepted a second time")


# --------------------------------------------------------------------------
# property predicate on an implementation trace (Python twin of HmacHistory.P_C09)

def check_trace(accepted, history_tols):
    """accepted: list of dict(i, nonce(bytes), signed(ns), now, tol); history_tols: list of (now, tol) for every
    request event in order (checkpoints).  Returns list of (first, second, known_pattern)."""
    bad = []
    by = {}
    for a in accepted:
        for b in by.get(a["nonce"], []):
            if not (b["signed"] + a["tol"] < a["now"]):
                # window of b still open under the tolerance in force now: violation
                closed_before = [(k, t) for (idx, k, t) in history_tols if b["i"] < idx <= a["i"] and b["signed"] + t < k]
                known = bool(closed_before) and all(t < a["tol"] for (_, t) in closed_before)
                bad.append((b, a, known))
        by.setdefault(a["nonce"], []).append(a)
    return bad


# --------------------------------------------------------------------------
# white-box histories

def wb_history(rng, big, tol=None):
    tol = tol or rng.choice([1, 999_999_999, SEC, 2 * SEC, 300 * SEC, 7_777_777_777])
    names = rng.choice([("X-Signature", "X-Timestamp", "X-Nonce"), ("X-Sig", "X-Ts", "X-Request-Nonce"),
                        ("x-hub-signature", "x-hub-time", "x-hub-nonce")])
    secrets = [b"k-one"] + ([b"second-secret"] if rng.random() < 0.4 else [])
    cfg = {"secrets": [s.hex() for s in secrets], "sig_header": names[0], "ts_header": names[1],
           "nonce_header": names[2], "tolerance": tol}
    base = 1_700_000_000 + rng.randrange(0, 1000)
    tol_s = max(1, tol // SEC)
    events = []   # (now, kind, payload)
    tracked = []
    for qi in range(rng.randrange(2, 6)):
        ts = base + (rng.choice([0, 0, 1, -1, tol_s, -tol_s, 2 * tol_s + 1]) if tol <= 10 ** 18 else rng.choice([0, 1, -1, 86400]))
        nonce = "n%d-%d" % (qi, rng.randrange(1000))
        body = bytes(rng.randrange(256) for _ in range(rng.choice([0, 1, 7, 64, 200])))
        pth = rng.choice(["/hooks", "/hooks/a", "/"])
        tracked.append({"ts": ts, "nonce": nonce, "body": body, "path": pth, "secret": rng.choice(secrets)})
    for q in tracked:
        t = q["ts"] * SEC
        cand = [t - tol - 1, t - tol, t - tol + 1, t - 1, t, t + 1, t + tol - 1, t + tol, t + tol + 1,
                t + rng.randrange(-tol, tol + 1), t + rng.randrange(-tol, tol + 1)]
        if tol > 10 ** 18:
            # a tolerance of centuries (compile accepts any positive duration): signed instant + tolerance lies beyond the int64
            # nanosecond range; the clock stays in this century - every later presentation of the nonce is a replay
            cand = [t, t, t + 1, t + SEC, t + 86400 * SEC, t + 365 * 86400 * SEC, t - 1, t - 86400 * SEC, t + 2]
        for now in rng.sample(cand, rng.randrange(3, 9)):
            kind = rng.choices(["valid", "badsig", "padnonce", "nononce", "blanknonce", "oddhex", "upperhex"],
                               [10, 3, 2, 1, 1, 1, 2])[0]
            events.append((now, kind, q))
    nfill = rng.choice([0, 10, 60]) if not big else big
    if tol > 10 ** 18:
        nfill = 0
    lo = min(q["ts"] for q in tracked) * SEC - 2 * tol
    hi = max(q["ts"] for q in tracked) * SEC + 2 * tol
    for fi in range(nfill):
        now = rng.randrange(lo, hi + 1)
        ts = now // SEC + rng.choice([0, 0, 0, -1, 1, -tol_s, tol_s])
        q = {"ts": ts, "nonce": "f%d" % fi, "body": b"", "path": "/hooks", "secret": secrets[0]}
        events.append((now, "filler" if rng.random() < 0.97 else "valid", q))
    monotone = rng.random() < 0.8
    if monotone:
        events.sort(key=lambda e: e[0])
    else:
        rng.shuffle(events)
    # authenticator replacements (reload): tolerance grown / shrunk / same
    inherits = []
    if rng.random() < 0.35 and tol <= 10 ** 18:
        for _ in range(rng.randrange(1, 3)):
            inherits.append((rng.randrange(0, len(events) + 1), rng.choice([tol, tol * 2, max(1, tol // 2), tol + 1, 600 * SEC])))
    out = []
    cur_tol = tol
    ins = sorted(inherits, key=lambda x: x[0])
    snap_every = 1 if len(events) < 200 else 97
    for i, (now, kind, q) in enumerate(events):
        while ins and ins[0][0] == i:
            _, nt = ins.pop(0)
            ncfg = dict(cfg, tolerance=nt)
            out.append({"op": "inherit", "cfg": ncfg, "snap": True, "_tol": nt})
            cur_tol = nt
        ts_text = str(q["ts"])
        sig = G.sign(q["secret"], ts_text, "POST", q["path"], q["body"])
        nonce = q["nonce"]
        hs = None
        if kind == "badsig":
            sig = sig[:-1] + ("0" if sig[-1] != "0" else "1")
        elif kind == "padnonce":
            nonce = " " + nonce + "\t"
        elif kind == "oddhex":
            sig = sig[:-1]
        elif kind == "upperhex":
            sig = sig.upper()
        elif kind == "filler":
            sig = "zz"
            e_fill = (q["ts"], int(q["nonce"][1:]))
        if kind == "nononce":
            hs = [(names[0], sig), (names[1], ts_text)]
        elif kind == "blanknonce":
            hs = [(names[0], sig), (names[1], ts_text), (names[2], "  ")]
        else:
            hs = [(names[0], sig), (names[1], ts_text), (names[2], nonce)]
        out.append({"op": "verify", "now": now, "method": "POST", "path": q["path"], "headers": hs,
                    "_fill": e_fill if (kind == "filler" and q["ts"] >= 0 and q["path"] == "/hooks" and q["body"] == b"") else None,
                    "body": q["body"].hex(), "snap": (i % snap_every == 0) or q["nonce"][0] != "f",
                    "_kind": kind, "_nonce": q["nonce"], "_ts": q["ts"], "_tol": cur_tol})
    return {"cfg": cfg, "events": out, "_monotone": monotone, "_names": names}


def model_cfg(cfg):
    return {"sig": G.canonical_header(cfg["sig_header"]), "ts": G.canonical_header(cfg["ts_header"]),
            "nonce": G.canonical_header(cfg["nonce_header"]), "tol": cfg["tolerance"],
            "static": [bytes.fromhex(s) for s in cfg["secrets"]], "versions": []}


def wb_coq(hist):
    I = G.Intern()
    evs = []
    mc = model_cfg(hist["cfg"])
    nm = "(%s, %s, %s)" % (I.b(mc["sig"]), I.b(mc["ts"]), I.b(mc["nonce"]))
    for e in hist["events"]:
        if e["op"] == "verify" and e.get("_fill"):
            evs.append("WReq %s (wfill NM %d%%N %d%%N) %s" % (G.cz(e["now"]), e["_fill"][0], e["_fill"][1], G.cbool(e["snap"])))
        elif e["op"] == "verify":
            hm = G.header_map(e["headers"])
            evs.append("WReq %s %s %s" % (G.cz(e["now"]), G.coq_hreq(I, e["method"], e["path"], hm, bytes.fromhex(e["body"])), G.cbool(e["snap"])))
        else:
            evs.append("WInherit %s %s" % (G.coq_hmac_cfg(I, model_cfg(e["cfg"])), G.cbool(e["snap"])))
    cfg0 = G.coq_hmac_cfg(I, model_cfg(hist["cfg"]))
    body = ["From Coq Require Import ZArith List Bool NArith.",
            "From HK Require Import Model.NonceCache Model.Hmac Model.ReloadAuth Model.HmacHistory Model.AuthEval.",
            "Import ListNotations.", "Open Scope Z_scope.", I.preamble(),
            "Definition NM : list N * list N * list N := %s." % nm,
            "Definition H : list wev := %s." % G.clist(evs),
            "Definition R := Eval vm_compute in wb_run %s [] H." % cfg0, "Print R."]
    return "\n".join(body) + "\n"


# --------------------------------------------------------------------------
# black-box scenarios

def bb_cfg(tol="5m", hooks="hmac", secrets=("raw:k1",), other=True, names=None, ref=False):
    s = G.PRELUDE
    if hooks == "hmac" and ref:
        # the route takes its keys from the secret pool only (secret_ref, no inline secret); every version is valid throughout the scenario
        vers = [{"id": "P%d" % i, "value": sv, "valid_from": 1_600_000_000} for i, sv in enumerate(secrets)]
        s += G.secrets_block(vers)
        s += G.route_block("/hooks", G.hmac_block(secret_refs=[v["id"] for v in vers], tolerance=tol))
    elif hooks == "hmac":
        kw = {}
        if names:
            kw = {"sig": names[0], "ts": names[1], "nonce": names[2]}
        s += G.route_block("/hooks", G.hmac_block(secrets=list(secrets), tolerance=tol, **kw))
    elif hooks == "open":
        s += G.route_block("/hooks")
    if other:
        s += G.route_block("/other")
    return s


DUR = {"1s": SEC, "2s": 2 * SEC, "5m": 300 * SEC, "10m": 600 * SEC, "300s": 300 * SEC, "3s": 3 * SEC}


def bb_request(ts, nonce, secret=b"k1", body=b'{"a":1}', names=("X-Signature", "X-Timestamp", "X-Nonce")):
    sig = G.sign(secret, str(ts), "POST", "/hooks", body)
    hs = [(names[0], sig), (names[1], str(ts)), (names[2], nonce)]
    return {"wire": G.b64(G.wire("POST", "/hooks", hs, body)), "headers": hs, "body": body, "ts": ts, "nonce": nonce}


def bb_scenarios(rng, tier):
    ts = 1_700_000_000 + rng.randrange(0, 100000)
    t = ts * SEC
    sc = []

    def scen(name, kind, cfgs, steps):
        sc.append({"name": name, "_kind": kind, "configs": [c["text"] for c in cfgs], "_cfgs": cfgs, "steps": steps})

    def cfg(tol="5m", hooks="hmac", secrets=("raw:k1",), unloadable=False, ref=False):
        text = bb_cfg(tol, hooks, secrets, ref=ref)
        if unloadable:
            # a LATER route whose secret cannot be loaded: reloading this file is refused as a whole
            text += G.route_block("/zlate", G.hmac_block(secrets=["env:VERIF_C09_UNSET_SECRET"], tolerance="5m"))
        return {"text": text, "tol": DUR[tol], "hooks": hooks, "secrets": [s[4:].encode() for s in secrets], "unloadable": unloadable}

    def req(now, r, **kw):
        d = {"op": "req", "now": now, "wire": r["wire"], "_r": r}
        d.update(kw)
        return d

    # 1. replays around both window edges, with other traffic in between
    for tolname in ("1s", "5m"):
        tol = DUR[tolname]
        R = bb_request(ts, "edge-%s" % tolname)
        for off in (tol - 1, tol, tol + 1):
            steps = [{"op": "load", "cfg": 0}, req(t, R)]
            for i in range(rng.randrange(0, 4)):
                o = bb_request(ts + rng.choice([0, 1]), "o%d-%d" % (off, i))
                steps.append(req(t + rng.randrange(0, max(1, off)), o))
            steps.sort(key=lambda s: s.get("now", -1))
            steps.append(req(t + off, R))
            steps.append(req(t + off, R))
            scen("edge-%s-%+d" % (tolname, off - tol), "replay-at-edge", [cfg(tolname)], steps)
        # first presentation at the early edge, replay at the late edge
        R2 = bb_request(ts, "early-%s" % tolname)
        scen("early-late-%s" % tolname, "replay-at-edge", [cfg(tolname)],
             [{"op": "load", "cfg": 0}, req(t - tol - 1, R2), req(t - tol, R2), req(t - tol, R2), req(t, R2), req(t + tol, R2), req(t + tol + 1, R2)])
    # 1b. the store refuses the enqueue of a verified request (503): its nonce is spent all the same - the same bytes presented
    #     again are a replay (on a fan-out route a second acceptance would duplicate the targets already queued)
    for k, gap in enumerate((1, SEC, DUR["5m"])):
        Rf = bb_request(ts, "storefail-%d" % k)
        scen("store-failure-%d" % k, "replay-after-503", [cfg()],
             [{"op": "load", "cfg": 0}, req(t, Rf, fail_at=1), req(t + gap, Rf), req(t + gap, Rf), req(t + gap + 1, bb_request(ts, "storefail-other-%d" % k))])
    # 2. reloads between original and replay
    R = bb_request(ts, "rl-1")
    scen("reload-same", "replay-after-reload", [cfg()], [{"op": "load", "cfg": 0}, req(t, R), {"op": "load", "cfg": 0}, req(t + 5, R),
                                                       {"op": "load", "cfg": 0}, {"op": "load", "cfg": 0}, req(t + DUR["5m"], R)])
    scen("reload-new-secret", "replay-after-reload", [cfg(), cfg(secrets=("raw:k1", "raw:k2"))],
         [{"op": "load", "cfg": 0}, req(t, R), {"op": "load", "cfg": 1}, req(t + 5, R), req(t + 6, bb_request(ts, "rl-2", secret=b"k2"))])
    scen("reload-tolerance-shrunk", "replay-after-reload", [cfg("5m"), cfg("1s")],
         [{"op": "load", "cfg": 0}, req(t, R), {"op": "load", "cfg": 1}, req(t + SEC, R), req(t + SEC + 1, R)])
    scen("reload-tolerance-grown-kept", "replay-after-reload", [cfg("5m"), cfg("10m")],
         [{"op": "load", "cfg": 0}, req(t, R), {"op": "load", "cfg": 1}, req(t + DUR["5m"] + 2, R), req(t + DUR["10m"], R), req(t + DUR["10m"] + 1, R)])
    O = bb_request(ts + 300, "rl-other")
    scen("reload-tolerance-grown-after-cleanup", "replay-after-reload", [cfg("5m"), cfg("10m")],
         [{"op": "load", "cfg": 0}, req(t, R), req(t + DUR["5m"] + 1, O), {"op": "load", "cfg": 1}, req(t + DUR["5m"] + 2, R)])
    scen("reload-route-readded", "replay-after-readd", [cfg(), cfg(hooks="none")],
         [{"op": "load", "cfg": 0}, req(t, R), req(t + 1, R), {"op": "load", "cfg": 1}, req(t + 2, R), {"op": "load", "cfg": 0}, req(t + 3, R),
          {"op": "load", "cfg": 1}, {"op": "load", "cfg": 1}, {"op": "load", "cfg": 0}, req(t + DUR["5m"], R)])
    scen("reload-auth-readded", "replay-after-readd", [cfg(), cfg(hooks="open")],
         [{"op": "load", "cfg": 0}, req(t, R), {"op": "load", "cfg": 1}, req(t + 2, R), {"op": "load", "cfg": 0}, req(t + 3, R)])
    # the route stays without its HMAC authentication (or absent) through SEVERAL reloads before it comes back: what it remembered comes back with it
    for k, (away, n_away) in enumerate((("open", 2), ("open", 3), ("none", 2), ("none", 4))):
        steps = [{"op": "load", "cfg": 0}, req(t, R)]
        for i in range(n_away):
            steps.append({"op": "load", "cfg": 1 if i % 2 == 0 else 2})
            steps.append(req(t + 1 + i, R))
        steps += [{"op": "load", "cfg": 0}, req(t + 10, R), req(t + 11, bb_request(ts, "rl-away-%d" % k))]
        scen("reload-auth-away-%s-for-%d-reloads" % (away, n_away), "replay-after-readd", [cfg(), cfg(hooks=away), cfg(hooks=away, secrets=("raw:k1", "raw:kz"))], steps)
    scen("reload-readd-tolerance-shrunk", "replay-after-readd", [cfg("5m"), cfg(hooks="none"), cfg("2s")],
         [{"op": "load", "cfg": 0}, req(t, R), {"op": "load", "cfg": 1}, {"op": "load", "cfg": 2}, req(t + 2 * SEC, R)])
    # 2c. a reload that completes while a request is IN FLIGHT (after the handler fetched the route's authenticator, before that
    #     authenticator looked at the request): the nonce is spent for the authenticators that follow as well - the same bytes presented
    #     after the reload are a replay.  (Same configuration before and after, so only what is remembered is at stake.)
    for k in range(3):
        Rin = bb_request(ts, "inflight-%d" % k)
        other = bb_request(ts + 1, "inflight-other-%d" % k)
        steps = [{"op": "load", "cfg": 0}]
        if k == 1:
            steps.append(req(t, other))
        steps.append(req(t + 1, Rin, reload_in_flight=True, reload_cfg=0))
        if k == 2:
            steps += [{"op": "load", "cfg": 0}, req(t + 2, other, reload_in_flight=True, reload_cfg=0)]
        steps += [req(t + 5, Rin), req(t + DUR["5m"], Rin), req(t + 6, bb_request(ts, "inflight-fresh-%d" % k))]
        scen("reload-in-flight-%d" % k, "replay-after-reload", [cfg()], steps)
    # 2a. the same with routes that take their keys from the secret pool only (secret_ref): unchanged file, a version added, tolerance shrunk
    Rp = bb_request(ts, "rl-ref-1")
    scen("reload-same-secret-ref", "replay-after-reload", [cfg(ref=True)],
         [{"op": "load", "cfg": 0}, req(t, Rp), {"op": "load", "cfg": 0}, req(t + 5, Rp), {"op": "load", "cfg": 0}, {"op": "load", "cfg": 0}, req(t + DUR["5m"], Rp)])
    scen("reload-secret-ref-version-added", "replay-after-reload", [cfg(ref=True), cfg(ref=True, secrets=("raw:k1", "raw:k2"))],
         [{"op": "load", "cfg": 0}, req(t, Rp), {"op": "load", "cfg": 1}, req(t + 5, Rp), req(t + 6, bb_request(ts, "rl-ref-2", secret=b"k2")), req(t + 7, Rp)])
    scen("reload-inline-to-secret-ref", "replay-after-reload", [cfg(), cfg(ref=True), cfg()],
         [{"op": "load", "cfg": 0}, req(t, Rp), {"op": "load", "cfg": 1}, req(t + 5, Rp), {"op": "load", "cfg": 2}, req(t + 6, Rp)])
    # 2b. a REFUSED reload (a later route's secret cannot be loaded) that would have raised this route's tolerance: the running
    #     authenticator - its window and what it remembers - is exactly what it was; a nonce legitimately re-used after the old
    #     window is accepted as before, a replay inside the old window is refused as before
    for k, (old_tol, new_tol) in enumerate((("1s", "5m"), ("2s", "10m"), ("5m", "10m"))):
        Rr = bb_request(ts, "refused-%d" % k)
        late = DUR[old_tol] + SEC
        Rr2 = bb_request(ts + late // SEC, "refused-%d" % k)          # the same nonce under a fresh timestamp, after the old window
        scen("reload-refused-tolerance-grown-%d" % k, "refused-reload", [cfg(old_tol), cfg(new_tol, unloadable=True)],
             [{"op": "load", "cfg": 0}, req(t, Rr), req(t + 1, Rr), {"op": "load", "cfg": 1, "expect_fail": True}, {"op": "load", "cfg": 1, "expect_fail": True},
              req(t + DUR[old_tol], Rr), req(t + late, Rr2), req(t + late + 1, Rr2)])
    # random reload placements
    n_rand = 6 if tier == "quick" else 80
    for k in range(n_rand):
        pool = [cfg("5m"), cfg("5m", secrets=("raw:k1", "raw:kx")), cfg(hooks="none"), cfg(hooks="open"), cfg("1s"), cfg("3s")]
        steps = [{"op": "load", "cfg": 0}]
        rs = [bb_request(ts + rng.choice([0, 1, 2]), "rr%d-%d" % (k, i)) for i in range(3)]
        now = t
        for _ in range(rng.randrange(6, 14)):
            if rng.random() < 0.4:
                steps.append({"op": "load", "cfg": rng.randrange(len(pool))})
            else:
                now += rng.choice([0, 1, SEC - 1, SEC, SEC + 1, 2 * SEC])
                steps.append(req(now, rng.choice(rs)))
        scen("reload-random-%d" % k, "replay-after-reload", pool, steps)
    # 3. 32 goroutines, one captured request
    Cq = bb_request(ts, "conc-1")
    scen("concurrent-32", "concurrent-duplicates", [cfg()],
         [{"op": "load", "cfg": 0}, {"op": "concurrent", "n": 32, "now": t, "wire": Cq["wire"], "_r": Cq}, req(t + 1, Cq),
          {"op": "concurrent", "n": 32, "now": t + DUR["5m"], "wire": Cq["wire"], "_r": Cq}])
    Cq2 = bb_request(ts, "conc-2")
    scen("concurrent-32-at-edge", "concurrent-duplicates", [cfg("1s")],
         [{"op": "load", "cfg": 0}, {"op": "concurrent", "n": 32, "now": t + SEC, "wire": Cq2["wire"], "_r": Cq2}])
    # 4. clock reading vs lock order: replay A reads ts+tol, is held; B reads ts+tol+1 and would clean up
    Ra = bb_request(ts, "race-1")
    Rb = bb_request(ts + 300, "race-2")
    scen("clock-race", "clock-race", [cfg()],
         [{"op": "load", "cfg": 0}, req(t, Ra),
          {"op": "race", "now": t + DUR["5m"], "wire": Ra["wire"], "_r": Ra, "now_b": t + DUR["5m"] + 1, "wire_b": Rb["wire"], "_rb": Rb}])
    return sc


def bb_model_cfg(c):
    if c["hooks"] != "hmac":
        return None
    return {"sig": "X-Signature", "ts": "X-Timestamp", "nonce": "X-Nonce", "tol": c["tol"], "static": c["secrets"], "versions": []}


def bb_coq(scen):
    """model events for one scenario; returns (coq text, plan) where plan maps impl steps to model event indices"""
    I = G.Intern()
    evs, plan = [], []
    cur = None
    for st in scen["steps"]:
        if st["op"] == "load" and st.get("expect_fail"):
            plan.append(("loadfail", None, cur))          # refused: nothing changes, the model sees no event
            continue
        if st["op"] == "load":
            cur = scen["_cfgs"][st["cfg"]]
            mc = bb_model_cfg(cur)
            evs.append("EReload %s" % ("None" if mc is None else "(Some %s)" % G.coq_hmac_cfg(I, mc)))
            plan.append(("load", len(evs) - 1, cur))
            continue
        def ev(now, r):
            return "EReq %s %s" % (G.cz(now), G.coq_hreq(I, "POST", "/hooks", G.header_map(r["headers"]), r["body"]))
        if st["op"] == "req":
            if cur["hooks"] == "none":
                plan.append(("req404", None, cur))
            else:
                if st.get("reload_in_flight"):
                    # the reload (same configuration) completes before the old authenticator looks at the request
                    mc = bb_model_cfg(scen["_cfgs"][st["reload_cfg"]])
                    evs.append("EReload %s" % ("None" if mc is None else "(Some %s)" % G.coq_hmac_cfg(I, mc)))
                evs.append(ev(st["now"], st["_r"]))
                plan.append(("req", len(evs) - 1, cur))
        elif st["op"] == "concurrent":
            first = len(evs)
            for _ in range(st["n"]):
                evs.append(ev(st["now"], st["_r"]))
            plan.append(("concurrent", (first, len(evs)), cur))
        elif st["op"] == "race":
            evs.append(ev(st["now"], st["_r"]))
            evs.append(ev(st["now_b"], st["_rb"]))
            plan.append(("race", (len(evs) - 2, len(evs) - 1), cur))
    body = ["From Coq Require Import ZArith List Bool NArith.",
            "From HK Require Import Model.NonceCache Model.Hmac Model.ReloadAuth Model.HmacHistory Model.AuthEval.",
            "Import ListNotations.", "Open Scope Z_scope.", I.preamble(),
            "Definition H : list event := %s." % G.clist(evs),
            "Definition R := Eval vm_compute in bb_run p_init H.", "Print R."]
    return "\n".join(body) + "\n", plan


def strip(o):
    if isinstance(o, dict):
        return {k: strip(v) for k, v in o.items() if not k.startswith("_")}
    if isinstance(o, list):
        return [strip(x) for x in o]
    if isinstance(o, bytes):
        return o.hex()
    return o


# --------------------------------------------------------------------------

def main(ctx, replay):
    rng = random.Random(ctx.seed)
    info = C.prologue(ctx)
    ctx.notes.append("t_prologue=%.1f" % ctx.wall())
    if info["hbin"] is None:
        raise C.HarnessBuildFailed(info.get("go_log", ""))
    cov = C.proof_coverage(info, "C09")
    assumptions = [
        "one request = one atomic step: clock reading, tolerance test and nonce-cache step happen under the cache mutex (nonceCache.admit); evidenced by the clock-race schedule, not proved about the Go runtime",
        "clock readings are non-decreasing in lock order (monotone clock); histories with a clock going backwards are compared with the model but not judged by the property",
        "replay = same nonce presented while the first request's window [.., ts+tol] is open (byte-identical replays always are); a re-signed request reusing an old nonce after that window is not counted (DESIGN C09 reading)",
        "known finding reload-tolerance-grown-after-cleanup: the hypothesis 'tolerance at the replay <= tolerance in force when the window closed' of C09_replay_never_twice is necessary (C09_tolerance_grown_refuted)",
        "Model/Sha256.v is a test oracle validated against Go's crypto on the generated inputs; theorems are parametric in sha256/hmac",
    ]
    evaluations = 0
    nontrivial = set()
    samples = []
    traces = []     # (label, accepted list, python verdict) for the Gallina P_C09
    dist = {"wb_histories": 0, "wb_events": 0, "wb_kinds": {}, "wb_accepts": 0, "wb_rejects": 0, "wb_max_cache": 0,
            "wb_inherits": 0, "wb_nonmonotone": 0, "bb_scenarios": 0, "bb_requests": 0, "bb_reloads": 0, "bb_202": 0, "bb_401": 0, "bb_404": 0}

    # ---------------- white-box
    n_small = 24 if ctx.tier == "quick" else 400
    bigs = [1000, 2000] if ctx.tier == "quick" else [1500, 3000, 3000, 5000, 2000, 4000, 2500, 3500]
    hists = [wb_history(rng, False) for _ in range(n_small)] + [wb_history(rng, b) for b in bigs]
    hists += [wb_history(rng, False, tol=t_) for t_ in (250 * 365 * 86400 * SEC, 2190000 * 3600 * SEC, 2 ** 63 - 1)]
    rc, out, err = C.harness_run(info["hbin"], ["hmac-seq"], {"histories": [strip(h) for h in hists]})
    if rc != 0:
        raise RuntimeError("hmac-seq failed: " + err[-2000:])
    impl = json.loads(out)
    ctx.notes.append("t_wb_impl=%.1f" % ctx.wall())
    results = C.coq_eval_shards(ctx, "c09wb", [wb_coq(h) for h in hists])
    ctx.notes.append("t_wb_model=%.1f" % ctx.wall())
    for hi, (h, im, (crc, cout)) in enumerate(zip(hists, impl, results)):
        dist["wb_histories"] += 1
        if not h["_monotone"]:
            dist["wb_nonmonotone"] += 1
        rows = G.parse_rows(cout, "R") if crc == 0 else None
        if rows is None or len(rows) != len(h["events"]):
            raise RuntimeError("model evaluation failed for white-box history %d: %s" % (hi, cout[-1500:]))
        accepted, tols = [], []
        for ei, (e, io, mo) in enumerate(zip(h["events"], im, rows)):
            evaluations += 1
            dist["wb_events"] += 1
            if e["op"] == "inherit":
                dist["wb_inherits"] += 1
            else:
                dist["wb_kinds"][e["_kind"]] = dist["wb_kinds"].get(e["_kind"], 0) + 1
                tols.append((ei, e["now"], e["_tol"]))
                if io["ok"]:
                    dist["wb_accepts"] += 1
                    accepted.append({"i": ei, "nonce": e["_nonce"].encode(), "signed": e["_ts"] * SEC, "now": e["now"], "tol": e["_tol"]})
                else:
                    dist["wb_rejects"] += 1
            dist["wb_max_cache"] = max(dist["wb_max_cache"], io["size"])
            m_ok, m_size, m_cs = mo
            i_cs = 0
            if e.get("snap"):
                i_cs = G.cache_checksum((bytes.fromhex(k), int(v)) for k, v in (io.get("cache") or []))
            if bool(m_ok) != bool(io["ok"]) or m_size != io["size"] or (e.get("snap") and m_cs != i_cs):
                C.report(ctx, "whitebox-mismatch:%s" % e.get("_kind", "inherit"),
                         "HMACAuth.Verify / nonce cache disagrees with the model at event %d (impl ok=%s size=%d, model ok=%s size=%d, checksum %s)" % (
                             ei, io["ok"], io["size"], bool(m_ok), m_size, "equal" if m_cs == i_cs else "differs"),
                         {"kind": "history", "case": strip({"cfg": h["cfg"], "events": h["events"][:ei + 1]}), "event": ei,
                          "observed": {"ok": io["ok"], "size": io["size"]}, "expected": {"ok": bool(m_ok), "size": m_size},
                          "how_to_replay": "./check C09 --replay <this file>"})
                break
        if h["_monotone"]:
            traces.append(("wb%d" % hi, accepted, not check_trace(accepted, tols)))
            for (b, a, known) in check_trace(accepted, tols):
                key = KNOWN_TOL_KEY if known else "replay-whitebox"
                C.report(ctx, key, KNOWN_TOL_WHAT if known else
                         "nonce %r accepted at event %d (now=%d) and again at event %d (now=%d) while signed+tol=%d >= now" % (
                             a["nonce"], b["i"], b["now"], a["i"], a["now"], b["signed"] + a["tol"]),
                         {"kind": "history", "case": strip({"cfg": h["cfg"], "events": h["events"][:a["i"] + 1]}),
                          "observed": "accepted twice (events %d and %d)" % (b["i"], a["i"]), "expected": "second presentation rejected",
                          "how_to_replay": "./check C09 --replay <this file>"})
        # non-trivial: a nonce presented more than once with at least one acceptance, or a clean-up that shrank the cache
        seen = {}
        for e, io in zip(h["events"], im):
            if e["op"] == "verify":
                seen.setdefault(e["_nonce"], []).append(io["ok"])
        if any(len(v) > 1 and any(v) for v in seen.values()):
            nontrivial.add(C.sha(strip(h)))
        if len(samples) < 3:
            samples.append({"whitebox_history": {"tolerance": h["cfg"]["tolerance"], "events": len(h["events"]),
                                                 "first_events": strip(h["events"][:3]), "impl": im[:3]}})

    # ---------------- black-box
    scen = bb_scenarios(rng, ctx.tier)
    rc, out, err = C.harness_run(info["hbin"], ["auth-run"], {"dir": os.path.join(ctx.scratch, "bb"), "scenarios": [strip(s) for s in scen]})
    if rc != 0:
        raise RuntimeError("auth-run failed: " + err[-2000:])
    impl = json.loads(out)
    bodies, plans = [], []
    for s in scen:
        b, p = bb_coq(s)
        bodies.append(b)
        plans.append(p)
    ctx.notes.append("t_bb_impl=%.1f" % ctx.wall())
    results = C.coq_eval_shards(ctx, "c09bb", bodies)
    ctx.notes.append("t_bb_model=%.1f" % ctx.wall())
    for s, im, plan, (crc, cout) in zip(scen, impl, plans, results):
        dist["bb_scenarios"] += 1
        if im.get("err"):
            raise RuntimeError("scenario %s: %s" % (s["name"], im["err"]))
        rows = G.parse_rows(cout, "R") if crc == 0 else None
        if rows is None:
            raise RuntimeError("model evaluation failed for scenario %s: %s" % (s["name"], cout[-1500:]))
        mres = [r[0] for r in rows]
        accepted, tols = [], []
        problems = []
        for si, (st, io, (pk, idx, cur)) in enumerate(zip(s["steps"], im["steps"], plan)):
            evaluations += 1
            if pk == "loadfail":
                dist["bb_refused_reloads"] = dist.get("bb_refused_reloads", 0) + 1
                if io["load_ok"]:
                    problems.append("step %d: a reload whose secrets cannot be loaded was accepted" % si)
                continue
            if pk == "load":
                dist["bb_reloads"] += 1
                if not io["load_ok"]:
                    problems.append("step %d: reload refused: %s" % (si, io.get("load_err")))
                continue
            delta = io["total_after"] - io["total_before"]
            if pk == "req404":
                dist["bb_requests"] += 1
                dist["bb_404"] += 1
                if io["status"] != 404 or delta != 0:
                    problems.append("step %d: route absent but status %d, queue delta %d" % (si, io["status"], delta))
                continue
            if pk == "req":
                dist["bb_requests"] += 1
                exp = 202 if mres[idx] == 1 else 401
                if exp == 202 and st.get("fail_at"):
                    exp = 503          # verified (the nonce is spent), then the store refused the enqueue
                dist["bb_%d" % io["status"]] = dist.get("bb_%d" % io["status"], 0) + 1
                if io["status"] != exp or delta != (1 if exp == 202 else 0):
                    problems.append("step %d: status %d queue delta %d, model expects %d / %d" % (si, io["status"], delta, exp, 1 if exp == 202 else 0))
                if cur["hooks"] == "hmac":
                    tols.append((si, st["now"], cur["tol"]))
                    if io["status"] == 202:
                        accepted.append({"i": si, "nonce": st["_r"]["nonce"].encode(), "signed": st["_r"]["ts"] * SEC, "now": st["now"], "tol": cur["tol"]})
            elif pk == "concurrent":
                dist["bb_requests"] += st["n"]
                n202 = sum(1 for x in io["statuses"] if x == 202)
                n401 = sum(1 for x in io["statuses"] if x == 401)
                exp202 = sum(mres[idx[0]:idx[1]])
                tols.append((si, st["now"], cur["tol"]))
                if n202 != exp202 or n202 + n401 != st["n"] or delta != exp202:
                    problems.append("step %d: %d concurrent copies: %d x 202, %d x 401, queue delta %d; model expects %d acceptance(s)" % (
                        si, st["n"], n202, n401, delta, exp202))
                for _ in range(n202):
                    accepted.append({"i": si, "nonce": st["_r"]["nonce"].encode(), "signed": st["_r"]["ts"] * SEC, "now": st["now"], "tol": cur["tol"]})
            elif pk == "race":
                dist["bb_requests"] += 2
                exp = [202 if mres[idx[0]] == 1 else 401, 202 if mres[idx[1]] == 1 else 401]
                tols.append((si, st["now"], cur["tol"]))
                if io["statuses"] != exp or delta != sum(1 for x in exp if x == 202):
                    problems.append("step %d: held replay A (reading %d) / overtaking B (reading %d): statuses %s, queue delta %d; model expects %s" % (
                        si, st["now"], st["now_b"], io["statuses"], delta, exp))
                if io["statuses"][0] == 202:
                    accepted.append({"i": si, "nonce": st["_r"]["nonce"].encode(), "signed": st["_r"]["ts"] * SEC, "now": st["now"], "tol": cur["tol"]})
        bad = check_trace(accepted, tols)
        traces.append((s["name"], accepted, not bad))
        replay_obj = {"kind": "history", "case": strip(s), "observed": [{"op": x["op"], "status": x["status"], "statuses": x.get("statuses"),
                                                                        "queue": [x["total_before"], x["total_after"]]} for x in im["steps"]],
                      "expected_model_results": mres, "how_to_replay": "./check C09 --replay <this file>"}
        if bad:
            for (b, a, known) in bad:
                key = KNOWN_TOL_KEY if (known and s["name"] == KNOWN_TOL_KEY) or (known and s["_kind"] == "replay-after-reload") else s["_kind"]
                C.report(ctx, key, KNOWN_TOL_WHAT if key == KNOWN_TOL_KEY else
                         "scenario %s: nonce %r accepted at step %d (now=%d) and again at step %d (now=%d <= signed+tol=%d): second enqueue of a captured request" % (
                             s["name"], a["nonce"].decode(), b["i"], b["now"], a["i"], a["now"], b["signed"] + a["tol"]),
                         dict(replay_obj, problems=problems))
        elif problems:
            C.report(ctx, "blackbox-mismatch:%s" % s["_kind"], "scenario %s: %s" % (s["name"], "; ".join(problems[:4])), dict(replay_obj, problems=problems))
        if any(st["op"] != "load" for st in s["steps"]):
            nontrivial.add(C.sha(strip(s)))
        if len(samples) < 6 and s["name"] in ("edge-5m-+0", "reload-route-readded", "clock-race"):
            samples.append({"scenario": s["name"], "steps": [{k: v for k, v in strip(st).items() if k not in ("wire", "wire_b")} for st in s["steps"]],
                            "statuses": [x.get("statuses") or x["status"] for x in im["steps"]]})

    # ---------------- the Gallina predicate P_C09 (Model/HmacHistory.v, meaning proved in C09_P_C09_spec) on every
    # recorded implementation trace of acceptances; must give the verdict the Python twin gave above
    ids = {}
    rows = []
    for label, acc, _ in traces:
        rows.append(G.clist("{| ac_nonce := %d%%N; ac_signed := %s; ac_now := %s; ac_tol := %s |}" % (
            ids.setdefault(a["nonce"], len(ids)), G.cz(a["signed"]), G.cz(a["now"]), G.cz(a["tol"])) for a in acc))
    body = "\n".join(["From Coq Require Import ZArith List Bool NArith.", "From HK Require Import Model.HmacHistory.",
                      "Import ListNotations.", "Open Scope Z_scope.",
                      "Definition TR : list (list acc) := %s." % G.clist(rows),
                      "Definition R := Eval vm_compute in map (fun t => if P_C09 t then 1 else 0) TR.", "Print R."]) + "\n"
    prc, pout = C.coq_eval_cases(ctx, "c09pred", body)
    prow = G.parse_rows(pout, "R") if prc == 0 else None
    if prow is None or len(prow) != len(traces):
        raise RuntimeError("P_C09 evaluation failed: " + pout[-1500:])
    dist["P_C09_traces"] = len(traces)
    dist["P_C09_false"] = sum(1 for (v,) in prow if v == 0)
    for (label, acc, py_ok), (v,) in zip(traces, prow):
        evaluations += 1
        if bool(v) != py_ok:
            C.report(ctx, "predicate-twin", "Gallina P_C09 says %s on trace %s, the Python twin says %s" % (bool(v), label, py_ok),
                     {"kind": "history", "trace": strip(acc), "label": label})
    cov.update({
        "evaluations": evaluations,
        "distinct_nontrivial": len(nontrivial),
        "rule": "non-trivial = white-box history in which some nonce is presented more than once and accepted at least once, or black-box scenario containing at least one request; counted by hash of the canonical case",
        "samples": samples,
        "traces_validated_against_impl": dist["wb_histories"] + dist["bb_scenarios"],
        "input_distribution": dist,
    })
    return C.conclude(ctx, info, cov, assumptions,
                      searched_note="white-box histories and black-box reload/edge/concurrency scenarios were run and showed no property failure")
