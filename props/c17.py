"""C17 — HMAC signing and secret rotation windows."""
import hashlib
import hmac as pyhmac
import json
import random
import re

from lib import common as C

NS = 1000000000
GO_ZERO = -62135596800 * NS
T0 = 1700000000          # 2023-11-14T22:13:20Z
DEF_SIG = "X-Hookaido-Signature"
DEF_TS = "X-Hookaido-Timestamp"


def ts(ns_total, off=0):
    return {"s": ns_total // NS, "ns": ns_total % NS, "off": off}


def ns_of(t):
    if t.get("zero"):
        return GO_ZERO
    return t["s"] * NS + t["ns"]


# --------------------------------------------------------------------------
# version sets
# --------------------------------------------------------------------------

def V(vid, secret, frm, until=None, ref=None, off=0):
    return {"id": vid, "ref": ref if ref is not None else "raw:" + secret, "secret": secret,
            "from": ts(frm, off), "has_until": until is not None, "until": ts(until, off) if until is not None else {"zero": True}}


def fixed_sets():
    s = T0 * NS
    h = 3600 * NS
    sets = []
    sets.append(("single-open", [V("k1", "alpha-1", s)]))
    sets.append(("single-closed", [V("k1", "alpha-1", s, s + h)]))
    sets.append(("adjacent", [V("k1", "alpha-1", s, s + h), V("k2", "beta-2", s + h, s + 2 * h), V("k3", "gamma-3", s + 2 * h)]))
    sets.append(("adjacent-reversed-order", [V("k3", "gamma-3", s + 2 * h), V("k2", "beta-2", s + h, s + 2 * h), V("k1", "alpha-1", s, s + h)]))
    sets.append(("overlapping", [V("k1", "alpha-1", s, s + 2 * h), V("k2", "beta-2", s + h, s + 3 * h)]))
    sets.append(("nested", [V("outer", "alpha-1", s, s + 4 * h), V("inner", "beta-2", s + h, s + 2 * h)]))
    sets.append(("nested-inner-first", [V("inner", "beta-2", s + h, s + 2 * h), V("outer", "alpha-1", s, s + 4 * h)]))
    sets.append(("equal-from", [V("kb", "beta-2", s, s + 2 * h), V("ka", "alpha-1", s, s + h), V("kc", "gamma-3", s)]))
    sets.append(("equal-from-byte-order", [V("k2", "beta-2", s), V("k10", "alpha-1", s), V("K3", "gamma-3", s), V("k", "delta-4", s)]))
    sets.append(("equal-from-later-newer", [V("kz", "zeta", s + h), V("ka", "alpha-1", s + h, s + 2 * h), V("km", "mu", s, s + 3 * h)]))
    sets.append(("gap", [V("k1", "alpha-1", s, s + h), V("k2", "beta-2", s + 2 * h, s + 3 * h)]))
    sets.append(("ns-edges", [V("k1", "alpha-1", s + 1, s + h + 999999999), V("k2", "beta-2", s + h + 999999999, s + 2 * h + 500000000)]))
    sets.append(("six", [V("k%d" % i, "secret-%d" % i, s + (i % 3) * h, (s + (i + 2) * h) if i % 2 else None) for i in range(6)]))
    sets.append(("zone-offsets", [V("k1", "alpha-1", s, s + h, off=120), V("k2", "beta-2", s + h, None, off=-330)]))
    sets.append(("same-secret-two-windows", [V("k1", "shared", s, s + h), V("k2", "shared", s + 2 * h, s + 3 * h)]))
    return sets


def struct_only_sets():
    s = T0 * NS
    h = 3600 * NS
    z = {"id": "kz", "ref": "raw:zero-from", "secret": "zero-from", "from": {"zero": True}, "has_until": False, "until": {"zero": True}}
    sets = []
    sets.append(("zero-from", [z, V("k1", "alpha-1", s, s + h)]))
    sets.append(("empty-window", [V("k1", "alpha-1", s + h, s + h), V("k2", "beta-2", s + 2 * h, s + h), V("k3", "gamma-3", s)]))
    sets.append(("unloadable-newest", [V("k1", "alpha-1", s), V("k2", "x", s + h, ref="env:VERIF_C17_MISSING")]))
    sets.append(("unloadable-file", [V("k1", "x", s, ref="file:/nonexistent/verif-c17")]))
    sets.append(("blank-ref", [V("k1", "x", s, ref="   "), V("k2", "beta-2", s - h, s)]))
    sets.append(("padded-ref", [V("k1", "alpha-1", s, ref="  raw:alpha-1 ")]))
    sets.append(("env-ref", [V("k1", "from-env", s, ref="env:VERIF_C17_SECRET")]))
    sets.append(("duplicate-id", [V("k1", "alpha-1", s), V("k1", "beta-2", s)]))
    # secret VALUES with white space at their edges (a variable provisioned from a file keeps its final newline; a blank after `raw:`):
    # the key is the value secrets.LoadRef yields, byte for byte - the verifying side loads the same reference
    sets.append(("env-trailing-newline", [V("k1", "nl-secret\n", s, ref="env:VERIF_C17_NL")]))
    sets.append(("env-spaced", [V("k1", "  spaced \t", s, ref="env:VERIF_C17_SP"), V("k0", "alpha-1", s - h, s)]))
    sets.append(("raw-leading-blank", [V("k1", " lead-blank", s, ref="raw: lead-blank")]))
    return sets


def random_set(rng):
    s = T0 * NS
    n = rng.randrange(1, 7)
    grid = [s + k * 600 * NS for k in range(8)]
    vs = []
    ids = rng.sample(["a", "b", "B", "k1", "k10", "k2", "key-old", "key-new", "z", "A0"], n)
    for i in range(n):
        frm = rng.choice(grid) + rng.choice([0, 0, 0, 1, 999999999, 500000000])
        until = None
        if rng.random() < 0.65:
            until = frm + rng.choice([1, NS, 600 * NS, 1200 * NS, 1800 * NS, 600 * NS + 1])
        vs.append(V(ids[i], "s-%s-%d" % (ids[i], i), frm, until, off=rng.choice([0, 0, 60, -480])))
    return ("random", vs)


def clock_points(vs, rng, tier):
    pts = set()
    for v in vs:
        for t in (v["from"], v["until"]):
            if t.get("zero"):
                continue
            e = ns_of(t)
            for d in (-NS, -1, 0, 1, NS):
                pts.add(e + d)
    edges = sorted(pts)
    if edges:
        pts.add(edges[0] - 86400 * NS)
        pts.add(edges[-1] + 86400 * NS)
        for _ in range(3):
            pts.add(rng.randrange(edges[0], edges[-1] + 1))
    return sorted(pts)


# --------------------------------------------------------------------------
# independent oracle
# --------------------------------------------------------------------------

def o_valid(v, t):
    f = ns_of(v["from"])
    if f == GO_ZERO or t < f:
        return False
    return (not v["has_until"]) or t < ns_of(v["until"])


def o_select(vs, mode, t):
    valid = [(i, v) for i, v in enumerate(vs) if o_valid(v, t)]
    if not valid:
        return None
    if mode == "oldest_valid":
        keyf = lambda iv: (ns_of(iv[1]["from"]), iv[1]["id"].encode(), iv[0])
    else:
        keyf = lambda iv: (-ns_of(iv[1]["from"]), iv[1]["id"].encode(), iv[0])
    return min(valid, key=keyf)[0]


def load_ref(ref, env):
    r = ref.strip()
    if r.startswith("raw:"):
        return r[4:] or None
    if r.startswith("env:"):
        return env.get(r[4:].strip()) or None
    return None


def norm_mode(sel):
    s = sel.strip().lower()
    if s == "":
        return "newest_valid"
    return s if s in ("newest_valid", "oldest_valid") else None


def edge_kind(vs, t):
    for v in vs:
        f = ns_of(v["from"])
        if t == f:
            return "at-valid_from"
        if t == f - 1 or t == f - NS:
            return "just-before-valid_from"
        if v["has_until"]:
            u = ns_of(v["until"])
            if t == u:
                return "at-valid_until"
            if t == u - 1 or t == u - NS:
                return "just-before-valid_until"
    return "inside-or-outside"


# --------------------------------------------------------------------------
# Coq printers
# --------------------------------------------------------------------------

def cb(b):
    """a byte string as a Coq [string] term"""
    if isinstance(b, str):
        b = b.encode("latin-1")
    if all(32 <= x < 127 and x != 34 for x in b):
        return '"%s"%%string' % b.decode("ascii")
    return "(sb [" + ";".join(str(x) for x in b) + "]%N)"


def coq_version(v):
    return "mkver %s %s (%d) %s (%d)" % (cb(v["id"]), cb(v["ref"]), ns_of(v["from"]), C.coq_bool(v["has_until"]),
                                         ns_of(v["until"]) if v["has_until"] else 0)


def coq_cfg(c):
    m = norm_mode(c["selection"])
    ms = "None" if m is None else ("(Some Newest)" if m == "newest_valid" else "(Some Oldest)")
    return "(mkcfg %s [%s] %s %s %s)" % (cb(c["secret_ref"]), "; ".join(coq_version(v) for v in c["versions"]), ms,
                                        cb(c["sig_header_eff"]), cb(c["ts_header_eff"]))


def coq_tbl(c):
    refs = {}
    for r in [c["secret_ref"]] + [v["ref"] for v in c["versions"]]:
        k = r.strip()
        if k and k not in refs:
            refs[k] = load_ref(k, c.get("env", {}))
    return "[%s]" % "; ".join("(%s, %s)" % (cb(k), "None" if v is None else "Some %s" % cb(v)) for k, v in sorted(refs.items()))


def parse_rows(out, marker):
    flat = " ".join(out.split())
    m = re.search(re.escape(marker) + r"\s*=\s*\[(.*)\]\s*:\s*list \(list N\)", flat)
    if not m:
        return None
    return [[int(x) for x in re.findall(r"\d+", part)] for part in re.findall(r"\[([0-9; ]*)\]", m.group(1))]


def parse_strings(out, marker):
    m = re.search(re.escape(marker) + r"\s*=\s*\[(.*)\]\s*:\s*list string", out, flags=re.S)
    if not m:
        return None
    return [re.sub(r"\s+", "", x) for x in re.findall(r'"([^"]*)"', m.group(1))]


def eval_shards(ctx, name, marker, imports, terms, strings=False):
    if not terms:
        return [], None
    per = min(400, max(1, (len(terms) + 15) // 16))      # small shards: bounded memory per coqc, 16 at a time
    shards = []
    for i in range(0, len(terms), per):
        body = ["From Coq Require Import String List ZArith NArith.", imports, "Import ListNotations.", "Open Scope Z_scope.",
                "Definition %s := Eval vm_compute in [\n %s]." % (marker, ";\n ".join(terms[i:i + per])),
                "Close Scope Z_scope.", "Open Scope N_scope.", "Print %s." % marker]
        shards.append("\n".join(body) + "\n")
    res = C.coq_eval_shards(ctx, name, shards)
    rows = []
    for (rc, o), i in zip(res, range(0, len(terms), per)):
        if rc != 0:
            return None, o[-1500:]
        r = parse_strings(o, marker) if strings else parse_rows(o, marker)
        if r is None or len(r) != len(terms[i:i + per]):
            return None, "could not parse model output: " + o[-600:]
        rows += r
    return rows, None


# --------------------------------------------------------------------------
# outbound cases
# --------------------------------------------------------------------------

METHODS = ["POST", "POST", "POST", "", "post", "PUT", "PATCH", "DELETE", "GET", "Post"]
PATHS = ["", "/", "/hook", "/a b", "/a%20b", "/a%2Fb/c", "/%41bc", "/café", "//double//slash", "/a/../b", "/x?y=1&z=%20", "?q=1",
         "/semi;colon", "/plus+sign", "/:colon@at", "/%E4%BD%A0", "/tr/ailing/", "/q?", "/a%2fb"]
BODIES = [b"", b"{}", b'{"event":"push","n":1}', bytes(range(256)), b"\n\n", b"\x00", b"a" * 300, "ünicöde".encode()]


def make_case(rng, name, vs, selection, now, via, idx):
    c = {"via": via, "secret_ref": "", "versions": vs, "selection": selection, "sig_header": "", "ts_header": "",
         "now": ts(now), "method": METHODS[idx % len(METHODS)] if rng.random() < 0.5 else "POST",
         "path_query": rng.choice(PATHS) if rng.random() < 0.6 else "/hook",
         "body_hex": rng.choice(BODIES).hex(), "headers": {}, "env": {"VERIF_C17_SECRET": "from-env", "VERIF_C17_NL": "nl-secret\n", "VERIF_C17_SP": "  spaced \t"}, "_set": name}
    if via == "struct":
        c["sig_header"], c["ts_header"] = DEF_SIG, DEF_TS
        if rng.random() < 0.15:
            c["sig_header"], c["ts_header"] = rng.choice([("X-Sig", "X-Ts"), (" X-Sig ", "X-Ts\t"), ("x-lower-sig", "x-lower-ts")])
    elif rng.random() < 0.15:
        c["sig_header"], c["ts_header"] = "X-Custom-Sig", "x-custom-ts"
    if rng.random() < 0.2:
        sh = (c["sig_header"].strip() or DEF_SIG)
        th = (c["ts_header"].strip() or DEF_TS)
        c["headers"] = {sh.lower(): "forged-signature", th.upper(): "12345", "X-Passthrough": "1"}
    return c


def effective_headers(c, r):
    """header names the config ends up with (compile canonicalises / defaults)"""
    if c["via"] == "compile":
        return r.get("sig_header_used") or DEF_SIG, r.get("ts_header_used") or DEF_TS
    return c["sig_header"], c["ts_header"]


def canon_key(name):
    return "-".join(p[:1].upper() + p[1:].lower() for p in name.strip().split("-"))


def main(ctx, replay):
    rng = random.Random(ctx.seed)
    info = C.prologue(ctx)
    if info["hbin"] is None:
        raise C.HarnessBuildFailed(info.get("go_log", ""))
    cov = C.proof_coverage(info, "C17")
    assumptions = [
        "HMAC-SHA256 and SHA-256 are recomputed independently with Python hashlib/hmac over what the loopback target RECEIVED (method, raw request path before '?', body); the Coq model (parametric in the hash functions, run with transparent stand-ins) decides which secret and which canonical string",
        "secrets.LoadRef is exercised for raw:, env: and unloadable env:/file: references; vault: is not (no network)",
        "selection strings other than newest_valid/oldest_valid/empty are normalised by the driver as selectSigningSecretRef does (trim, lower) before being handed to the model as a mode",
        "inbound: HMACAuth.Verify is called on the authenticator built by the real newRuntimeState+loadAuth; ingress.Server's routing in front of it is C08's subject",
    ]
    model_err = []

    # ---- build outbound cases
    cases = []
    sets = [(n, vs, "compile") for n, vs in fixed_sets()] + [(n, vs, "struct") for n, vs in fixed_sets()[:6]] \
        + [(n, vs, "struct") for n, vs in struct_only_sets()]
    n_rand = 10 if ctx.tier == "quick" else 500
    for k in range(n_rand):
        n, vs = random_set(rng)
        sets.append((n, vs, "compile" if k % 2 == 0 else "struct"))
    idx = 0
    for name, vs, via in sets:
        pts = clock_points(vs, rng, ctx.tier)
        sels = ["newest_valid", "oldest_valid"]
        if via == "struct" and name in ("adjacent", "equal-from"):
            sels += ["", " Newest_Valid ", "OLDEST_VALID", "bogus"]
        if via == "compile" and name in ("adjacent", "equal-from"):
            sels += [""]
        for sel in sels:
            use = pts if (ctx.tier != "quick" or len(pts) <= 14 or name != "random") else rng.sample(pts, 14)
            if ctx.tier == "quick" and name == "six":
                use = rng.sample(pts, 24)
            for t in use:
                cases.append(make_case(rng, name, vs, sel, t, via, idx))
                idx += 1
    # one route's life: many deliveries through ONE deliverer and ONE signing config while the clock moves forwards and backwards
    # (the version to sign with is a function of the signing instant alone, whatever was delivered before)
    gi = 0
    for name, vs, via in sets[:len(fixed_sets()) + 6] + sets[-4:]:
        pts = sorted(set(clock_points(vs, rng, ctx.tier)))
        if len(pts) > 12:
            pts = sorted(rng.sample(pts, 12))
        for sel in ("newest_valid", "oldest_valid"):
            for order in (pts, pts[::-1], rng.sample(pts, len(pts))):
                gi += 1
                first = make_case(rng, name, vs, sel, order[0], via, idx)
                for t in order:
                    c = dict(first)
                    c["now"] = ts(t)
                    c["group"] = "g%d" % gi
                    c["_set"] = name + "+seq"
                    cases.append(c)
                    idx += 1
    # a clock that moves WHILE one delivery is signed (2 s per reading, the first reading 1 s before a window edge): the secret must be
    # the one the rule picks at the instant the request is stamped with, whichever reading that is
    for name, vs, via in sets[:len(fixed_sets())] + sets[-6:]:
        edges = sorted({ns_of(v["from"]) for v in vs} | {ns_of(v["until"]) for v in vs if v["has_until"]})
        for sel in ("newest_valid", "oldest_valid"):
            for e in (edges if len(edges) <= 4 else rng.sample(edges, 4)):
                c = make_case(rng, name, vs, sel, e - NS, via, idx)
                c["now_step_ns"] = 2 * NS
                c["_set"] = name + "+moving-clock"
                cases.append(c)
                idx += 1
    s = T0 * NS
    # plain secret_ref (no versions), unsigned target, unloadable plain ref, blank headers, bad method/URL
    extra = []
    for pq in PATHS:
        for m in ("POST", "put"):
            extra.append({"via": "compile" if " " not in pq and "é" not in pq else "struct", "secret_ref": "raw:plain-secret", "versions": [], "selection": "",
                          "sig_header": DEF_SIG, "ts_header": DEF_TS, "now": ts(s + 123456789), "method": m, "path_query": pq,
                          "body_hex": rng.choice(BODIES).hex(), "headers": {}, "env": {}, "_set": "plain-ref"})
    for b in BODIES:
        extra.append({"via": "struct", "secret_ref": "raw:plain-secret", "versions": [], "selection": "", "sig_header": DEF_SIG, "ts_header": DEF_TS,
                      "now": ts(s), "method": "POST", "path_query": "/hook", "body_hex": b.hex(), "headers": {}, "env": {}, "_set": "bodies"})
    extra.append({"via": "struct", "secret_ref": "raw:plain-secret", "versions": [], "selection": "", "sig_header": DEF_SIG, "ts_header": DEF_TS,
                  "now": ts(s), "method": "POST", "path_query": "/big", "body_hex": (b"0123456789abcdef" * 6000).hex(), "headers": {}, "env": {}, "_set": "big-body", "_nomodel": True})
    for ref in ("env:VERIF_C17_MISSING", "file:/nonexistent/verif-c17", "   ", "bogus-scheme:x"):
        extra.append({"via": "struct", "secret_ref": ref, "versions": [], "selection": "", "sig_header": DEF_SIG, "ts_header": DEF_TS,
                      "now": ts(s), "method": "POST", "path_query": "/hook", "body_hex": "7b7d", "headers": {}, "env": {}, "_set": "unloadable-plain"})
    for sh, th in (("", DEF_TS), (DEF_SIG, "  "), ("", "")):
        extra.append({"via": "struct", "secret_ref": "raw:plain-secret", "versions": [], "selection": "", "sig_header": sh, "ts_header": th,
                      "now": ts(s), "method": "POST", "path_query": "/hook", "body_hex": "7b7d", "headers": {}, "env": {}, "_set": "blank-header"})
    for t in (-1, -NS, -NS - 1, 0, 1, 999999999, -5 * NS + 1):    # clock around the Unix epoch: seconds round towards minus infinity
        extra.append({"via": "struct", "secret_ref": "raw:plain-secret", "versions": [], "selection": "", "sig_header": DEF_SIG, "ts_header": DEF_TS,
                      "now": ts(t), "method": "POST", "path_query": "/hook", "body_hex": "7b7d", "headers": {}, "env": {}, "_set": "epoch"})
    extra.append({"via": "struct", "secret_ref": "", "versions": [], "selection": "", "sig_header": "", "ts_header": "", "no_sign": True,
                  "now": ts(s), "method": "POST", "path_query": "/hook", "body_hex": "7b7d", "headers": {"X-Passthrough": "1"}, "env": {}, "_set": "unsigned-target"})
    for red in ("/moved", "/hook"):
        extra.append({"via": "struct", "secret_ref": "raw:plain-secret", "versions": [], "selection": "", "sig_header": DEF_SIG, "ts_header": DEF_TS,
                      "now": ts(s), "method": "POST", "path_query": "/hook", "body_hex": "7b7d", "headers": {}, "env": {}, "redirect": red, "_set": "redirect"})
    cases += extra

    rc, out, err = C.harness_run(info["hbin"], ["sign-run"],
                                 {"cases": [{k: v for k, v in c.items() if not k.startswith("_")} for c in cases]}, timeout=900)
    if rc != 0:
        raise RuntimeError("sign-run failed: " + err[-2000:])
    impl = json.loads(out)["cases"]

    # a moving clock: the signing instant is the reading whose second the request is stamped with
    dist_mc = {"cases": 0, "reads": {}, "stamped_reading": {}}
    for c, r in zip(cases, impl):
        if not c.get("now_step_ns") or r.get("compile_err"):
            continue
        dist_mc["cases"] += 1
        nreads = r.get("clock_reads", 0)
        dist_mc["reads"][nreads] = dist_mc["reads"].get(nreads, 0) + 1
        r["valid"] = None
        c["_moving"] = True
        if r["received"]:
            _sh, th_ = effective_headers(c, r)
            tsv = r["received"][0]["header"].get(canon_key(th_), [])
            t1 = ns_of(c["now"])
            hit = [k for k in range(max(nreads, 1)) if tsv and tsv[0] == str((t1 + k * c["now_step_ns"]) // NS)]
            if hit:
                dist_mc["stamped_reading"][hit[0]] = dist_mc["stamped_reading"].get(hit[0], 0) + 1
                c["now"] = ts(t1 + hit[0] * c["now_step_ns"])
            else:
                C.report(ctx, "moving-clock:timestamp-is-no-reading", "the timestamp header %s is none of the %d clock readings starting at %d ns" % (tsv, nreads, t1),
                         {"kind": "request", "case": {k: v for k, v in c.items() if not k.startswith("_")}, "observed": r})
    # ---- model terms
    terms, widx, wterms = [], [], []
    tmap = []
    dist = {"sets": {}, "via": {}, "compile_rejected": 0, "sent": 0, "not_sent": 0, "edge": {}, "mode": {}, "paths": len(PATHS), "bodies": len(BODIES)}
    for ci, (c, r) in enumerate(zip(cases, impl)):
        dist["sets"][c["_set"]] = dist["sets"].get(c["_set"], 0) + 1
        dist["via"][c["via"]] = dist["via"].get(c["via"], 0) + 1
        if r.get("compile_err"):
            dist["compile_rejected"] += 1
            continue
        if c.get("no_sign") or c.get("_nomodel"):
            continue
        sh, th = effective_headers(c, r)
        c["sig_header_eff"], c["ts_header_eff"] = sh, th
        if r["received"]:
            rv = r["received"][0]
            meth, path, body = rv["method"], rv["request_uri"].split("?", 1)[0], bytes.fromhex(rv["body_hex"])
        else:
            meth, path, body = c["method"] or "POST", "/", bytes.fromhex(c["body_hex"])
        terms.append("run_sign %s %s (%d) %s %s %s" % (coq_cfg(c), coq_tbl(c), ns_of(c["now"]), cb(meth), cb(path), cb(hashlib.sha256(body).digest())))
        tmap.append(ci)
        if c["versions"]:
            wterms.append("run_windows [%s] (%d)" % ("; ".join(coq_version(v) for v in c["versions"]), ns_of(c["now"])))
            widx.append(ci)
    imp = "From HK Require Import Model.StrUtil Model.Signing Model.SigningRun."
    import time as _t
    _a = _t.time()
    srows, e1 = eval_shards(ctx, "c17sign", "R", imp, terms, strings=True)
    _b = _t.time()
    wrows, e2 = eval_shards(ctx, "c17win", "W", imp, wterms)
    ctx.notes.append("timing: prologue+impl %.1fs, model sign %.1fs, model windows %.1fs" % (_a - ctx.t0, _b - _a, _t.time() - _b))
    if e1 or e2:
        model_err.append("model could not be evaluated: " + (e1 or e2))
    sign_model = dict(zip(tmap, srows)) if srows is not None else {}
    win_model = dict(zip(widx, wrows)) if wrows is not None else {}

    evaluations = 0
    mism = 0
    nontrivial = set()
    samples = []
    for ci, (c, r) in enumerate(zip(cases, impl)):
        if r.get("compile_err"):
            continue
        evaluations += 1
        problems = []
        key = None

        def bad(k, msg):
            nonlocal key
            problems.append(msg)
            if key is None:
                key = k
        vs = c["versions"]
        now = ns_of(c["now"])
        recv = r["received"]
        if len(recv) > 0:
            dist["sent"] += 1
        else:
            dist["not_sent"] += 1
        lib_refusal = (not recv) and r["err_text"] and "delivery signing" not in r["err_text"]

        if c.get("no_sign"):
            if len(recv) != 1 or any(h in recv[0]["header"] for h in (DEF_SIG, DEF_TS)):
                bad("unsigned-target", "target without signing: %d requests, headers %s" % (len(recv), recv[0]["header"] if recv else None))
            continue
        sh, th = c.get("sig_header_eff", c["sig_header"]), c.get("ts_header_eff", c["ts_header"])
        mode = norm_mode(c["selection"])
        dist["mode"][str(mode)] = dist["mode"].get(str(mode), 0) + 1

        # ----- independent oracle: which secret, may anything be sent
        exp_secret = None
        exp_idx = None
        if sh.strip() == "" or th.strip() == "":
            pass
        elif vs:
            if mode is not None:
                exp_idx = o_select(vs, mode, now)
                if exp_idx is not None:
                    exp_secret = load_ref(vs[exp_idx]["ref"], c.get("env", {}))
        else:
            exp_secret = load_ref(c["secret_ref"], c.get("env", {}))
        if vs:
            ek = edge_kind(vs, now)
            dist["edge"][ek] = dist["edge"].get(ek, 0) + 1
            # white-box window flags
            if r.get("valid") is not None:
                for v, got in zip(vs, r["valid"]):
                    if got != o_valid(v, now):
                        bad("window:%s" % ek, "version %s is %s at %d ns (from %d, until %s)" % (
                            v["id"], "valid" if got else "not valid", now, ns_of(v["from"]), ns_of(v["until"]) if v["has_until"] else None))
            if mode is not None and sh.strip() and th.strip() and not c.get("_moving"):
                want_ref = vs[exp_idx]["ref"].strip() if exp_idx is not None else ""
                if (r.get("sel_ref") or "") != want_ref:
                    valid = [v for v in vs if o_valid(v, now)]
                    tie = len(set(ns_of(v["from"]) for v in valid)) < len(valid)
                    bad("select:%s:%s" % (mode, "tie" if tie else "order"),
                        "selectSigningSecretRef picked %r, the rule %s picks %r (valid: %s)" % (r.get("sel_ref"), mode, want_ref, [v["id"] for v in valid]))

        if exp_secret is None:
            if recv and not lib_refusal:
                bad("sent-without-valid-secret:%s" % c["_set"], "a request was sent although no secret is usable (no valid version / unloadable / blank header)")
        else:
            if not recv:
                if not lib_refusal:
                    bad("not-sent-although-valid:%s" % c["_set"], "nothing was sent although a valid secret exists: %s" % r["err_text"])
            else:
                rv = recv[0]
                sig_vals = rv["header"].get(canon_key(sh), [])
                ts_vals = rv["header"].get(canon_key(th), [])
                want_ts = str(now // NS)
                raw_path = rv["request_uri"].split("?", 1)[0]
                body = bytes.fromhex(rv["body_hex"])
                msg = (rv["method"].upper() + "\n" + raw_path + "\n" + want_ts + "\n" + hashlib.sha256(body).hexdigest()).encode("latin-1")
                want_sig = pyhmac.new(exp_secret.encode("latin-1"), msg, hashlib.sha256).hexdigest()
                if ts_vals != [want_ts]:
                    bad("timestamp-header", "timestamp header %s, expected [%s]" % (ts_vals, want_ts))
                if sig_vals != [want_sig]:
                    what = "signature"
                    # say what the signature was computed over, if it matches a near-miss
                    alts = {"other-secret:%s" % v["id"]: (load_ref(v["ref"], c.get("env", {})) or "", msg) for v in vs}
                    alts["unescaped-path"] = (exp_secret, (rv["method"].upper() + "\n" + c["path_query"].split("?", 1)[0] + "\n" + want_ts + "\n" + hashlib.sha256(body).hexdigest()).encode("utf-8"))
                    alts["method-as-sent"] = (exp_secret, (rv["method"] + "\n" + raw_path + "\n" + want_ts + "\n" + hashlib.sha256(body).hexdigest()).encode("latin-1"))
                    for nm, (k, m) in alts.items():
                        if k and sig_vals == [pyhmac.new(k.encode("latin-1"), m, hashlib.sha256).hexdigest()]:
                            what = nm
                    bad("signature:%s" % what.split(":")[0], "signature header %s is not HMAC(secret of %s, %r): expected %s (%s)" % (
                        sig_vals, vs[exp_idx]["id"] if exp_idx is not None else "secret_ref", msg, want_sig, what))
                if body != bytes.fromhex(c["body_hex"]):
                    bad("body-altered", "body received differs from the delivery body")
                if c.get("redirect") and len(recv) > 1:
                    rv2 = recv[1]
                    p2 = rv2["request_uri"].split("?", 1)[0]
                    b2 = bytes.fromhex(rv2["body_hex"])
                    m2 = (rv2["method"].upper() + "\n" + p2 + "\n" + want_ts + "\n" + hashlib.sha256(b2).hexdigest()).encode("latin-1")
                    w2 = pyhmac.new(exp_secret.encode("latin-1"), m2, hashlib.sha256).hexdigest()
                    if rv2["header"].get(canon_key(sh), []) != [w2]:
                        # reported on its own (own key), so that it can never mask - or be masked by - another problem of the same case
                        C.report(ctx, "redirect-hop-signature-not-recomputed",
                                 "the request that followed a 307 to %s carries signature %s, which is the HMAC for the original path %s, not for the path it was sent to" % (p2, rv2["header"].get(canon_key(sh)), raw_path),
                                 {"kind": "request", "case": {k: v for k, v in c.items()},
                                  "observed": {"received": [{"method": x["method"], "request_uri": x["request_uri"],
                                                             "signing_headers": {k: v for k, v in x["header"].items() if k in (canon_key(sh), canon_key(th))}} for x in recv]},
                                  "expected": "second request signed over its own method/path/body: %s" % w2})

        # ----- correspondence with the model
        mr = sign_model.get(ci)
        if mr is not None:
            if mr == "0":
                if recv and not lib_refusal:
                    mism += 1
                    bad("model:sent-vs-none", "model: nothing may be sent; implementation sent %d request(s)" % len(recv))
            else:
                if not recv:
                    if not lib_refusal:
                        mism += 1
                        bad("model:none-vs-sent", "model signs and sends; implementation sent nothing: %s" % r["err_text"])
                else:
                    _, sel_s, m_ts, sg_hex = mr.split(",")
                    sel = int(sel_s)
                    blob = bytes.fromhex(sg_hex)
                    # the model's transparent stand-in for HMAC is secret ++ "\n" ++ canonical string (with the real digest in hex); the
                    # secret itself may contain a newline, so it is cut off by its length (the secret of the version the model selected)
                    m_secret = None
                    if vs and 1 <= sel <= len(vs):
                        m_secret = load_ref(vs[sel - 1]["ref"], c.get("env", {}))
                    elif not vs:
                        m_secret = load_ref(c["secret_ref"], c.get("env", {}))
                    if m_secret is not None and blob.startswith(m_secret.encode("latin-1") + b"\n"):
                        secret, m_msg = blob[:len(m_secret.encode("latin-1"))], blob[len(m_secret.encode("latin-1")) + 1:]
                    else:
                        secret, m_msg = blob.split(b"\n", 1)
                    m_sig = pyhmac.new(secret, m_msg, hashlib.sha256).hexdigest()
                    rv = recv[0]
                    if rv["header"].get(canon_key(th), []) != [m_ts] or rv["header"].get(canon_key(sh), []) != [m_sig]:
                        mism += 1
                        bad("model:signature", "model: ts %s sig %s (version #%d); received ts %s sig %s" % (
                            m_ts, m_sig, sel, rv["header"].get(canon_key(th)), rv["header"].get(canon_key(sh))))
                    if vs and exp_idx is not None and sel != exp_idx + 1:
                        bad("oracle-vs-model", "driver oracle selects #%d, model #%d" % (exp_idx + 1, sel))
        wr = win_model.get(ci)
        if wr is not None and vs:
            flags = [bool(x) for x in wr[:len(vs)]]
            if r.get("valid") is not None and flags != r["valid"]:
                mism += 1
                bad("model:window:%s" % edge_kind(vs, now), "model validity %s, implementation %s" % (flags, r["valid"]))
            for md, got in (("newest_valid", wr[len(vs)]), ("oldest_valid", wr[len(vs) + 1])):
                ids = [v["id"] for v in vs]
                if len(set(ids)) == len(ids):
                    want = o_select(vs, md, now)
                    if (want + 1 if want is not None else 0) != got:
                        bad("oracle-vs-model", "driver oracle %s selects %s, model %s" % (md, want, got))
        if vs or c["_set"] != "plain-ref" or c["path_query"] not in ("/hook",):
            nontrivial.add(C.sha({k: v for k, v in c.items() if not k.endswith("_eff")}))
        if problems:
            C.report(ctx, key, "; ".join(problems[:4]),
                     {"kind": "request", "case": {k: v for k, v in c.items() if k != "body_hex" or len(v) < 600},
                      "observed": {"received": [{"method": x["method"], "request_uri": x["request_uri"],
                                                 "signing_headers": {k: v for k, v in x["header"].items() if k in (canon_key(sh), canon_key(th))}} for x in recv],
                                   "err_text": r["err_text"], "sel_ref": r.get("sel_ref"), "valid": r.get("valid")},
                      "problems": problems, "how_to_replay": "./check C17 --replay <this file>"})
        elif len(samples) < 6 and rng.random() < 0.004:
            samples.append({"case": {k: v for k, v in c.items() if k not in ("body_hex",)}, "observed": {"sel_ref": r.get("sel_ref"), "sent": len(recv)}})

    # ---- inbound
    in_eval, in_mism = inbound(ctx, info, rng, nontrivial, samples, model_err, dist)
    evaluations += in_eval
    mism += in_mism

    proof_broken = C.proof_status(info, "C17") + model_err
    # a reload must not be reported as applied while the push dispatcher keeps values it was built from at start-up (lib/restartclass.py)
    from lib import restartclass
    dist.update(restartclass.run(ctx, info))
    cov.update({
        "evaluations": evaluations,
        "distinct_nontrivial": len(nontrivial),
        "rule": "distinct outbound deliveries (version set x selection x clock x method/path/body) with at least one secret version configured or a path/method/body other than the plain default, plus distinct inbound (set, signing key, signed timestamp) verifications; every clock value is an edge of some window or +-1 ns / +-1 s of one, plus far outside and random inside",
        "samples": samples or [{"case": {k: v for k, v in cases[0].items() if k != "body_hex"}}],
        "traces_validated_against_impl": len(sign_model) + in_eval,
        "model_impl_mismatches": mism,
        "input_distribution": dict(dist, moving_clock=dist_mc),
    })
    return C.conclude(ctx, info, cov, assumptions, proof_broken=proof_broken,
                      searched_note="all generated deliveries and inbound verifications agreed with the independent HMAC oracle")


# --------------------------------------------------------------------------
# inbound
# --------------------------------------------------------------------------

def inbound(ctx, info, rng, nontrivial, samples, model_err, dist):
    s = T0 * NS
    h = 3600 * NS

    def IV(vid, value, frm, until=None, off=0):
        return {"id": vid, "value": value, "from": ts(frm, off), "has_until": until is not None,
                "until": ts(until, off) if until is not None else {"zero": True}}
    sets = [
        ("adjacent", [IV("S1", "in-alpha", s, s + h), IV("S2", "in-beta", s + h, s + 2 * h), IV("S3", "in-gamma", s + 2 * h)], []),
        ("overlap", [IV("S1", "in-alpha", s, s + 2 * h), IV("S2", "in-beta", s + h, s + 3 * h)], []),
        ("nested+inline", [IV("S1", "in-alpha", s, s + 4 * h), IV("S2", "in-beta", s + h, s + 2 * h)], ["in-inline"]),
        ("subsecond", [IV("S1", "in-alpha", s + 500000000, s + h + 1), IV("S2", "in-beta", s + h + 1, s + 2 * h + 999999999)], []),
        ("single-open", [IV("S1", "in-alpha", s)], []),
        ("same-value", [IV("S1", "in-shared", s, s + h), IV("S2", "in-shared", s + 2 * h, s + 3 * h)], []),
        ("inline-only", [], ["in-inline", "in-inline-2"]),
        ("zones", [IV("S1", "in-alpha", s, s + h, off=330), IV("S2", "in-beta", s + h, None, off=-60)], ["in-inline"]),
        ("equal-from", [IV("Sb", "in-beta", s, s + h), IV("Sa", "in-alpha", s, s + 2 * h)], []),
        # windows whose ends lie outside what an int64 count of nanoseconds can hold ("never expires" written as year 9999, "always valid" as
        # year 1000): a secret is valid at every instant between its bounds, however far the bounds are
        ("until-year-9999", [IV("S1", "in-alpha", s, 253402300799 * NS), IV("S2", "in-beta", s + h, s + 2 * h)], []),
        ("from-year-1000", [IV("S1", "in-alpha", -30610224000 * NS, s + h), IV("S2", "in-beta", s + h)], []),
        ("both-ends-far", [IV("S1", "in-alpha", -30610224000 * NS, 253402300799 * NS)], ["in-inline"]),
        ("until-year-2263", [IV("S1", "in-alpha", s, 9246182400 * NS)], []),
    ]
    n_rand = 6 if ctx.tier == "quick" else 300
    for k in range(n_rand):
        n = rng.randrange(1, 6)
        vs = []
        for i in range(n):
            frm = s + rng.randrange(0, 6) * 600 * NS + rng.choice([0, 0, 1, 500000000])
            until = frm + rng.choice([NS, 600 * NS, 1200 * NS, 600 * NS + 1]) if rng.random() < 0.6 else None
            vs.append(IV("R%d" % i, "in-r%d-%d" % (k, i % 3), frm, until))
        sets.append(("random", vs, ["in-inline"] if k % 3 == 0 else []))
    payload = []
    meta = []
    nonce = 0
    for name, vs, inline in sets:
        secs = set()
        for v in vs:
            for t in (v["from"], v["until"]):
                if not t.get("zero"):
                    e = ns_of(t)
                    for d in (-1, 0, 1):
                        secs.add(e // NS + d)
                        secs.add(-((-e) // NS) + d)
        if not secs:
            secs = {T0}
        secs |= {min(secs) - 86400, max(secs) + 86400}
        keys = sorted(set([v["value"] for v in vs] + inline + ["in-unknown"]))
        reqs = []
        for t in sorted(secs):
            for k in keys:
                body = rng.choice([b"", b"{}", b'{"n":1}'])
                msg = ("%d\nPOST\n/in\n%s" % (t, hashlib.sha256(body).hexdigest())).encode()
                nonce += 1
                reqs.append({"ts": t, "sig_hex": pyhmac.new(k.encode(), msg, hashlib.sha256).hexdigest(), "nonce": "n%d" % nonce,
                             "body_hex": body.hex(), "now_off": rng.choice([0, 0, 0, 299, -299])})
                meta.append((name, vs, inline, t, k))
        payload.append({"versions": vs, "inline": inline, "requests": reqs})
    rc, out, err = C.harness_run(info["hbin"], ["hmac-inbound"], {"sets": payload}, timeout=900)
    if rc != 0:
        raise RuntimeError("hmac-inbound failed: " + err[-2000:])
    res = json.loads(out)["sets"]
    accepted = []
    for (name, vs, inline), ro, pl in zip(sets, res, payload):
        if ro.get("compile_err") or ro.get("load_err"):
            raise RuntimeError("inbound set %s not loadable: %s %s" % (name, ro.get("compile_err"), ro.get("load_err")))
        if len(ro["accepted"]) != len(pl["requests"]):
            raise RuntimeError("inbound: result count mismatch")
        accepted += ro["accepted"]
    terms = []
    for name, vs, inline, t, k in meta:
        terms.append("run_inbound [%s] [%s] (%d) %s" % (
            "; ".join("mkiv %s %s (%d) (%d)" % (cb(v["id"]), cb(v["value"]), ns_of(v["from"]), ns_of(v["until"]) if v["has_until"] else GO_ZERO) for v in vs),
            "; ".join(cb(x) for x in inline), t, cb(k)))
    rows, e = eval_shards(ctx, "c17in", "I", "From HK Require Import Model.StrUtil Model.Signing Model.SigningRun.", terms)
    if e:
        model_err.append("inbound model could not be evaluated: " + e)
        rows = [None] * len(terms)
    mism = 0
    dist["inbound"] = {"sets": len(sets), "verifications": len(meta), "accepted": sum(1 for a in accepted if a)}
    for (name, vs, inline, t, k), acc, mr in zip(meta, accepted, rows):
        def iv_valid(v):
            f = ns_of(v["from"])
            return f <= t * NS and ((not v["has_until"]) or t * NS < ns_of(v["until"]))
        want = (k in inline) or any(v["value"] == k and iv_valid(v) for v in vs)
        case = {"set": name, "versions": vs, "inline": inline, "signed_ts": t, "signed_with": k}
        if acc and not want:
            near = [v["id"] for v in vs if v["value"] == k]
            C.report(ctx, "inbound:accepted-invalid-secret", "ingress accepted a request signed at %d with secret %r of version(s) %s, none of which is valid then" % (t, k, near),
                     {"kind": "request", "case": case, "observed": "accepted", "expected": "rejected"})
        if want and not acc:
            C.report(ctx, "inbound:rejected-valid-secret", "ingress rejected a request signed at %d with secret %r which is valid then" % (t, k),
                     {"kind": "request", "case": case, "observed": "rejected", "expected": "accepted"})
        if mr is not None and bool(mr[0]) != acc:
            mism += 1
            C.report(ctx, "model:inbound", "model says %s, ingress says %s" % (bool(mr[0]), acc), {"kind": "request", "case": case})
        if k != "in-unknown":
            nontrivial.add(C.sha(case))
    return len(meta), mism
