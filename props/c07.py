"""C07 — end-to-end payload and header fidelity.

Implementation side (harness `fidelity`): raw HTTP requests over loopback -> the real
ingress.Server as app.startServers wires it (a recording middleware snapshots r.Header) ->
memory / SQLite -> Pull API over HTTP, worker gRPC over a real connection, real
PushDispatcher+HTTPDeliverer to a loopback target (every first attempt fails: redelivery),
Admin GET /messages; again after nack and after reopening the SQLite file; Admin publish feeds
the same consumers; forward-auth copy_headers with a scripted loopback auth service.
Model side: Model/Headers.v copy_headers applied to the very header snapshot, Model/Base64.v.
Plus: the Go functions behind the byte-level models compared on generated strings."""
import ast
import base64
import json
import os
import random
import re

from lib import common as C

STRIPPED = ("authorization", "proxy-authorization", "cookie")
HOP = {"content-length", "connection", "transfer-encoding", "host", "accept-encoding", "user-agent", "te", "trailer", "upgrade",
       "keep-alive", "proxy-connection"}
TOKEN_SPECIALS = "!#$%&'*+-.^_`|~"


def b64(b):
    return base64.b64encode(b).decode()


def canon_py(name):
    """Python twin of CanonicalMIMEHeaderKey, used only to steer the generator (sizes near max_headers)"""
    b = name.encode() if isinstance(name, str) else name
    tok = set(b"0123456789abcdefghijklmnopqrstuvwxyzABCDEFGHIJKLMNOPQRSTUVWXYZ" + TOKEN_SPECIALS.encode())
    if not all(c in tok for c in b):
        return b
    out = bytearray()
    up = True
    for c in b:
        if up and 97 <= c <= 122:
            c -= 32
        elif not up and 65 <= c <= 90:
            c += 32
        out.append(c)
        up = c == 45
    return bytes(out)


# ---------------------------------------------------------------------------
# generator

NAMES = ["x-a", "X-A", "x-A", "x-fOO-bar", "content-md5", "ETag", "x_under-score", "X-1a-b", "x.y", "x!z", "x~t|u", "accept", "X-GitHub-Event",
         "x-b3-traceid", "WWW-Authenticate", "x--double", "-lead", "trail-", "x-cookie", "cookie2", "cookies", "authorization-x", "xauthorization",
         "proxy-authorizations", "x-proxy-authorization"]
STRIP_VARIANTS = ["authorization", "Authorization", "AUTHORIZATION", "AuThOrIzAtIoN", "proxy-authorization", "Proxy-Authorization",
                  "PROXY-AUTHORIZATION", "proxy-AUTHORIZATION", "cookie", "Cookie", "COOKIE", "CooKie", "cOOKIE"]
VALUES = ["1", "", "a,b", "a, b", " padded inner  x", "tab\tin", "x=1; y=2", "é中文", "\U0001f600", "v" * 40, "Bearer tok,en", "q=\"a,b\"", "=", ",",
          "ends,", "a,,b",
          # valid UTF-8 that encoders treat specially: format / tag characters outside the BMP, zero-width and BOM, the JSON-hostile
          # line separators, C1 controls, non-characters, the largest code point, HTML-escaped and backslash/quote characters
          "\U0001f3f4\U000e0067\U000e0062\U000e0065\U000e006e\U000e0067\U000e007f", "tag\U000e0020x", "zw\u200bj\u200d", "\ufeffbom", "ls\u2028ps\u2029",
          "nel\u0085c1\u009f", "non\ufffe\uffff", "max\U0010ffff", "\ufffd", "<a href='x'>&amp;</a>", "back\\slash\\u0041", "\\U000e0067"]


def rand_case_variant(rng, s):
    return "".join(c.upper() if rng.random() < 0.5 else c.lower() for c in s)


def gen_headers(rng):
    hs = []
    for _ in range(rng.choice([0, 1, 2, 3, 5, 8])):
        name = rng.choice(NAMES)
        if rng.random() < 0.3:
            name = rand_case_variant(rng, name)
        hs.append((name, rng.choice(VALUES)))
        if rng.random() < 0.3:   # repeated name, other spelling
            hs.append((rand_case_variant(rng, name), rng.choice(VALUES)))
    for _ in range(rng.choice([0, 0, 1, 2, 3])):
        name = rng.choice(STRIP_VARIANTS)
        if rng.random() < 0.3:
            name = rand_case_variant(rng, name)
        hs.append((name, rng.choice(["secret", "Bearer abc", "sid=1; t=2", ""])))
    rng.shuffle(hs)
    return hs


def gen_body(rng, mb, how=None):
    how = how or rng.choice(["0", "1", "max-1", "max", "max+1", "rand", "nul", "badutf8", "ff", "text", "mod3"])
    n = {"0": 0, "1": 1, "max-1": max(mb - 1, 0), "max": mb, "max+1": mb + 1}.get(how)
    if n is None:
        n = rng.randrange(0, mb + 1)
    if how == "nul":
        return bytes(n), how
    if how == "ff":
        return bytes([255] * n), how
    if how == "badutf8":
        return (bytes([0xC3, 0x28, 0xE2, 0x82, 0xFF, 0xFE, 0x80]) * (n // 7 + 1))[:n], how
    if how == "text":
        return (b'{"k":"v\\u0000"}\n' * (n // 16 + 1))[:n], how
    return bytes(rng.randrange(256) for _ in range(n)), how


CONFIG = '''
ingress { listen "%%INGRESS%%" }
pull_api {
  listen "%%PULL%%"
  grpc_listen "%%GRPC%%"
  auth token "raw:verif-pull"
}
admin_api {
  listen "%%ADMIN%%"
  prefix "/adm"
}
defaults {
  max_body 4096
  egress {
    https_only off
    dns_rebind_protection off
  }
}
"/p" {
  max_body %(mb)d
%(match)s%(mh)s%(fwd)s  pull { path "/pull/p" }
}
"/d" {
  max_body %(mb)d
%(match)s%(mh)s%(fwd)s  deliver "%%TARGET%%/hook" {
    retry exponential max 3 base 10ms cap 20ms jitter 0
    timeout 5s
  }
}
'''


def make_cases(rng, tier):
    cases = []
    ncases = 30 if tier == "quick" else 120
    nreq = 26 if tier == "quick" else 60
    for ci in range(ncases):
        mb = rng.choice([1, 7, 16, 16, 64, 300])
        mh = rng.choice([0, 0, 90, 120, 200])
        fwd = None
        if rng.random() < 0.4:
            names = rng.sample(["X-User", "x-org", " x-padded ", "cookie", "x-a", "X-Missing", "x-fOO-bar", "Authorization"], rng.randrange(1, 4))
            resp = []
            for nm in ("X-User", "X-Org", "X-Padded", "Cookie", "X-A", "X-Foo-Bar", "Authorization"):
                if rng.random() < 0.6:
                    resp.append([nm, rng.choice(["u1", "from-auth", "a b", "ü"])])
                    if rng.random() < 0.3:
                        resp.append([nm.lower(), rng.choice(["second", "x,y"])])
            status = rng.choice([200, 200, 200, 200, 204, 401, 403, 500])
            fwd = dict(copy_headers=names, status=status, resp_headers=resp)
        fwd_txt = ""
        if fwd:
            fwd_txt = '  auth forward "%AUTH%" {\n' + "".join('    copy_headers "%s"\n' % n for n in fwd["copy_headers"]) + "  }\n"
        # every fourth configuration selects its routes by a query matcher as well (the resolver then looks at the query of every request):
        # what the resolver does to find the route must not touch the body - also not a form-encoded one
        qmatch = ci % 4 == 1
        query = rng.choice(["?src=hooks", "?src=a&x=%2F", "?x=1&src="]) if qmatch else ""
        text = CONFIG % dict(mb=mb, mh=("  max_headers %d\n" % mh) if mh else "", fwd=fwd_txt,
                             match='  match {\n    query_exists "src"\n  }\n' if qmatch else "")
        backend = "sqlite" if ci % 2 == 0 else "memory"
        reqs = []
        for k in range(nreq):
            route = "/p" if k % 3 != 2 else "/d"
            body, how = gen_body(rng, mb, ["0", "1", "max-1", "max", "max+1"][k] if k < 5 else None)
            hs = gen_headers(rng)
            if rng.random() < (0.5 if qmatch else 0.15):
                hs.append((rng.choice(["Content-Type", "content-type"]), rng.choice(["application/x-www-form-urlencoded", "application/x-www-form-urlencoded; charset=utf-8"])))
            seq = "r%d" % k
            if mh and rng.random() < 0.5:
                # steer the stored size to the limit: pad with a filler header so that the size lands on mh-1, mh, mh+1
                size = 0
                merged = {}
                for n, v in hs + [("Connection", "close"), ("Content-Length", str(len(body))), ("X-Verif-Seq", seq)]:
                    if n.lower() in STRIPPED:
                        continue
                    ck = canon_py(n)
                    merged[ck] = (merged[ck] + b"," + v.encode()) if ck in merged else v.encode()
                size = sum(len(k2) + len(v2) for k2, v2 in merged.items())
                want = mh + rng.choice([-1, 0, 0, 1])
                fill = want - size - len("X-Fill")
                if fill >= 0 and not fwd:
                    hs.append(("x-fill", "f" * fill))
            reqs.append(dict(route=route, headers=[[n, b64(v.encode())] for n, v in hs] + [["X-Verif-Seq", b64(seq.encode())]],
                             body_b64=b64(body), seq=seq, how=how, body=body, wire=hs + [("X-Verif-Seq", seq)], chunked=False, query=query))
        # the same bodies streamed without a Content-Length (Transfer-Encoding: chunked) around the limit: what is acknowledged is what
        # was sent, whole; a body over max_body is refused whatever its framing
        for k, kind in enumerate(["max-1", "max", "max+1", "max+1", "rand"]):
            body, how = gen_body(rng, mb, kind)
            if k == 3:
                body = body * 3 + b"tail"
            seq = "c%d" % k
            reqs.append(dict(route="/p" if k % 2 == 0 else "/d", headers=[["X-Verif-Seq", b64(seq.encode())]], body_b64=b64(body), seq=seq, how="chunked-" + how,
                             body=body, wire=[("X-Verif-Seq", seq)], chunked=True, query=query))
        pubs = []
        for k in range(6 if tier == "quick" else 12):
            route = "/p" if k % 2 == 0 else "/d"
            body, how = gen_body(rng, mb, rng.choice(["0", "1", "max-1", "max", "rand", "nul", "badutf8", "mod3"]))
            enc = b64(body)
            style = rng.choice(["plain", "plain", "newlines", "crlf-tail", "absent", "blank"])
            if style == "newlines" and len(enc) >= 4:
                cut = rng.randrange(1, len(enc))
                enc = enc[:cut] + "\n" + enc[cut:] + "\r\n"
            elif style == "crlf-tail":
                enc = enc + "\r\n"
            item = {"id": "pub%d-%d" % (ci, k), "route": route}
            if style == "absent":
                body = b""
            elif style == "blank":
                item["payload_b64"] = rng.choice(["", " ", "\n", " "])
                body = b""
            else:
                item["payload_b64"] = enc
            hd = {"X-Verif-Seq": "pub%d-%d" % (ci, k)}
            if rng.random() < 0.6:
                hd[rng.choice(["x-lower", "X-Up", "x-MiXed", "cookie", "Authorization"])] = rng.choice(["v", "a,b", "é"])
            item["headers"] = hd
            pubs.append(dict(body=json.dumps({"items": [item]}), seq=item["id"], item=item, payload=body))
        cases.append(dict(config=text, backend=backend, forward=fwd and dict(status=fwd["status"], resp_headers=fwd["resp_headers"]),
                          requests=reqs, publish=pubs, pull_path="/pull/p", reopen=True, mb=mb, mh=mh, fwd=fwd))
    return cases


# ---------------------------------------------------------------------------
# Coq evaluation

def cbytes(b):
    return "[" + ";".join("%d" % c for c in b) + "]"


def parse_coq(txt, name):
    flat = " ".join(txt.split())
    m = re.search(re.escape(name) + r" = (.*?) : list ", flat)
    if not m:
        return None
    t = m.group(1).replace(";", ",").replace("Some ", "").replace("%N", "")
    return ast.literal_eval(t)


HDR = ["From Coq Require Import List NArith ZArith Bool.", "From HK Require Import Model.Headers Model.Base64 Model.HeaderValidate.",
       "Import ListNotations.", "Open Scope N_scope.",
       "Definition enc (r : copy_res) : option smap := match r with CopyReject => None | CopyOk m => Some m end."]


def eval_requests(ctx, jobs):
    """jobs: list of (snapshot [(k, [v..])], max, copy_names or None, resp [(k,v)] wire, body bytes).
    Returns per job (stored map or None, encoded body)."""
    shards, sizes = [], []
    per = max(1, (len(jobs) + 15) // 16)
    for s in range(0, len(jobs), per):
        part = jobs[s:s + per]
        lines = list(HDR)
        terms, encs = [], []
        for snap, mx, names, resp, body in part:
            h = "[" + "; ".join("(%s, [%s])" % (cbytes(k), "; ".join(cbytes(v) for v in vs)) for k, vs in snap) + "]"
            if names is None:
                extra = "[]"
            else:
                extra = "(forward_extras [%s] (group [%s]))" % ("; ".join(cbytes(n.encode()) for n in names),
                                                                "; ".join("(%s, %s)" % (cbytes(k.encode()), cbytes(v.encode())) for k, v in resp))
            terms.append("enc (copy_headers %s (%d)%%Z %s)" % (h, mx, extra))
            encs.append("encode %s" % cbytes(body))
        lines.append("Definition R := Eval vm_compute in [%s]." % ";\n ".join(terms))
        lines.append("Print R.")
        lines.append("Definition E := Eval vm_compute in [%s]." % ";\n ".join(encs))
        lines.append("Print E.")
        shards.append("\n".join(lines) + "\n")
        sizes.append(len(part))
    res = C.coq_eval_shards(ctx, "c07r", shards, timeout=1200, par=16)
    out = []
    for (rc, txt), n in zip(res, sizes):
        if rc != 0:
            return None, txt[-1500:]
        r = parse_coq(txt, "R")
        e = parse_coq(txt, "E")
        if r is None or e is None or len(r) != n or len(e) != n:
            return None, "unparsable model output: " + txt[-800:]
        out += list(zip(r, e))
    return out, ""


def main(ctx, replay):
    rng = random.Random(ctx.seed)
    info = C.prologue(ctx)
    if info["hbin"] is None:
        raise C.HarnessBuildFailed(info.get("go_log", ""))
    assumptions = [
        "net/http's request parsing is library behaviour: the model is applied to the r.Header snapshot taken from the very request object ingress.Server gets",
        "header values are valid UTF-8 (the statement's quantifier); encoding/json escaping in SQLite and in the Pull API is validated end to end, not modelled",
        "on the outgoing push request the headers Go's transport manages itself (Content-Length, Connection, Host, Accept-Encoding, User-Agent, hop-by-hop) are not compared",
    ]
    cov = C.proof_coverage(info, "C07")
    proof_broken = C.proof_status(info, "C07")
    cases = make_cases(rng, ctx.tier)
    # an operator detour between acceptance and consumption (cancel + resume / requeue, by filter or by id list) in a third of the cases:
    # what comes back is what was accepted
    for k, c in enumerate(cases):
        c["detour"] = ["", "cancel-resume", "", "cancel-requeue", "", "ids"][k % 6]
    payload = {"dir": os.path.join(ctx.scratch, "fid"), "par": 16,
               "cases": [{k: c[k] for k in ("config", "backend", "forward", "pull_path", "reopen")} | {"detour": c.get("detour", "")} |
                         {"requests": [{k: r[k] for k in ("route", "headers", "body_b64", "seq", "chunked", "query")} for r in c["requests"]],
                          "publish": [{k: p[k] for k in ("body", "seq")} for p in c["publish"]]} for c in cases]}
    rc, out, err = C.harness_run(info["hbin"], ["fidelity"], payload, timeout=3000)
    if rc != 0:
        raise RuntimeError("fidelity harness failed: " + err[-2000:])
    outs = json.loads(out)

    # ---- model jobs: one per ingress request the server saw
    jobs, owners = [], []
    for ci, (c, o) in enumerate(zip(cases, outs)):
        if o.get("err"):
            raise RuntimeError("case %d: %s" % (ci, o["err"]))
        for k, (rq, ro) in enumerate(zip(c["requests"], o["requests"])):
            if not ro["seen"]:
                continue
            snap = [(base64.b64decode(h["k"]), [base64.b64decode(v) for v in h["v"]]) for h in ro["snapshot"] or []]
            mx = c["mh"] if c["mh"] else 65536
            fwd = c["fwd"]
            jobs.append((snap, mx, fwd["copy_headers"] if fwd else None, fwd["resp_headers"] if fwd else None, rq["body"]))
            owners.append((ci, k))
    model, mlog = eval_requests(ctx, jobs)
    if model is None:
        proof_broken.append("model evaluation failed: " + mlog)
        model = [None] * len(jobs)
    mres = {ow: m for ow, m in zip(owners, model)}

    evaluations = 0
    nontrivial = set()
    dist = {"status": {}, "body_kind": {}, "body_len_vs_max": {}, "stripped_present": 0, "repeated_names": 0, "forward_cases": 0,
            "header_reject": 0, "header_size_margin0": 0, "observations": {}, "backends": {}, "publish_styles": 0, "redelivered": 0}
    samples = []
    mismatches = 0

    def rep(key, what, case, extra):
        C.report(ctx, key, what, dict({"kind": "request", "case": case, "how_to_replay": "./check C07 --replay <this file>"}, **extra))

    for ci, (c, o) in enumerate(zip(cases, outs)):
        obs_by_id = {}
        for ob in o["obs"]:
            obs_by_id.setdefault(ob["id"], []).append(ob)
        stored = {r["id"]: r for r in o["stored"]}
        dist["backends"][c["backend"]] = dist["backends"].get(c["backend"], 0) + 1
        if c["fwd"]:
            dist["forward_cases"] += 1
        for k, (rq, ro) in enumerate(zip(c["requests"], o["requests"])):
            evaluations += 1
            body = rq["body"]
            case = {"case_index": ci, "backend": c["backend"], "route": rq["route"], "max_body": c["mb"], "max_headers": c["mh"],
                    "forward": c["fwd"], "wire_headers": rq["wire"], "body_b64": rq["body_b64"], "seq": rq["seq"], "config": c["config"]}
            st = ro["status"]
            dist["status"][str(st)] = dist["status"].get(str(st), 0) + 1
            dist["body_kind"][rq["how"]] = dist["body_kind"].get(rq["how"], 0) + 1
            rel = "over" if len(body) > c["mb"] else "at" if len(body) == c["mb"] else "max-1" if len(body) == c["mb"] - 1 else "under"
            dist["body_len_vs_max"][rel] = dist["body_len_vs_max"].get(rel, 0) + 1
            lows = [n.lower() for n, _ in rq["wire"]]
            if any(n in STRIPPED for n in lows):
                dist["stripped_present"] += 1
            if len(set(lows)) < len(lows):
                dist["repeated_names"] += 1
            nontrivial.add(C.sha([rq["wire"], rq["body_b64"], c["mb"], c["mh"], c["fwd"], c["backend"], rq["route"]]))
            m = mres.get((ci, k))
            # ---- expected status
            fst = c["fwd"]["status"] if c["fwd"] else 200
            if len(body) > c["mb"]:
                exp = 413
            elif not (200 <= fst < 300):
                exp = fst if fst in (401, 403) else 503
            elif m is not None and m[0] is None:
                exp = 413
                dist["header_reject"] += 1
            else:
                exp = 202
            if m is None and not (len(body) > c["mb"]) and ro["seen"]:
                continue
            if st != exp:
                mismatches += 1
                rep("ingress-status:%s" % ("body" if len(body) > c["mb"] else "auth" if not (200 <= fst < 300) else "headers"),
                    "ingress answered %d, expected %d (body %d bytes, max_body %d)" % (st, exp, len(body), c["mb"]), case,
                    {"observed": {"status": st}, "expected": {"status": exp}})
                continue
            if st != 202:
                if ro["ids"]:
                    rep("rejected-but-stored", "ingress answered %d but stored %s" % (st, ro["ids"]), case, {"observed": {"status": st, "ids": ro["ids"]}})
                continue
            if not ro["ids"] or len(ro["ids"]) != 1:
                rep("accepted-not-stored", "ingress answered 202 but %d messages were stored" % len(ro["ids"] or []), case, {"observed": {"ids": ro["ids"]}})
                continue
            mid = ro["ids"][0]
            want_hdr = {bytes(kk).decode("utf-8", "replace"): bytes(vv).decode("utf-8", "replace") for kk, vv in m[0]}
            want_b64 = bytes(m[1]).decode()
            size = sum(len(bytes(kk)) + len(bytes(vv)) for kk, vv in m[0])
            if size == (c["mh"] or 65536):
                dist["header_size_margin0"] += 1
            if want_b64 != b64(body):
                proof_broken.append("Model/Base64.encode disagrees with Python's base64 on %s" % rq["body_b64"])
            extras_keys = set()
            if c["fwd"]:
                extras_keys = {canon_py(n.strip()).decode() for n in c["fwd"]["copy_headers"]}
            problems = []
            # what is stored (white box), then every consumer path
            views = [("stored", stored.get(mid, {}).get("payload_b64"), stored.get(mid, {}).get("headers") or {})]
            seen_where = {}
            for ob in obs_by_id.get(mid, []) + (obs_by_id.get(rq["seq"], []) if rq["route"] == "/d" else []):
                seen_where[ob["where"]] = seen_where.get(ob["where"], 0) + 1
                if ob["where"] == "push":
                    hl = {base64.b64decode(h["k"]).decode("utf-8", "replace"): [base64.b64decode(v).decode("utf-8", "replace") for v in h["v"]] for h in ob["hlist"]}
                    if ob["payload_b64"] != b64(body):
                        problems.append(("payload-push", "push attempt %d delivered body %s, accepted body %s" % (ob["attempt"], ob["payload_b64"][:80], b64(body)[:80])))
                    for hk, hv in want_hdr.items():
                        if hk.lower() in HOP:
                            continue
                        if hl.get(hk) != [hv]:
                            problems.append(("headers-push", "push attempt %d: header %r delivered as %r, stored %r" % (ob["attempt"], hk, hl.get(hk), hv)))
                    for hk in hl:
                        if hk.lower() in STRIPPED and hk not in extras_keys:
                            problems.append(("stripped-delivered", "push delivered %r" % hk))
                    if ob["attempt"] > 1:
                        dist["redelivered"] += 1
                else:
                    views.append((ob["where"], ob["payload_b64"], ob.get("headers") or {}))
            need = ["admin1", "pull_http1", "grpc", "admin2", "pull_http2"] if rq["route"] == "/p" else ["admin1", "push"]
            for w in need:
                if w not in seen_where:
                    problems.append(("not-observed", "message was not observed at %s" % w))
            if rq["route"] == "/d" and seen_where.get("push", 0) < 2:
                problems.append(("not-redelivered", "push target saw %d attempts (first attempt is always answered 503)" % seen_where.get("push", 0)))
            for where, p64, hdrs in views:
                dist["observations"][where] = dist["observations"].get(where, 0) + 1
                if p64 != want_b64:
                    problems.append(("payload-%s" % where.rstrip("12"), "%s returned payload %r, accepted body encodes to %r" % (where, (p64 or "")[:80], want_b64[:80])))
                if hdrs != want_hdr:
                    problems.append(("headers-%s" % where.rstrip("12"), "%s returned headers %r, expected %r" % (where, hdrs, want_hdr)))
                for hk in hdrs:
                    if hk.lower() in STRIPPED and hk not in extras_keys:
                        problems.append(("stripped-stored", "%s shows header %r" % (where, hk)))
            for key, what in problems[:4]:
                mismatches += 1
                rep(key, what, case, {"observed": {"message": mid, "where": sorted(seen_where)}, "expected": {"payload_b64": want_b64, "headers": want_hdr}})
            if not problems and len(samples) < 6 and rng.random() < 0.01:
                samples.append({"case": {kk: case[kk] for kk in ("backend", "route", "max_body", "wire_headers", "body_b64")}, "stored_headers": want_hdr})
        # ---- publish path
        for p, po in zip(c["publish"], o["publish"]):
            evaluations += 1
            dist["publish_styles"] += 1
            item = p["item"]
            case = {"case_index": ci, "backend": c["backend"], "publish_item": item, "config": c["config"], "max_body": c["mb"]}
            nontrivial.add(C.sha([item, c["backend"], c["mb"]]))
            if po["status"] != 200:
                rep("publish-refused", "valid publish item refused: %d %s" % (po["status"], po["code"]), case, {"observed": po})
                continue
            mid = item["id"]
            want_b64 = b64(p["payload"])
            want_hdr = item["headers"]
            problems = []
            views = [("stored", stored.get(mid, {}).get("payload_b64"), stored.get(mid, {}).get("headers") or {})]
            seen_where = {}
            for ob in obs_by_id.get(mid, []):
                seen_where[ob["where"]] = seen_where.get(ob["where"], 0) + 1
                if ob["where"] == "push":
                    hl = {base64.b64decode(h["k"]).decode("utf-8", "replace"): [base64.b64decode(v).decode("utf-8", "replace") for v in h["v"]] for h in ob["hlist"]}
                    if ob["payload_b64"] != want_b64:
                        problems.append(("payload-push", "push delivered body %s, published payload %s" % (ob["payload_b64"][:80], want_b64[:80])))
                    for hk, hv in want_hdr.items():
                        ck = canon_py(hk).decode()
                        if ck.lower() in HOP:
                            continue
                        if hl.get(ck) != [hv]:
                            problems.append(("headers-push", "header %r delivered as %r, published %r" % (hk, hl.get(ck), hv)))
                else:
                    views.append((ob["where"], ob["payload_b64"], ob.get("headers") or {}))
            need = ["admin1", "pull_http1", "grpc", "admin2", "pull_http2"] if item["route"] == "/p" else ["admin1", "push"]
            for w in need:
                if w not in seen_where:
                    problems.append(("not-observed", "published message was not observed at %s" % w))
            for where, p64, hdrs in views:
                if p64 != want_b64:
                    problems.append(("payload-%s" % where.rstrip("12"), "%s returned payload %r, published payload decodes to %r" % (where, (p64 or "")[:80], want_b64[:80])))
                if hdrs != want_hdr:
                    problems.append(("headers-%s" % where.rstrip("12"), "%s returned headers %r, published %r" % (where, hdrs, want_hdr)))
            for key, what in problems[:4]:
                mismatches += 1
                rep("publish-" + key, what, case, {"observed": {"where": sorted(seen_where)}, "expected": {"payload_b64": want_b64, "headers": want_hdr}})

    # ---- the Go functions behind the byte-level models
    fn_eval, fn_mis, fn_broken = check_functions(ctx, info, rng)
    evaluations += fn_eval
    mismatches += fn_mis
    proof_broken += fn_broken

    cov.update({
        "evaluations": evaluations,
        "distinct_nontrivial": len(nontrivial),
        "rule": "one evaluation = one ingress request (or one published item) followed through every consumer path it can reach (white-box row, Admin listing, Pull HTTP, gRPC, push incl. one forced redelivery; again after nack and after reopening SQLite), or one string given to a Go function and its byte-level model; non-trivial = distinct (header lines, body, limits, forward-auth script, backend, route)",
        "samples": samples,
        "traces_validated_against_impl": evaluations,
        "model_impl_mismatches": mismatches,
        "input_distribution": dist,
        "function_comparisons": fn_eval,
    })
    return C.conclude(ctx, info, cov, assumptions, proof_broken=proof_broken,
                      searched_note="all generated requests were followed end to end on the implementation")


# ---------------------------------------------------------------------------

def check_functions(ctx, info, rng):
    """canon_key / trim_space / lower / Base64 / ValidateMap / copyHeadersWithExtra against the Go functions"""
    n = 400 if ctx.tier == "quick" else 3000
    boundary = [0, 9, 10, 13, 31, 32, 33, 34, 39, 40, 44, 45, 46, 47, 48, 57, 58, 64, 65, 90, 91, 94, 95, 96, 97, 122, 123, 124, 125, 126, 127, 128, 160, 194, 255]

    def rbytes(k, alpha=None):
        return bytes(rng.choice(alpha) if alpha else rng.randrange(256) for _ in range(k))

    canon = [b"", b"a", b"-", b"a-b", b"A-B", b"x y", b"x-\xc3\xa9", b"content-md5", b"CONTENT-LENGTH", b"x--y", b"-x", b"x-", b"1a-2b", b"x_a-b"]
    tokens = (TOKEN_SPECIALS + "abcXYZ019").encode()
    for _ in range(n):
        s = bytearray(rbytes(rng.randrange(0, 12), tokens))
        if rng.random() < 0.3 and s:
            s[rng.randrange(len(s))] = rng.choice(boundary)
        canon.append(bytes(s))
    for c in boundary:
        canon.append(b"ab-" + bytes([c]) + b"cd-ef")
    spaces = [" ", "\t", "\n", "\v", "\f", "\r", "\u0085", "\u00a0", "\u1680", "\u2000", "\u2001", "\u2005", "\u200a", "\u2028", "\u2029",
              "\u202f", "\u205f", "\u3000", "\u200b", "\u00a1", "\ufeff", "\u180e", "x", "\u00e9", "\x1c", "\x1f", "\x00", "\u2060", "\u0084", "\u00a0\u00a0"]
    trim = [""]
    for _ in range(n):
        trim.append("".join(rng.choice(spaces) for _ in range(rng.randrange(0, 4))) + rng.choice(["", "a", "a b", "é x", " "]) +
                    "".join(rng.choice(spaces) for _ in range(rng.randrange(0, 4))))
    trim = [t.encode() for t in trim]
    lower = [rbytes(rng.randrange(0, 14), bytes(range(128))) for _ in range(n)] + [b"AUTHORIZATION", b"Proxy-Authorization", b"COOKIE", b"[\\]^_`@"]
    enc = [b"", b"\x00", b"\xff", b"\x00\x00", b"\xff\xff\xff"] + [rbytes(k) for k in range(0, 40)] + [rbytes(rng.randrange(0, 200)) for _ in range(n // 4)]
    dec = []
    for _ in range(n):
        raw = rbytes(rng.randrange(0, 12))
        t = bytearray(base64.b64encode(raw))
        how = rng.randrange(9)
        if how == 1 and t:
            t[rng.randrange(len(t))] = rng.choice(b"-_ .!=\n\r*A")
        elif how == 2:
            t = t.rstrip(b"=")
        elif how == 3:
            t += rng.choice([b"=", b"==", b"A", b"\n", b"\r\n", b" ", b"AA==", b"===="])
        elif how == 4 and t:
            i = rng.randrange(len(t) + 1)
            t[i:i] = rng.choice([b"\n", b"\r", b"\r\n", b" ", b"\t"])
        elif how == 5:
            t = bytearray(rbytes(rng.randrange(0, 9), b"ABab01+/=-_\n"))
        elif how == 6 and len(t) >= 2:
            t = t[:-1]
        dec.append(bytes(t))
    dec += [b"", b"=", b"==", b"A", b"AA", b"AAA", b"AAAA", b"AA==", b"AAA=", b"A===", b"AA=A", b"AA=\n=", b"AB==", b"AAB=", b"\n", b"\r\n\r\n", b"AA==\n", b"AA==A"]
    valid = []
    for _ in range(n):
        kk = bytearray(rbytes(rng.randrange(0, 8), tokens))
        if rng.random() < 0.4 and kk:
            kk[rng.randrange(len(kk))] = rng.choice(boundary)
        if rng.random() < 0.1:
            kk = bytearray(rng.choice([b" x", b"x ", b"\tx", b"x\n", b"", b" ", b"\xc2\xa0x", b"x\xc2\xa0"]))
        vv = bytearray(rbytes(rng.randrange(0, 8), b"abc ,;=\t\"") )
        if rng.random() < 0.4 and vv:
            vv[rng.randrange(len(vv))] = rng.choice(boundary)
        valid.append((bytes(kk), bytes(vv)))
    copies = []
    names = [nm.encode() for nm in NAMES + STRIP_VARIANTS] + [b"x y", b"\xc3\xa9", b"", b"x:y", b"COOKIE ", b"cookie\t"]
    for _ in range(n):
        h, seen = [], set()
        for _ in range(rng.randrange(0, 6)):
            k = rng.choice(names)
            if rng.random() < 0.3:
                k = bytes(c ^ 0x20 if (65 <= c <= 90 or 97 <= c <= 122) and rng.random() < 0.5 else c for c in k)
            ck = canon_py(k)
            if ck in seen:
                continue
            seen.add(ck)
            h.append((k, [rng.choice(VALUES).encode() for _ in range(rng.randrange(0, 4))]))
        extra = []
        eseen = set()
        for _ in range(rng.choice([0, 0, 1, 2])):
            k = rng.choice([b"X-User", b" x-org ", b"cookie", b"x-a", b"", b"  ", b"Authorization", b"X-Fwd"])
            ck = canon_py(k.strip())
            if ck in eseen:
                continue
            eseen.add(ck)
            extra.append((k, rng.choice(VALUES).encode()))
        size = sum(len(canon_py(k)) + len(b",".join(vs)) for k, vs in h if k.lower() not in [s.encode() for s in STRIPPED])
        mx = rng.choice([0, -1, 1, size - 1, size, size + 1, 65536, 65536])
        copies.append((h, mx, extra))
    payload = {"canon": [b64(x) for x in canon], "trim": [b64(x) for x in trim], "lower": [b64(x) for x in lower], "encode": [b64(x) for x in enc],
               "decode": [b64(x) for x in dec], "valid": [{"k": b64(k), "v": b64(v)} for k, v in valid],
               "copy": [{"h": [{"k": b64(k), "v": [b64(v) for v in vs]} for k, vs in h], "max": mx, "extra": [[b64(k), b64(v)] for k, v in extra]} for h, mx, extra in copies]}
    rc, out, err = C.harness_run(info["hbin"], ["fidelity-funcs"], payload)
    if rc != 0:
        raise RuntimeError("fidelity-funcs failed: " + err[-1500:])
    impl = json.loads(out)
    lines = list(HDR)
    lines.append("Definition Rcanon := Eval vm_compute in map canon_key [%s]." % "; ".join(cbytes(x) for x in canon))
    lines.append("Definition Rtrim := Eval vm_compute in map trim_space [%s]." % "; ".join(cbytes(x) for x in trim))
    lines.append("Definition Rlower := Eval vm_compute in map lower [%s]." % "; ".join(cbytes(x) for x in lower))
    lines.append("Definition Renc := Eval vm_compute in map encode [%s]." % "; ".join(cbytes(x) for x in enc))
    lines.append("Definition Rdec := Eval vm_compute in map decode [%s]." % "; ".join(cbytes(x) for x in dec))
    lines.append("Definition Rvalid := Eval vm_compute in map (fun e => if validate_map [e] then 1 else 0) [%s]." %
                 "; ".join("(%s, %s)" % (cbytes(k), cbytes(v)) for k, v in valid))
    lines.append("Definition Rcopy := Eval vm_compute in [%s]." % ";\n ".join(
        "enc (copy_headers [%s] (%d)%%Z [%s])" % ("; ".join("(%s, [%s])" % (cbytes(k), "; ".join(cbytes(v) for v in vs)) for k, vs in h), mx,
                                                   "; ".join("(%s, %s)" % (cbytes(k), cbytes(v)) for k, v in extra)) for h, mx, extra in copies))
    for nm in ("Rcanon", "Rtrim", "Rlower", "Renc", "Rdec", "Rvalid", "Rcopy"):
        lines.append("Print %s." % nm)
    rc, txt = C.coq_eval_cases(ctx, "c07funcs", "\n".join(lines) + "\n")
    broken = []
    if rc != 0:
        return 0, 0, ["model evaluation of the function comparisons failed: " + txt[-1200:]]
    mis = 0
    total = 0

    def cmp(name, inputs, got, modelv, conv):
        nonlocal mis, total
        for x, g, m in zip(inputs, got, modelv):
            total += 1
            if conv(g) != m:
                mis += 1
                C.report(ctx, "func-%s" % name, "Go %s and its model disagree on %r: Go %r, model %r" % (name, x, conv(g), m),
                         {"kind": "request", "function": name, "input": repr(x), "observed": repr(conv(g)), "expected": repr(m)})

    tob = lambda s: list(base64.b64decode(s))  # noqa
    cmp("CanonicalHeaderKey", canon, impl["canon"], parse_coq(txt, "Rcanon"), tob)
    cmp("TrimSpace", trim, impl["trim"], parse_coq(txt, "Rtrim"), tob)
    cmp("ToLower", lower, impl["lower"], parse_coq(txt, "Rlower"), tob)
    cmp("base64-encode", enc, impl["encode"], parse_coq(txt, "Renc"), lambda s: list(s.encode()))
    cmp("base64-decode", dec, impl["decode"], parse_coq(txt, "Rdec"), lambda s: None if s is None else list(base64.b64decode(s)))
    cmp("ValidateMap", valid, impl["valid"], parse_coq(txt, "Rvalid"), lambda b: 1 if b else 0)

    def conv_copy(c):
        if not c["ok"]:
            return None
        return sorted((list(base64.b64decode(k)), list(base64.b64decode(v))) for k, v in (c["m"] or []))

    mc = [None if m is None else sorted((list(k), list(v)) for k, v in m) for m in parse_coq(txt, "Rcopy")]
    cmp("copyHeadersWithExtra", copies, impl["copy"], mc, conv_copy)
    return total, mis, broken
