"""Stand-alone driver for the rate-limit / size-limit part of C12 (lib/c12rl.py), for development:
./check C12RL --tier quick.  The integrator calls lib.c12rl.run from props/c12.py instead."""
import random

from lib import common as C
from lib import c12rl


def main(ctx, replay):
    rng = random.Random(ctx.seed)
    info = C.prologue(ctx)
    if info["hbin"] is None:
        raise C.HarnessBuildFailed(info.get("go_log", ""))
    frag = c12rl.run(ctx, info, rng)
    # stand-alone: the obligations are the theorems of Properties/C12rl.v (checked inside run)
    info["theorems"] = frag.get("rl_theorems", [])
    info["prop_ok"] = frag.get("rl_obligations", 0) > 0 and frag.get("rl_discharged") == frag.get("rl_obligations")
    info["closed"] = frag.get("rl_print_assumptions_closed", 0)
    info["axioms"] = frag.get("rl_print_assumptions_axioms", [])
    info["prop_log"] = frag.get("rl_proof_broken", "")
    cov = C.proof_coverage(info, "C12rl")
    cov.update({
        "evaluations": frag["rl_evaluations"],
        "distinct_nontrivial": frag["rl_distinct_nontrivial"],
        "rule": frag["rl_rule"],
        "samples": frag["rl_samples"],
        "traces_validated_against_impl": frag["rl_evaluations"],
        "model_impl_mismatches": frag["rl_model_impl_mismatches"],
        "model_evaluated_in_coq": frag["rl_model_evaluated_in_coq"],
        "input_distribution": frag["rl_input_distribution"],
        "module_wall_s": frag["rl_wall_s"],
    })
    broken = C.proof_status(info, "C12rl")
    if not frag["rl_model_evaluated_in_coq"] and not broken:
        broken = ["the Coq model could not be evaluated on the generated cases: %s" % frag.get("rl_model_failure")]
    return C.conclude(ctx, info, cov, frag["rl_assumptions"], proof_broken=broken,
                      searched_note="all generated arrival sequences, configs and HTTP requests were run on the implementation")
