"""C10 - ingress route resolution and channel isolation."""
import json
import os
import random
import re

from lib import common as C
from lib import c10c11 as L

PATHS = ["/", "/hooks", "/hooks/partner", "/hooks/partner/x", "/hooksx", "/jobs", "/jobs/deploy", "/jobs/nightly",
         "/a", "/a/b", "/a.b", "/api/v1", "/API/v1", "/hook"]
# further overlapping paths for the LARGE route tables (13-26 routes, inbound / outbound / internal interleaved): tables longer than
# any small-collection threshold of a sort or search
MORE_PATHS = ["/t", "/t/s", "/t/s/s", "/t/s/s/s", "/u", "/u/v", "/u/v/w", "/x", "/x/y", "/hooks/partner/x/y", "/jobs/deploy/now", "/a/b/c"]
HOST_PATTERNS = ["example.com", "*.example.com", "*", "api.example.com:8443", "Example.COM.", "[::1]", "[2001:db8::1]:443",
                 "192.0.2.1", "*.com", "other.org", "sub.api.example.com", "*.api.example.com"]
REQ_HOSTS = ["example.com", "api.example.com", "a.b.example.com", "evilexample.com", "example.com.", "api.example.com.",
             "api.example.com.:8080", "example.com.:8080", "API.EXAMPLE.COM:443", "Example.Com", "[::1]:8080", "[::1]", "[2001:db8::1]",
             "[2001:DB8::1]:443", "192.0.2.1:80", "192.0.2.1", "other.org", "*.example.com", ".example.com", "xexample.com:8443",
             "api.notexample.com", "com", "sub.api.example.com", "x.sub.api.example.com:1", "localhost", "a", "example.com:", "", None]
HDR_NAMES = ["X-Event", "X-Tenant", "x-sig", "X-GitHub-Event"]
HDR_VALUES = ["push", "pull", "acme", "Push"]
Q_NAMES = ["env", "token", "v"]
Q_VALUES = ["prod", "dev", "1"]
REMOTE_PATTERNS = ["203.0.113.0/24", "203.0.113.7", "2001:db8::/32", "::1", "127.0.0.0/8", "::ffff:203.0.113.0/120", "0.0.0.0/0",
                   "::/0", "198.51.100.0/25", "2001:db8:1::5", "10.0.0.0/8"]
REMOTES = ["203.0.113.7:1234", "203.0.113.7", "203.0.114.7:1", "[2001:db8::5]:443", "2001:db8::5", "[2001:db9::5]:443",
           "[::ffff:203.0.113.7]:80", "::ffff:203.0.113.7", "198.51.100.1:1", "198.51.100.200:1", "[fe80::1%eth0]:1", "", "garbage",
           " 203.0.113.7:1 ", "[::1]:80", "127.0.0.1:9", "@", "203.0.113.7:", "[203.0.113.7]:5", "10.1.2.3:4", "[2001:db8:1::5]:1",
           "[::ffff:10.1.2.3]:7", "203.0.113.7:1:2"]
# long allowlists of nested / overlapping prefixes (a list longer than any plausible small-list threshold), and clients inside a broad
# prefix whose nearest listed neighbours are narrower ranges that do not contain them
LONG_REMOTE_POOL = ["10.0.0.0/8", "10.20.30.0/24", "10.20.0.0/16", "10.99.0.0/24", "10.200.0.0/13", "172.16.0.0/12", "172.20.1.0/24", "172.31.255.0/24",
                    "192.168.0.0/16", "192.168.5.0/24", "192.168.5.128/25", "198.51.100.0/25", "203.0.113.0/24", "203.0.113.128/25", "203.0.113.7",
                    "2001:db8::/32", "2001:db8:1::/48", "2001:db8:1:2::/64", "2001:db8:ffff::/48", "fd00::/8", "fd12:3456::/32"]
LONG_REMOTES = ["10.99.1.7:40000", "10.20.31.1:1", "10.21.0.1:1", "10.255.255.255:1", "172.20.2.1:1", "172.16.0.1:9", "192.168.6.6:1", "192.168.5.200:1",
                "203.0.113.5:1", "203.0.113.200:1", "[2001:db8:2::1]:1", "[2001:db8:1:3::1]:1", "[2001:db8:ffff:1::9]:2", "[fd13::1]:1", "[fd12:3456:1::1]:1",
                "11.0.0.1:1", "172.32.0.1:1", "[2001:db9::1]:1"]
METHODS = ["POST", "GET", "PUT", "DELETE", "PATCH", "HEAD", "OPTIONS", "post", "PURGE"]
CFG_METHODS = ["POST", "GET", "PUT", "DELETE", "put", "PATCH"]


def q(s):
    return '"' + s.replace("\\", "\\\\").replace('"', '\\"') + '"'


def gen_match(rng):
    lines = []
    if rng.random() < 0.35:
        lines.append("method " + " ".join(rng.sample(CFG_METHODS, rng.randint(1, 3))))
    if rng.random() < 0.35:
        lines.append("host " + " ".join(q(h) for h in rng.sample(HOST_PATTERNS, rng.randint(1, 2))))
    if rng.random() < 0.25:
        for _ in range(rng.randint(1, 2)):
            lines.append("header %s %s" % (q(rng.choice(HDR_NAMES)), q(rng.choice(HDR_VALUES))))
    if rng.random() < 0.12:
        lines.append("header_exists " + q(rng.choice(HDR_NAMES)))
    if rng.random() < 0.2:
        lines.append("query %s %s" % (q(rng.choice(Q_NAMES)), q(rng.choice(Q_VALUES))))
    if rng.random() < 0.15:
        lines.append("query_exists " + q(rng.choice(Q_NAMES)))
    if rng.random() < 0.25:
        lines.append("remote_ip " + " ".join(q(p) for p in rng.sample(REMOTE_PATTERNS, rng.randint(1, 2))))
    elif rng.random() < 0.16:
        lines.append("remote_ip " + " ".join(q(p) for p in rng.sample(LONG_REMOTE_POOL, rng.randint(9, 17))))
    return lines


def gen_config(rng, ci):
    """A Hookaidofile with inbound / outbound / internal routes in random order and overlapping paths."""
    if ci % 4 == 3:
        n = rng.randint(13, len(PATHS) + len(MORE_PATHS))
        paths = rng.sample(PATHS + MORE_PATHS, n)
    else:
        n = rng.randint(2, 8)
        paths = rng.sample(PATHS, n)
    blocks = []
    meta = []
    pulln = 0
    for p in paths:
        kind = rng.choices(["inbound", "outbound", "internal"], [0.6, 0.2, 0.2])[0]
        body = []
        if kind == "outbound":
            for t in range(rng.randint(1, 2)):
                body.append("deliver %s {}" % q("https://t%d.example/%d%s" % (ci, t, p)))
            form = rng.choice(["short", "wrap"])
        elif kind == "internal":
            pulln += 1
            body.append("pull { path %s }" % q("/pull/c%dn%d" % (ci, pulln)))
            form = rng.choice(["short", "wrap"])
        else:
            m = gen_match(rng)
            if m:
                body.append("match {\n    " + "\n    ".join(m) + "\n  }")
            if rng.random() < 0.5:
                pulln += 1
                body.append("pull { path %s }" % q("/pull/c%dn%d" % (ci, pulln)))
            else:
                for t in range(rng.randint(1, 3)):
                    body.append("deliver %s {}" % q("https://t%d.example/%d%s" % (ci, t, p)))
            form = rng.choice(["bare", "bare", "short", "wrap"])
        inner = "%s {\n  %s\n}" % (q(p) if rng.random() < 0.7 else p, "\n  ".join(body))
        if form == "bare":
            blocks.append(inner)
        elif form == "short":
            blocks.append("%s %s" % (kind, inner))
        else:
            blocks.append("%s {\n%s\n}" % (kind, inner))
        meta.append((kind, p))
    head = ['ingress { listen "__INGRESS__" }',
            'pull_api {\n  listen "__PULL__"\n  auth token "raw:verif-c10"\n}',
            'admin_api { listen "__ADMIN__" }']
    # a `vars` block makes Compile work on an expanded copy of the parsed file instead of the file itself: the copy must carry every
    # route's channel; sometimes a placeholder is also used inside a deliver URL
    if ci % 3 == 1:
        head.append('vars {\n  TARGET_BASE "https://vars%d.example"\n  UNUSED_NOTE "x"\n}' % ci)
        if rng.random() < 0.5:
            blocks = [b.replace('"https://t%d.example/0' % ci, '"{vars.TARGET_BASE}/0') for b in blocks]
    return "\n".join(head + blocks) + "\n", meta



def gen_named_matcher_pair(rng, ci):
    """One meaning, two spellings: routes that take their criteria from shared named matchers (`match @a @b`), and the same routes
    with every reference expanded into the route's own match block (inline criteria first, then each referenced matcher's lines in
    reference order - the order in which compile folds them).  The compiled criteria and every routing decision must be equal."""
    nm = rng.randint(2, 4)
    matchers = []
    # half of the pairs: one criterion kind that the first (shared) matcher lists 3/5/6/7 times and every other matcher lists too,
    # so that each route extends, by a further reference, a list it took over from the shared matcher
    focus = rng.choice(["remote_ip", "host", "method", "header", "query", "header_exists", "query_exists"]) if ci % 2 == 0 else None
    for k in range(nm):
        lines = []
        kinds = rng.sample(["remote_ip", "host", "method", "header", "query", "header_exists", "query_exists"], rng.randint(1, 3))
        if focus:
            kinds = [focus] + [x for x in kinds if x != focus][:1]
        for kind in kinds:
            n = rng.choice([1, 2, 3, 3, 5, 6, 7])
            if focus and kind == focus:
                n = rng.choice([3, 5, 6, 7]) if k == 0 else rng.choice([1, 2])
            if kind == "remote_ip":
                lines.append("remote_ip " + " ".join(q(p) for p in rng.sample(REMOTE_PATTERNS, min(n, len(REMOTE_PATTERNS)))))
            elif kind == "host":
                lines.append("host " + " ".join(q(h) for h in rng.sample(HOST_PATTERNS, min(n, len(HOST_PATTERNS)))))
            elif kind == "method":
                lines.append("method " + " ".join(rng.sample(CFG_METHODS, min(n, len(CFG_METHODS)))))
            elif kind == "header":
                for _ in range(n):
                    lines.append("header %s %s" % (q(rng.choice(HDR_NAMES)), q(rng.choice(HDR_VALUES))))
            elif kind == "query":
                for _ in range(n):
                    lines.append("query %s %s" % (q(rng.choice(Q_NAMES)), q(rng.choice(Q_VALUES))))
            elif kind == "header_exists":
                for _ in range(n):
                    lines.append("header_exists " + q(rng.choice(HDR_NAMES)))
            else:
                for _ in range(n):
                    lines.append("query_exists " + q(rng.choice(Q_NAMES)))
        matchers.append(("m%d_%d" % (ci, k), lines))
    nr = rng.randint(2, 5)
    paths = rng.sample(PATHS, nr)
    head = ['ingress { listen "__INGRESS__" }', 'pull_api {\n  listen "__PULL__"\n  auth token "raw:verif-c10"\n}', 'admin_api { listen "__ADMIN__" }']
    ref_blocks = ["@%s {\n  %s\n}" % (name, "\n  ".join(lines)) for name, lines in matchers]
    ref_routes, exp_routes = [], []
    for ri, pth in enumerate(paths):
        refs = [rng.choice(matchers) for _ in range(rng.randint(1, 3))]
        if focus:
            refs = [matchers[0], matchers[1 + ri % (nm - 1)]] + refs[2:]
        elif ri > 0 and rng.random() < 0.7:
            refs[0] = matchers[0]          # several routes start from the same matcher
        inline = gen_match(rng) if (rng.random() < 0.35 and not focus) else []
        tail = "pull { path %s }" % q("/pull/nm%dn%d" % (ci, ri))
        rb = []
        if inline:
            rb.append("match {\n    " + "\n    ".join(inline) + "\n  }")
        if rng.random() < 0.5:
            rb.append("match " + " ".join("@" + n for n, _ in refs))
        else:
            rb += ["match @" + n for n, _ in refs]
        ref_routes.append("%s {\n  %s\n  %s\n}" % (q(pth), "\n  ".join(rb), tail))
        allx = list(inline) + [l for _, ls in refs for l in ls]
        exp_routes.append("%s {\n  match {\n    %s\n  }\n  %s\n}" % (q(pth), "\n    ".join(allx), tail))
    return "\n".join(head + ref_blocks + ref_routes) + "\n", "\n".join(head + exp_routes) + "\n"


def named_matcher_equivalence(ctx, info, rng, requests, quick):
    n = 24 if quick else 200
    pairs = [gen_named_matcher_pair(rng, 9000 + i) for i in range(n)]
    texts = [t for pr in pairs for t in pr]
    rc, out, err = C.harness_run(info["hbin"], ["resolve"], {"configs": texts, "requests": requests})
    if rc != 0:
        raise RuntimeError("resolve harness failed (named matchers): " + err[-1500:])
    outs = json.loads(out)["configs"]
    stats = {"pairs": n, "both_compiled": 0, "decisions_compared": 0, "shared_first_matcher_routes": 0}
    keys = ("channel", "path", "methods", "hosts", "headers", "header_exists", "query", "query_exists", "remote", "targets")
    for i, (tr, tx) in enumerate(pairs):
        a, b = outs[2 * i], outs[2 * i + 1]
        if a["ok"] != b["ok"]:
            C.report(ctx, "named-matcher:compile-differs", "the configuration with named matchers %s, its expanded spelling %s" % (
                "compiles" if a["ok"] else "is refused", "compiles" if b["ok"] else "is refused"),
                {"kind": "program", "case": {"config_with_references": tr, "config_expanded": tx}, "observed": {"errors": [a.get("errors"), b.get("errors")]}})
            continue
        if not a["ok"]:
            continue
        stats["both_compiled"] += 1
        ra = [{k: r.get(k) for k in keys} for r in a["routes"]]
        rb = [{k: r.get(k) for k in keys} for r in b["routes"]]
        diff_rows = [ri for ri, (x, y) in enumerate(zip(a["rows"], b["rows"])) if (x["status"], x.get("new")) != (y["status"], y.get("new"))]
        stats["decisions_compared"] += len(a["rows"])
        if diff_rows:
            ri = diff_rows[0]
            rq = requests[ri]
            C.report(ctx, "named-matcher:decision-differs",
                     "a request is routed differently by a configuration whose routes reference shared named matchers and by the same configuration with the "
                     "references written out: status %s vs %s" % (a["rows"][ri]["status"], b["rows"][ri]["status"]),
                     {"kind": "request", "case": {"config_with_references": tr, "config_expanded": tx,
                                                  "request": {k: (L.show(v) if isinstance(v, str) and k in ("method", "target", "host", "remote") else v) for k, v in rq.items() if k != "headers"},
                                                  "headers": [[L.show(x), L.show(y)] for x, y in rq["headers"]]},
                      "observed": {"with_references": a["rows"][ri], "expanded": b["rows"][ri]},
                      "compiled_criteria_differ_in_routes": [k for k, (x, y) in enumerate(zip(ra, rb)) if x != y]})
        elif ra != rb:
            k = next(k for k, (x, y) in enumerate(zip(ra, rb)) if x != y)
            C.report(ctx, "named-matcher:criteria-differ",
                     "route %d compiles to different criteria when its matchers are referenced by name than when they are written out" % k,
                     {"kind": "program", "case": {"config_with_references": tr, "config_expanded": tx}, "observed": {"with_references": ra[k], "expanded": rb[k]},
                      "no_failing_input_found": True, "names": "correspondence compile(named matchers) = compile(expanded)"})
    return stats


def path_variants(rng, p):
    outs = [p, p + "/", p + "/x", p + "/x/y", p + "//", p + "/.", p + "/..", p + "/./x", p + "x", p + ".",
            "/" + p.lstrip("/") if p != "/" else "//", p + "/%2e%2e/jobs", p + "/../jobs", p + "/../hooks/partner",
            p.replace("/", "//"), p.replace("/", "/./"), p.upper(), p + "%2Fx", p + "/..%2f..", "/x/.." + p, "/x/../.." + p,
            p + "/../../../jobs/deploy", p[:-1] if len(p) > 1 else "/", p + "%00", p + "/%2E", p + ";v=1", p + "/ ".replace(" ", "%20")]
    return outs


def gen_requests(rng, n_http, n_direct):
    reqs = []

    def mk(mode):
        p = rng.choice(PATHS) if rng.random() < 0.7 else rng.choice(MORE_PATHS)
        target = rng.choice(path_variants(rng, p)) if rng.random() < 0.6 else p
        qs = []
        r = rng.random()
        if r < 0.5:
            for _ in range(rng.randint(1, 3)):
                name = rng.choice(Q_NAMES)
                form = rng.randrange(5)
                if form == 0:
                    qs.append(name)
                elif form == 1:
                    qs.append(name + "=")
                elif form == 2:
                    qs.append(name + "=" + rng.choice(Q_VALUES).replace("p", "%70"))
                else:
                    qs.append(name + "=" + rng.choice(Q_VALUES))
        if qs:
            target += "?" + "&".join(qs)
        host = rng.choice(REQ_HOSTS)
        if host == "" and mode == "http":
            host = "a"
        headers = []
        if rng.random() < 0.6:
            for _ in range(rng.randint(1, 4)):
                name = rng.choice(HDR_NAMES)
                name = rng.choice([name, name.lower(), name.upper()])
                v = rng.choice(HDR_VALUES)
                v = rng.choice([v, v, "a, %s ,b" % v, "a,%s" % v, v + "x", " " + v + " ", "a,\xa0%s\xa0" % v, v.upper()])
                headers.append((name, v))
        method = rng.choice(METHODS) if rng.random() < 0.5 else "POST"
        rq = {"mode": mode, "method": L.hx(method), "target": L.hx(target), "host": None if host is None else L.hx(host),
              "headers": [[L.hx(a), L.hx(b)] for a, b in headers], "remote": ""}
        if mode == "direct":
            if not target.startswith("/"):
                rq["target"] = L.hx("/" + target)
            rq["remote"] = L.hx(rng.choice(REMOTES) if rng.random() < 0.65 else rng.choice(LONG_REMOTES))
        return rq

    for _ in range(n_http):
        reqs.append(mk("http"))
    for _ in range(n_direct):
        reqs.append(mk("direct"))
    # fixed corpus: the shapes the property text names
    def fx(mode, method, target, host, headers=(), remote="203.0.113.7:1"):
        return {"mode": mode, "method": L.hx(method), "target": L.hx(target), "host": None if host is None else L.hx(host),
                "headers": [[L.hx(a), L.hx(b)] for a, b in headers], "remote": L.hx(remote) if mode == "direct" else ""}
    corpus = []
    for p in PATHS:
        corpus.append(fx("http", "POST", p, "example.com"))
        corpus.append(fx("http", "POST", p + "/evt", "api.example.com:8443"))
        corpus.append(fx("direct", "POST", p, "api.example.com", (), "203.0.113.7:4000"))
        corpus.append(fx("direct", "POST", p, "api.example.com", (("X-Event", "push"), ("X-Tenant", "acme")), "[::ffff:203.0.113.7]:4000"))
    corpus += [fx("http", "OPTIONS", "*", "a"), fx("http", "GET", "http://api.example.com/hooks/partner", "ignored.example"),
               fx("http", "POST", "/hooks", None), fx("http", "POST", "/hooks partner", "a"),
               fx("http", "POST", "/hooks/%zz", "a"), fx("http", "POST", "/hooks/\xff", "a")]
    return corpus + reqs


def route_coq(r):
    pf = "; ".join("{| p_v4 := %s; p_addr := %s; p_len := %d |}" % (C.coq_bool(p["v4"]), p["addr"], p["bits"]) for p in (r["remote"] or []))
    return ("{| r_channel := %s; r_path := %s; r_methods := %s; r_hosts := %s; r_headers := %s; r_header_exists := %s; "
            "r_query := %s; r_query_exists := %s; r_remote := [%s]; r_targets := %s |}" % (
                L.cb(L.hx(r["channel"])), L.cb(r["path"]), L.cbs(r["methods"]), L.cbs(r["hosts"]), L.cpairs(r["headers"]),
                L.cbs(r["header_exists"]), L.cpairs(r["query"]), L.cbs(r["query_exists"]), pf, L.cbs(r["targets"])))


def req_coq(s):
    return ("{| q_method := %s; q_url_path := %s; q_host := %s; q_headers := %s; q_query := %s; q_remote := [] |}" % (
        L.cb(s["method"]), L.cb(s["path"]), L.cb(s["host"]), L.ckv(s["headers"]), L.ckv(s["query"])))


MODEL_DEFS = """
Definition tbl : list (bytes * ip) := [%(tbl)s].
Fixpoint lookup (s : bytes) (l : list (bytes * ip)) : option ip :=
  match l with [] => None | (k, v) :: t => if beq s k then Some v else lookup s t end.
Definition parse (s : bytes) : option ip := lookup s tbl.
Definition set_remote (q : request) (r : bytes) : request :=
  {| q_method := q_method q; q_url_path := q_url_path q; q_host := q_host q; q_headers := q_headers q; q_query := q_query q; q_remote := r |}.
Definition dummy : request := {| q_method := []; q_url_path := []; q_host := []; q_headers := []; q_query := []; q_remote := [] |}.
Definition strip (r : route) : route :=
  {| r_channel := []; r_path := r_path r; r_methods := r_methods r; r_hosts := r_hosts r; r_headers := r_headers r;
     r_header_exists := r_header_exists r; r_query := r_query r; r_query_exists := r_query_exists r; r_remote := r_remote r; r_targets := r_targets r |}.
(* index; status when unresolved; routes whose path matches; index if channels were ignored; Allow value *)
(* one number per case (fast to print): base-256 digits 1, idx, status code, #path matches, idx ignoring channels, Allow bytes *)
Definition pack (l : list N) : N := fold_left (fun acc x => acc * 256 + x) l 1.
Definition run (rs : list route) (q0 : request) (remote : bytes) : N :=
  let q := set_remote q0 remote in
  let p := ingress_request_path (q_url_path q) in
  let idx := resolve_index parse rs q p 0 in
  let al := allowed_methods parse rs q p in
  let st := if idx =? 0 then (match al with [] => 404 | _ => 405 end) else 0 in
  let np := N.of_nat (List.length (filter (fun r => match_path p (r_path r)) rs)) in
  let idx_nochan := resolve_index parse (map strip rs) q p 0 in
  pack (idx :: (if st =? 404 then 1 else if st =? 405 then 2 else 0) :: N.min np 255 :: idx_nochan :: (match al with [] => [] | _ => join comma_space al end)).
Definition reqs : list request := [%(reqs)s].
Definition remotes : list bytes := [%(remotes)s].
"""


def classify(route, other):
    tags = set()
    for r in (route, other):
        if not r:
            continue
        if r["hosts"]:
            tags.add("host")
        if r["headers"] or r["header_exists"]:
            tags.add("header")
        if r["query"] or r["query_exists"]:
            tags.add("query")
        if r["remote"]:
            tags.add("remote-ip")
        if r["methods"]:
            tags.add("method")
    return "+".join(sorted(tags)) or "path-only"


def judge(m, routes, row, new):
    """compare one model row with what the implementation did; returns (problems, key, expected)"""
    idx, st, allow = m[0], m[1], bytes(m[4:]).hex()
    problems, key = [], None
    if idx > 0:
        r = routes[idx - 1]
        want = sorted((r["path"], t) for t in (r["targets"] or [L.hx("pull")]))
        exp = {"route": L.show(r["path"]), "status": 202, "enqueued": [[L.show(a), L.show(b)] for a, b in want]}
        if row["status"] != 202 or sorted(new) != want:
            got_routes = sorted({a for a, _ in new})
            other = next((x for x in routes if got_routes and x["path"] == got_routes[0]), None)
            problems.append("model resolves to route #%d %s; implementation answered %s and enqueued on %s" % (
                idx, L.show(r["path"]), row["status"], [L.show(x) for x in got_routes]))
            key = "wrong-route:" + classify(r, other)
    else:
        exp = {"route": None, "status": st, "allow": L.show(allow) if st == 405 else None, "enqueued": []}
        if new:
            got_routes = sorted({a for a, _ in new})
            other = next((x for x in routes if x["path"] == got_routes[0]), None)
            problems.append("no route matches in the model but the implementation enqueued on %s (status %s)" % ([L.show(x) for x in got_routes], row["status"]))
            key = "unmatched-request-enqueued:" + classify(other, None)
        elif row["status"] != st:
            problems.append("no route matches: model status %d, implementation %d" % (st, row["status"]))
            key = "status-%d-vs-%d" % (st, row["status"])
        else:
            want_allow = [allow] if st == 405 else []
            if (row["allow"] or []) != want_allow:
                problems.append("Allow header: model %s, implementation %s" % ([L.show(a) for a in want_allow], [L.show(a) for a in row["allow"] or []]))
                key = "allow-header"
    return problems, key, exp


def gen_strings(rng, n, seen_paths, seen_hosts):
    alpha_p = ["/", "/", ".", "..", "a", "b", "//", "/./", "/../", "x.y", "%2e", " ", "\x00", "\xc3\xa9"]
    paths = set(seen_paths)
    paths.update(L.hx(s) for s in ["", ".", "..", "/", "//", "/.", "/..", "a/..", "../..", "a/b/../../..", "/a/b/../../..", "abc", "/a/", "a//b", "..a", "a..", "/...", "/.../a", ".a/.b"])
    while len(paths) < n:
        k = rng.randint(1, 8)
        paths.add(L.hx("".join(rng.choice(alpha_p) for _ in range(k)).encode("latin-1")))
    hosts = set(seen_hosts)
    alpha_h = ["a", "B", ".", ":", "[", "]", "8", "::", "com", " ", "*", "-", ".:", "1:", "\t"]
    hosts.update(L.hx(h) for h in REQ_HOSTS if h is not None)
    hosts.update(L.hx(h) for h in ["[::1]:", "[::1", "::1]", "a:b:c", "[a]:1:2", "[[::1]]:80", "a]:1", "[a:b", ".", "..", ":", ":80", "a.:", " a.b. ", "A.B.:80", "[::1].:80", "[::1]:80.", "[a]b:1"])
    while len(hosts) < n:
        k = rng.randint(1, 7)
        hosts.add(L.hx("".join(rng.choice(alpha_h) for _ in range(k))))
    sp = [b" ", b"\t", b"\n", b"\v", b"\f", b"\r", b"\xc2\x85", b"\xc2\xa0", b"\xe1\x9a\x80", b"\xe2\x80\x80", b"\xe2\x80\x8a", b"\xe2\x80\xa8",
          b"\xe2\x80\xa9", b"\xe2\x80\xaf", b"\xe2\x81\x9f", b"\xe3\x80\x80", b"\xe2\x80\x8b", b"\xc2", b"\xa0", b"\xe2\x80", b"\x80", b"x", b"tok", b"\x1c", b"\x1f", b"\xe2", b"\xc2\x86"]
    trims = set(L.hx(x) for x in [b"", b" ", b"  a  ", b"\xc2\xa0a\xc2\xa0", b"a\xc2", b"\xa0a", b"\xe2\x80\x80\xe2\x80"])
    while len(trims) < n:
        k = rng.randint(1, 6)
        trims.add(L.hx(b"".join(rng.choice(sp) for _ in range(k))))
    keys = set(L.hx(k) for k in HDR_NAMES + ["x-event", "X-EVENT", "x--a", "-x", "a b", "x_y", "X-\xe9", "", "authorization", "x-forwarded-FOR", "a@b", "x-A-b1"])
    alpha_k = ["a", "B", "-", "x", "Z", "_", " ", "1", "@"]
    while len(keys) < min(n, 120):
        keys.add(L.hx("".join(rng.choice(alpha_k) for _ in range(rng.randint(1, 6)))))
    ppairs = set()
    rp = PATHS + ["", "/a/", "//", "/a.b/c"]
    for _ in range(n):
        r = rng.choice(rp)
        p = rng.choice([r, r + "/", r + "/x", r + "x", r[:-1], rng.choice(rp), r + "//", r.upper()])
        ppairs.add((L.hx(p), L.hx(r)))
    hpairs = set()
    doms = ["example.com", "com", "a.example.com", "", "e"]
    for _ in range(n):
        d = rng.choice(doms)
        pat = rng.choice(["*." + d, d, "*", "*.", "*" + d])
        h = rng.choice([d, "x." + d, "x" + d, "." + d, "a.b." + d, "*." + d, d + ".", "x-" + d, "", "x." + d + "x"])
        hpairs.add((L.hx(h), L.hx(pat)))
    return {"paths": sorted(paths), "hosts": sorted(hosts), "trims": sorted(trims), "hostports": sorted(hosts),
            "keys": sorted(keys), "path_pairs": sorted(ppairs), "host_pairs": sorted(hpairs)}


def main(ctx, replay):
    rng = random.Random(ctx.seed)
    info = C.prologue(ctx)
    if info["hbin"] is None:
        raise C.HarnessBuildFailed(info.get("go_log", ""))
    quick = ctx.tier == "quick"
    n_cfg = 50 if quick else 400
    n_http, n_direct = (100, 80) if quick else (300, 240)
    assumptions = [
        "net/http request parsing, url.Parse/URL.Query, netip.ParseAddr/ParsePrefix are taken from Go (the model receives what the handler sees; netip.ParseAddr as a table over every substring of the RemoteAddr values seen)",
        "strings.ToLower is modelled for ASCII (net/http refuses non-ASCII Host bytes before the handler); generated hosts are ASCII",
        "configurations carry no auth / rate limit so that a resolved request must be answered 202 and enqueued once per target",
    ]
    cov = C.proof_coverage(info, "C10")

    configs, metas = [], []
    for ci in range(n_cfg):
        t, m = gen_config(rng, ci)
        configs.append(t)
        metas.append(m)
    requests = gen_requests(rng, n_http, n_direct)

    # ---- implementation
    chunks = [list(range(n_cfg))] if quick else [list(range(i, n_cfg, 4)) for i in range(4)]
    cfg_out = [None] * n_cfg
    addrs = {}
    import concurrent.futures

    def run_chunk(idxs):
        for attempt in range(3):
            rc, out, err = C.harness_run(info["hbin"], ["resolve"], {"configs": [configs[i] for i in idxs], "requests": requests})
            if rc == 0:
                return idxs, json.loads(out)
        raise RuntimeError("resolve harness failed: " + err[-2000:])

    with concurrent.futures.ThreadPoolExecutor(max_workers=4) as ex:
        for idxs, o in ex.map(run_chunk, chunks):
            for i, co in zip(idxs, o["configs"]):
                cfg_out[i] = co
            for a in o["addrs"] or []:
                addrs[a["text"]] = a

    # ---- distinct seen requests / remotes
    req_index, req_list = {}, []
    rem_index, rem_list = {}, []
    cases = []   # per config: list of (row index, req idx, remote idx); alternatives appended at the end
    alt_pos = []
    bad_cfg = 0

    def intern_req(s):
        key = C.sha({k: s[k] for k in ("method", "path", "host", "headers", "query")})
        if key not in req_index:
            req_index[key] = len(req_list)
            req_list.append(s)
        return req_index[key]

    for ci, co in enumerate(cfg_out):
        lst = []
        if not co["ok"]:
            bad_cfg += 1
            cases.append(lst)
            alt_pos.append({})
            continue
        for ri, row in enumerate(co["rows"]):
            s = row["seen"]
            if s is None:
                continue
            if s["remote"] not in rem_index:
                rem_index[s["remote"]] = len(rem_list)
                rem_list.append(s["remote"])
            lst.append((ri, intern_req(s), rem_index[s["remote"]]))
        # "name.:port": normalizeHost strips the dot before the port, so the dot survives. The statement does not
        # fix the normal form; both readings are accepted (the as-written one is the model, the other the alternative).
        alts = []
        for (ri, qi, mi) in lst:
            h = L.unhx(req_list[qi]["host"])
            ah = re.sub(rb"\.(:[^:\]]*)$", rb"\1", h)
            if ah != h:
                s2 = dict(req_list[qi], host=ah.hex())
                alts.append((ri, intern_req(s2), mi))
        alt_pos.append({ri: len(lst) + k for k, (ri, _, _) in enumerate(alts)})
        cases.append(lst + alts)
    if bad_cfg > n_cfg // 4:
        raise RuntimeError("generator produced %d/%d configurations that do not compile, e.g. %s" % (
            bad_cfg, n_cfg, [c.get("errors") for c in cfg_out if not c["ok"]][:2]))

    # ---- model (sharded)
    tbl = "; ".join("(%s, {| ip_v4 := %s; ip_bits := %s; ip_zone := %s |})" % (
        L.cb(a["text"]), C.coq_bool(a["v4"]), a["bits"], C.coq_bool(a["zone"])) for a in addrs.values())
    defs = MODEL_DEFS % {"tbl": tbl, "reqs": ";\n ".join(req_coq(s) for s in req_list), "remotes": "; ".join(L.cb(r) for r in rem_list)}
    nshard = 12 if quick else 16
    shard_cfgs = [[ci for ci in range(n_cfg) if cfg_out[ci]["ok"] and ci % nshard == k] for k in range(nshard)]
    shard_cfgs = [s for s in shard_cfgs if s]
    bodies = []
    for s in shard_cfgs:
        b = [L.PRELUDE, defs]
        for ci in s:
            b.append("Definition cfg%d : list route := [%s]." % (ci, ";\n ".join(route_coq(r) for r in cfg_out[ci]["routes"])))
            pairs = "; ".join("(%d%%nat, %d%%nat)" % (a, r) for _, a, r in cases[ci])
            b.append("Definition out%d := Eval vm_compute in map (fun pr => run cfg%d (nth (fst pr) reqs dummy) (nth (snd pr) remotes [])) [%s].\nRedirect \"c10out%d\" Print out%d." % (ci, ci, pairs, ci, ci))
        bodies.append("\n".join(b) + "\n")
    results = C.coq_eval_shards(ctx, "c10cases", bodies)
    model = {}
    model_fail = []
    for s, (rc, out) in zip(shard_cfgs, results):
        if rc != 0:
            model_fail.append(out[-1500:])
            continue
        for ci in s:
            rows = L.parse_nested(L.read_redirect(ctx, "c10out%d" % ci), "out%d" % ci)
            if rows is None or len(rows) != len(cases[ci]):
                model_fail.append("could not parse out%d" % ci)
                continue
            dec = []
            for v in rows:
                bs = list(v.to_bytes((v.bit_length() + 7) // 8, "big"))[1:]
                bs[1] = {0: 0, 1: 404, 2: 405}[bs[1]]
                dec.append(bs)
            model[ci] = dec
    proof_broken = C.proof_status(info, "C10")
    if model_fail and not proof_broken:
        raise RuntimeError("model evaluation failed: " + model_fail[0])

    # ---- compare
    evaluations = 0
    col = L.Collector()
    nontrivial = set()
    samples = []
    dist = {"status": {}, "mode": {"http": 0, "direct": 0}, "pre_handler": 0, "resolved": 0, "isolation_exercised": 0,
            "first_match_among_several": 0, "405": 0, "404": 0, "configs": n_cfg - bad_cfg, "configs_rejected_by_compile": bad_cfg,
            "routes_by_channel": {"inbound": 0, "outbound": 0, "internal": 0}, "distinct_seen_requests": len(req_list)}
    mism = 0
    for ci, co in enumerate(cfg_out):
        if not co["ok"]:
            continue
        routes = co["routes"]
        # glue: what the file declares is what the compiled table says (same routes, same order, same channel)
        declared = [(p_, k_ if k_ != "inbound" else "") for (k_, p_) in metas[ci]]
        compiled = [(L.unhx(r["path"]).decode("latin-1"), r["channel"] if r["channel"] in ("outbound", "internal") else "") for r in routes]
        if sorted(declared) != sorted(compiled):
            col.add("declared-channel-lost", (len(routes), len(configs[ci])),
                     "the compiled route table differs from the declared one: declared %s, compiled %s" % (
                         [d for d in declared if d not in compiled][:4], [c for c in compiled if c not in declared][:4]),
                     {"kind": "config", "case": {"config": configs[ci]}, "observed": compiled, "expected": declared,
                      "how_to_replay": "./check C10 --replay <this file>"})
        for r in routes:
            dist["routes_by_channel"][r["channel"] if r["channel"] in ("outbound", "internal") else "inbound"] += 1
        seen_rows = {}
        for k, (ri, _, _) in enumerate(cases[ci]):
            seen_rows.setdefault(ri, k)
        for ri, row in enumerate(co["rows"]):
            evaluations += 1
            rq = requests[ri]
            dist["mode"][rq["mode"]] += 1
            dist["status"][str(row["status"])] = dist["status"].get(str(row["status"]), 0) + 1
            case = {"config": configs[ci], "request": {k: (L.show(v) if isinstance(v, str) and k in ("method", "target", "host", "remote") else v) for k, v in rq.items() if k != "headers"},
                    "headers": [[L.show(a), L.show(b)] for a, b in rq["headers"]]}
            new = [(a, b) for a, b in (row["new"] or [])]
            inbound_paths = {r["path"] for r in routes if r["channel"] not in ("outbound", "internal")}
            # P_C10 judged on the implementation alone
            size = (len(routes), len(configs[ci]) + len(rq["target"]) + 8 * len(rq["headers"]))
            isolated = False
            for (rt, tg) in new:
                if rt not in inbound_paths:
                    isolated = True
                    ch = next((r["channel"] for r in routes if r["path"] == rt), "?")
                    col.add("%s-route-served" % ch, size, "ingress enqueued a message on route %s declared %s (status %s)" % (L.show(rt), ch, row["status"]),
                             {"kind": "request", "case": case, "observed": {"status": row["status"], "enqueued": [[L.show(a), L.show(b)] for a, b in new]},
                              "expected": "404/405 and no queue effect: outbound/internal routes are not reachable from ingress",
                              "how_to_replay": "./check C10 --replay <this file>"})
            if row.get("err"):
                col.add("transport-error", size, "request could not be completed: " + row["err"], {"kind": "request", "case": case})
                continue
            if row["seen"] is None:
                dist["pre_handler"] += 1
                if new:
                    col.add("effect-without-handler", size, "queue changed although the handler was never entered", {"kind": "request", "case": case, "observed": row})
                continue
            if ci not in model:
                continue
            m = model[ci][seen_rows[ri]]
            idx, st, npath, idx_nochan = m[0], m[1], m[2], m[3]
            if npath > 0:
                nontrivial.add((ci, cases[ci][seen_rows[ri]][1], cases[ci][seen_rows[ri]][2]))
            if idx_nochan != idx:
                dist["isolation_exercised"] += 1
            if idx > 0:
                dist["resolved"] += 1
                if npath > 1:
                    dist["first_match_among_several"] += 1
            else:
                dist[str(st)] = dist.get(str(st), 0) + 1
            problems, key, exp = judge(m, routes, row, new)
            if problems and ri in alt_pos[ci]:
                p2, _, _ = judge(model[ci][alt_pos[ci][ri]], routes, row, new)
                if not p2:
                    problems = []
                    dist["host_dot_before_port_alternative_reading"] = dist.get("host_dot_before_port_alternative_reading", 0) + 1
            if problems:
                mism += 1
            if problems and not isolated:
                col.add(key, size, "; ".join(problems),
                         {"kind": "request", "case": case, "seen_by_handler": {k: (L.show(v) if isinstance(v, str) else v) for k, v in row["seen"].items()},
                          "observed": {"status": row["status"], "allow": [L.show(a) for a in row["allow"] or []], "enqueued": [[L.show(a), L.show(b)] for a, b in new]},
                          "expected": exp, "n_routes": len(routes), "how_to_replay": "./check C10 --replay <this file>"})
            elif not problems and len(samples) < 10 and rng.random() < (0.03 if (idx > 0 or st == 405 or idx_nochan != idx) else 0.0005):
                samples.append({"config_routes": [(mm[0], mm[1]) for mm in metas[ci]], "request": case["request"], "expected": exp})

    col.flush(ctx, priority=lambda k: 0 if k.endswith("-route-served") else 1 if k.startswith("unmatched-request-enqueued") else 2 if k.startswith("wrong-route") else 3)

    # ---- string functions: Coq byte models vs Go
    seen_paths = sorted({s["path"] for s in req_list})
    seen_hosts = sorted({s["host"] for s in req_list})
    sinp = gen_strings(rng, 400 if quick else 3000, seen_paths, seen_hosts)
    n_str, smism = L.strfuncs_compare(ctx, info, sinp, "c10")
    evaluations += n_str
    # same tolerance as above for "name.:port" (dot before the port): either normal form is accepted
    kept = []
    for mm in smism:
        if mm["func"] == "normalizeHost" and re.search(rb"\.:[^:\]]*$", L.unhx(mm["input"]).strip()) and L.unhx(mm["model"]).endswith(b".") and L.unhx(mm["model"])[:-1] == L.unhx(mm["impl"]):
            dist["host_dot_before_port_alternative_reading"] = dist.get("host_dot_before_port_alternative_reading", 0) + 1
            continue
        kept.append(mm)
    smism = kept
    seen_f = {}
    for mm in smism:
        seen_f[mm["func"]] = seen_f.get(mm["func"], 0) + 1
        if seen_f[mm["func"]] > 2:
            continue
        C.report(ctx, "strfunc:%s" % mm["func"], "Coq model of %s differs from Go on %s: model %s, Go %s" % (
            mm["func"], [L.show(x) for x in mm["input"]] if not isinstance(mm["input"], str) else L.show(mm["input"]),
            L.show(mm["model"]) if isinstance(mm["model"], str) else mm["model"], L.show(mm["impl"]) if isinstance(mm["impl"], str) else mm["impl"]),
                 {"kind": "request", "case": mm})

    # ---- the criteria the model is given come from the compiled configuration: tie compile itself by a second spelling of the same meaning
    dist["named_matcher_equivalence"] = named_matcher_equivalence(ctx, info, rng, requests, quick)
    evaluations += dist["named_matcher_equivalence"]["decisions_compared"]

    cov.update({
        "evaluations": evaluations,
        "distinct_nontrivial": len(nontrivial),
        "rule": "a (configuration, request-as-seen-by-the-handler) pair is non-trivial when the cleaned path matches the path of at least one route of that configuration, so the verdict depends on channel/host/header/query/remote/method criteria or on first-match order; distinct by (config, seen request, remote address)",
        "samples": samples,
        "traces_validated_against_impl": evaluations,
        "model_impl_mismatches": mism + len(smism),
        "string_function_comparisons": n_str,
        "input_distribution": dist,
    })
    return C.conclude(ctx, info, cov, assumptions, proof_broken=proof_broken,
                      searched_note="%d configuration x request evaluations on the implementation showed no property failure" % evaluations)
