"""C06 — push delivery: outcome classification, bounded retry with back-off, DLQ.

Parts (all against the real code, every run):
  (a) EXHAUSTIVE: 500 status codes x attempts {1, max-1, max, max+1, max+7} x error kinds through the real
      classifyDelivery + applyLeaseAction(s) on real stores; compared with Model/Dispatcher.v and with the
      table of the property text.
  (b) retryDelay on configs from the real config.Compile, jitter draw read from the seeded math/rand
      source: Model/RetryFloat.v must reproduce the int64 exactly; the value must lie in the Q window.
  (c) one micro-batch of messages on different attempts through the real batched lease mutations.
  (d) whole loop: real PushDispatcher.Start/Drain + memory/SQLite stores + scripted target.
  (e) real HTTPDeliverer against a loopback target; lease TTL / micro-batch arithmetic.
"""
import json
import os
import random
from fractions import Fraction

from lib import common as C
from lib import fpq
from lib import pushloop

NOW = 1790000000000000000          # 2026-09-21, the injected store clock
MAXI = (1 << 63) - 1
ERRK = {1: "net", 2: "timeout", 3: "policy", 4: "policy_wrapped", 5: "other", 6: "policy_in_url_error"}
MODEL_KIND = {0: 0, 1: 1, 2: 2, 3: 3, 4: 4, 5: 5, 6: 4}
SLACK_REL = Fraction(1, 1 << 48)    # stated float slack: |delayF - delayQ| <= 1 + 2^-48 * value


# ----------------------------------------------------------------------------------------------
# the property text as a table (independent of the Coq model)

def code_class(code):
    if 200 <= code <= 299:
        return "2xx"
    if code in (408, 429):
        return str(code)
    if code >= 500:
        return "5xx"
    if 100 <= code <= 199:
        return "1xx"
    if 300 <= code <= 399:
        return "3xx"
    return "4xx"


def prop_action(kind, code, attempt, mx):
    """0 ack, 1 nack, 2 dead no_retry, 3 dead policy_denied, 4 dead max_retries"""
    if kind in (3, 4, 6):
        return 3
    if kind in (1, 2, 5):
        return 1 if attempt <= mx else 4
    cl = code_class(code)
    if cl == "2xx":
        return 0
    if cl in ("408", "429", "5xx"):
        return 1 if attempt <= mx else 4
    return 2


def case_class(kind, code, attempt, mx):
    c = ERRK[kind] if kind else code_class(code)
    return "%s:%s" % (c, "le-max" if attempt <= mx else "gt-max")


# ----------------------------------------------------------------------------------------------
# exact back-off arithmetic (Python twin of Model/Retry.v, cross-checked against Coq every run)

def backoff_q(base, cap, attempt):
    d0 = Fraction(base) * (Fraction(2) ** (attempt - 1))
    return min(d0, Fraction(cap))


def delay_q(base, cap, attempt, u, j):
    if base <= 0:
        return Fraction(0)
    d0 = Fraction(base) * (Fraction(2) ** (attempt - 1))
    d1 = Fraction(cap) if (cap > 0 and Fraction(cap) < d0) else d0
    if j > 0:
        jj = Fraction(1) if j > 1 else j
        d2 = d1 * (1 + (u * 2 - 1) * jj)
        return Fraction(0) if d2 < 0 else d2
    return d1


def delay_ns_q(base, cap, attempt, u, j):
    d = delay_q(base, cap, attempt, u, j)
    return min(d.numerator // d.denominator, MAXI)


def window(base, cap, attempt, j):
    d = backoff_q(base, cap, attempt)
    jj = min(max(j, Fraction(0)), Fraction(1))
    return d * (1 - jj), d * (1 + jj)


def in_window(delay, base, cap, attempt, j):
    lo, hi = window(base, cap, attempt, j)
    slack = 1 + hi * SLACK_REL
    if delay < lo - slack:
        return False, "earlier than the lower bound %s" % int(lo)
    if delay > hi + slack and not (delay == MAXI and hi >= MAXI):
        return False, "later than the upper bound %s" % int(hi)
    return True, ""


# ----------------------------------------------------------------------------------------------
# generators

DUR_UNITS = [("ns", 1), ("us", 10 ** 3), ("ms", 10 ** 6), ("s", 10 ** 9), ("m", 60 * 10 ** 9), ("h", 3600 * 10 ** 9)]


def rand_duration(rng, lo_ns, hi_ns):
    """(text, ns) of a Go duration literal"""
    ns = rng.randint(lo_ns, hi_ns)
    unit, mult = rng.choice([u for u in DUR_UNITS if u[1] <= max(ns, 1)])
    n = max(1, ns // mult)
    return "%d%s" % (n, unit), n * mult


def retry_directives(rng, tier):
    """list of dict(text, valid, why) - valid: must compile; invalid: must be REJECTED"""
    out = []

    def ok(text):
        out.append({"text": text, "valid": True})

    def bad(text, why):
        out.append({"text": text, "valid": False, "why": why})

    ok("exponential max 8 base 2s cap 2m jitter 0.2")
    ok("exponential max 3 base 1s cap 30s jitter 0")
    ok("exponential max 3 base 1s cap 30s jitter 1")
    ok("exponential max 1 base 5s cap 5s jitter 0.5")            # base = cap
    ok("exponential max 2 base 1ns cap 1ns jitter 1")
    ok("exponential max 5 base 1ns cap 2562047h jitter 0.1")
    ok("exponential max 5 base 1281023h cap 1281024h jitter 1")     # 4.6e18: 2^62 neighbourhood
    ok("exponential max 5 base 1281023h47m16s cap 1281023h47m17s jitter 0.999")
    ok("exponential max 5 base 2000000h cap 2000000h jitter 1")    # the pre-fix overflow witness
    ok("exponential max 5 base 2562047h cap 2562047h jitter 1")    # largest parseable hour count
    ok("exponential max 5 base 2562047h cap 2562047h47m16s jitter 0.5")
    ok("exponential max 5 base 1h cap 2562047h47m16.854775807s jitter 1")   # cap = MaxInt64 ns
    ok("exponential max 40 base 1ms cap 1000000h jitter 0.25")
    ok("exponential max 3 base 1s cap 30s jitter 0x1p-2")          # hex float, 0.25
    ok("exponential max 3 base 1s cap 30s jitter 1e-300")
    ok("exponential max 3 base 1s cap 30s jitter 4.9e-324")        # smallest subnormal
    ok("exponential max 3 base 1s cap 30s jitter 0.9999999999999999")
    ok("EXPONENTIAL max 3 base 1500ms cap 1m30s jitter .5")
    for j in ("NaN", "nan", "+NaN", "-NaN", "Inf", "+Inf", "-Inf", "inf", "infinity", "-0.0001", "1.0000000000000002",
              "2", "-1", "1e309", "abc", "0,5", "0x", "--1", "1e", "0.5x"):
        bad("exponential max 3 base 1s cap 30s jitter %s" % j, "jitter %s" % j)
    bad("exponential max 0 base 1s cap 30s jitter 0.2", "max 0")
    bad("exponential max -1 base 1s cap 30s jitter 0.2", "max -1")
    bad("exponential max 1.5 base 1s cap 30s jitter 0.2", "max 1.5")
    bad("exponential max NaN base 1s cap 30s jitter 0.2", "max NaN")
    bad("exponential max 3 base 0s cap 30s jitter 0.2", "base 0")
    bad("exponential max 3 base -1s cap 30s jitter 0.2", "base negative")
    bad("exponential max 3 base 1s cap 0s jitter 0.2", "cap 0")
    bad("exponential max 3 base 1s cap -30s jitter 0.2", "cap negative")
    bad("exponential max 3 base 31s cap 30s jitter 0.2", "base > cap")
    bad("exponential max 3 base 2562048h cap 2562048h jitter 0.2", "duration overflow")
    bad("exponential max 3 base NaN cap 30s jitter 0.2", "base NaN")
    bad("exponential max 3 base 1s cap Inf jitter 0.2", "cap Inf")
    bad("linear max 3 base 1s cap 30s jitter 0.2", "type linear")
    n = 8 if tier == "quick" else 120
    for _ in range(n):
        bt, b = rand_duration(rng, 1, rng.choice([10 ** 6, 10 ** 9, 10 ** 12, 4 * 10 ** 18]))
        ct, c = rand_duration(rng, b, rng.choice([max(b, 10 ** 10), max(b, 10 ** 13), MAXI - 10 ** 12]))
        if c < b:
            ct, c = bt, b
        j = rng.choice(["0", "1", "0.5", "0.2", "%.17g" % rng.random(), "%.3f" % rng.random(), "1e-9"])
        ok("exponential max %d base %s cap %s jitter %s" % (rng.randint(1, 12), bt, ct, j))
    return out


ATTEMPTS_B = [1, 2, 3, 4, 5, 8, 12, 20, 31, 32, 33, 34, 40, 53, 54, 62, 63, 64, 65, 70]
ATTEMPTS_B_QUICK = [1, 2, 3, 5, 12, 31, 32, 33, 34, 54, 63, 64, 65, 70]
ATTEMPTS_HUGE = [1023, 1024, 1025, 1100]


def script_families(rng, mx, allow_hang):
    """one behaviour script (list of steps, the last repeats) and its family name"""
    retry_kinds = [("status", 500), ("status", 503), ("status", 599), ("status", 429), ("status", 408), ("net", 0), ("timeout", 0), ("other", 0)]
    if allow_hang:
        retry_kinds.append(("hang", 0))
    perm = [("status", 400), ("status", 404), ("status", 410), ("status", 301), ("status", 304), ("status", 100), ("status", 199), ("status", 399), ("status", 499)]
    okc = [("status", 200), ("status", 204), ("status", 299)]
    fam = rng.choice(["ok", "fail_then_ok", "always_fail", "fail_then_perm", "perm", "policy", "fail_then_policy", "edge_exact_max", "recover_late"])

    def rk():
        return rng.choice(retry_kinds)

    if fam == "ok":
        sc = [rng.choice(okc)]
    elif fam == "fail_then_ok":
        sc = [rk() for _ in range(rng.randint(1, max(1, mx)))] + [rng.choice(okc)]
    elif fam == "always_fail":
        sc = [rk() for _ in range(rng.randint(1, 3))]
    elif fam == "fail_then_perm":
        sc = [rk() for _ in range(rng.randint(1, max(1, mx)))] + [rng.choice(perm)]
    elif fam == "perm":
        sc = [rng.choice(perm)]
    elif fam == "policy":
        sc = [(rng.choice(["policy", "policy_wrapped"]), 0)]
    elif fam == "fail_then_policy":
        sc = [rk()] + [(rng.choice(["policy", "policy_wrapped"]), 0)]
    elif fam == "edge_exact_max":
        sc = [rk() for _ in range(mx)] + [rng.choice(okc)]           # succeeds on the very last allowed send
    else:
        sc = [rk() for _ in range(mx + 1)] + [rng.choice(okc)]       # would recover one send too late
    # at most one hang per script keeps the wall time bounded
    seen = False
    for i, (k, c) in enumerate(sc):
        if k == "hang":
            if seen:
                sc[i] = ("timeout", 0)
            seen = True
    return fam, [{"kind": k, "code": c} for k, c in sc]


STEP_KIND = {"status": 0, "net": 1, "timeout": 2, "hang": 2, "policy": 3, "policy_wrapped": 4, "other": 5}


def loop_scenarios(rng, tier):
    scs = []
    n = 22 if tier == "quick" else 160
    for i in range(n):
        backend = "sqlite" if i % 3 == 2 else "memory"
        ntargets = 2 if i % 5 == 4 else 1
        conc = rng.choice([1, 1, 2, 2, 4, 20])
        targets = []
        for t in range(ntargets):
            mx = rng.choice([1, 1, 2, 3, 3, 4])
            base = rng.choice(["1s", "250ms", "2s", "10s"])
            cap = rng.choice(["30s", "4s", "10s", "1h"])
            jit = rng.choice(["0", "0", "0.2", "0.5", "1"])
            bns = {"1s": 10 ** 9, "250ms": 25 * 10 ** 7, "2s": 2 * 10 ** 9, "10s": 10 ** 10}[base]
            cns = {"30s": 30 * 10 ** 9, "4s": 4 * 10 ** 9, "10s": 10 ** 10, "1h": 3600 * 10 ** 9}[cap]
            if bns > cns:
                cap = base
            targets.append({"max": mx, "text": "retry exponential max %d base %s cap %s jitter %s" % (mx, base, cap, jit)})
        allow_hang = (i % 4 == 1)
        cfg = ["ingress {", '  listen ":18080"', "}", '"/r" {']
        for t, tg in enumerate(targets):
            cfg += ['  deliver "http://127.0.0.1:9/t%d" {' % t, "    " + tg["text"], "    timeout %s" % ("40ms" if allow_hang else "1s"), "  }"]
        cfg += ["  deliver_concurrency %d" % conc, "}", ""]
        msgs = []
        for m in range(rng.randint(3, 7)):
            t = rng.randrange(ntargets)
            mx = targets[t]["max"]
            fam, script = script_families(rng, mx, allow_hang)
            pre = rng.choice([0, 0, 0, 1, 2, mx, mx + 1, mx + 3]) if rng.random() < 0.5 else 0
            msgs.append({"id": "m%02d" % m, "target": t, "pre": pre, "script": script, "_fam": fam})
        scs.append({"name": "loop%03d" % i, "backend": backend, "config": "\n".join(cfg), "delivered_retention": (i % 2 == 0),
                    "messages": msgs, "now": NOW, "_conc": conc, "_ntargets": ntargets})
    # mixed attempt numbers on a single-target route with batched lease mutations (concurrency >= 2), jitter 0:
    # every message of a micro-batch must get the delay of its OWN attempt number
    for i in range(3 if tier == "quick" else 12):
        cfg = ["ingress {", '  listen ":18080"', "}", '"/r" {', '  deliver "http://127.0.0.1:9/t0" {',
               "    retry exponential max 6 base 1s cap 1h jitter 0", "    timeout 1s", "  }", "  deliver_concurrency %d" % rng.choice([2, 4]), "}", ""]
        msgs = [{"id": "x%02d" % m, "target": 0, "pre": (m % 3) * 2, "script": [{"kind": "status", "code": 503}], "_fam": "always_fail"} for m in range(8)]
        scs.append({"name": "mixed%02d" % i, "backend": "sqlite" if i % 2 else "memory", "config": "\n".join(cfg), "delivered_retention": True,
                    "messages": msgs, "now": NOW, "_conc": 2, "_ntargets": 1})
    return scs


def batch_cases(rng, tier):
    cases = []
    j0 = 0
    j03 = fpq.float_bits(0.3)
    j1 = fpq.float_bits(1.0)
    n = 10 if tier == "quick" else 60
    for i in range(n):
        mx = rng.choice([2, 3, 5])
        msgs = []
        for _ in range(rng.randint(2, 6)):
            kind, code = rng.choice([(0, 503), (0, 500), (0, 429), (0, 408), (1, 0), (2, 0), (5, 0), (0, 200), (0, 404), (0, 302), (3, 0), (4, 0)])
            msgs.append({"pre": rng.choice([0, 0, 1, 2, mx - 1, mx, mx + 2]), "kind": kind, "code": code})
        cases.append({"backend": "sqlite" if i % 3 == 1 else "memory", "max": mx, "base": rng.choice([10 ** 9, 25 * 10 ** 7]),
                      "cap": rng.choice([60 * 10 ** 9, 3 * 10 ** 9]), "jitter_bits": rng.choice([j0, j0, j03, j1]),
                      "msgs": msgs, "single": (i % 4 == 3)})
    # back-off schedule at the edge of the time range (compile-accepted caps of centuries)
    for backend in ("memory", "sqlite"):
        for single in (False, True):
            cases.append({"backend": backend, "max": 5, "base": 7560000000000000000, "cap": 7560000000000000000, "jitter_bits": j0,
                          "msgs": [{"pre": 0, "kind": 0, "code": 503}], "single": single, "_edge": "cap-2100000h"})
            cases.append({"backend": backend, "max": 5, "base": 7200000000000000000, "cap": 7200000000000000000, "jitter_bits": j0,
                          "msgs": [{"pre": 0, "kind": 0, "code": 503}], "single": single, "_edge": "cap-2000000h"})
    return cases


# ----------------------------------------------------------------------------------------------

CYC_DEF = """From Coq Require Import Floats.
Import ListNotations.
From HK Require Import Model.Retry Model.RetryFloat Model.Dispatcher.
Definition cyc (c : Z * Z * Z * Q * Z * list (Z * Z)) : list Z :=
  let '(mx, b, cp, j, a0, sc) := c in
  let rc := {| rc_max := mx; rc_base := b; rc_cap := cp; rc_jitter := j |} in
  let beh := fun k : nat => let '(kd, code) := nth k sc (last sc (0, 200)) in
                            if (kd =? 0)%Z then RStatus code else RErr (kind_of_code kd) in
  let tr := dispatch_cycle rc a0 beh (fun _ => 0%Q) in
  [sends tr; match snd tr with Some TDelivered => 0 | Some (TDead r) => enc_action (ADead r) | None => 9 end]
  ++ map (fun r => match ar_outcome r with OAcked => 0 | ORetry => 1 | ODead => 2 end) (fst tr).
Definition cls (bc : Z * Z) (c : Z * Z * Z * Z) : list Z :=
  let '(k, code, a, m) := c in [classify_case c; delayF_bits (fst bc, snd bc, a, 0, 0)].
Definition dq (c : Z * Z * Z * Q * Q) : Z := let '(b, cp, a, u, j) := c in delay_ns b cp a u j.
Definition arith_ttl (c : Z * Z * list Z) : Z := let '(s, b, ts) := c in route_lease_ttl ts s b.
Definition arith_batch (c : Z * Z) : list Z := let b := route_dequeue_batch (fst c) (snd c) in [b; route_mutation_batch b]."""


def main(ctx, replay):
    rng = random.Random(ctx.seed)
    info = C.prologue(ctx)
    if info["hbin"] is None:
        raise C.HarnessBuildFailed(info.get("go_log", ""))
    H = info["hbin"]
    C.add_property_files(info, ["C06loop"])      # the micro-batch over the queue (Model/PushLoop.v)
    cov = C.proof_coverage(info, "C06")
    assumptions = [
        "lease mutations on the store succeed (the property's stated assumption for the attempt bound)",
        "the jitter draw is an oracle: for the bit-exact comparison the harness re-seeds math/rand's global source "
        "(//go:debug randseednop=0 in the harness binary only) and reads the same draw retryDelay will consume",
        "float rounding of retryDelay: the binary64 twin (Model/RetryFloat.v) is compared bit-exactly on generated inputs; "
        "its distance to the exact-rational model is checked on the same inputs with slack 1 ns + 2^-48 relative (no Flocq proof)",
        "whole-loop runs use a virtual store clock advanced by the harness at quiescent points; time.Sleep/HTTP client timing is not modelled",
    ]
    model_ok = info["coq_ok"]
    timing = {"prologue": ctx.wall()}

    def tick(name):
        timing[name] = round(ctx.wall() - sum(v for k, v in timing.items()), 2)
    evaluations = 0
    nontrivial = set()
    samples = []
    dist = {}
    mism = 0

    def coq_eval(name, fn, terms, shard=None):
        if not model_ok:
            return None
        res, log = fpq.coq_map_eval(ctx, name, CYC_DEF, fn, terms, shard=shard)
        if res is None:
            ctx.notes.append("model evaluation %s failed: %s" % (name, log[-600:]))
        return res

    # ------------------------------------------------------------------ (a) exhaustive classification
    BASE_A, CAP_A = 10 ** 9, 60 * 10 ** 9
    maxes = [1, 3, 8]
    attempts = [sorted({a for a in (1, m - 1, m, m + 1, m + 7) if a >= 1}) for m in maxes]
    codes = list(range(100, 600))
    runs = [
        ("memory", {"backend": "memory", "maxes": maxes, "attempts": attempts, "delivered_retention": True, "batch": False,
                    "err_codes": [0, 200, 404, 503]}),
        ("memory-batched-noretention", {"backend": "memory", "maxes": [3], "attempts": [[1, 3, 4]], "delivered_retention": False, "batch": True,
                                        "err_codes": [0]}),
        ("sqlite", {"backend": "sqlite", "maxes": [2], "attempts": [[2, 3]], "delivered_retention": True, "batch": False, "err_codes": [0]}),
        ("sqlite-batched", {"backend": "sqlite", "maxes": [2], "attempts": [[1, 9]], "delivered_retention": False, "batch": True, "err_codes": [0]}),
    ]
    if ctx.tier != "quick":
        runs.append(("sqlite-full", {"backend": "sqlite", "maxes": maxes, "attempts": attempts, "delivered_retention": True, "batch": False,
                                     "err_codes": [0, 200, 404, 503]}))
    rows_all = []
    for name, r in runs:
        req = dict(r, dir=os.path.join(ctx.scratch, "stores"), base=BASE_A, cap=CAP_A, codes=codes, kinds=[1, 2, 3, 4, 5, 6], now=NOW)
        rc, out, err = C.harness_run(H, ["dispatch-classify"], req)
        if rc != 0:
            raise RuntimeError("dispatch-classify (%s) failed: %s" % (name, err[-2000:]))
        for row in json.loads(out)["rows"]:
            rows_all.append((name, r["delivered_retention"], row))
    distinct = sorted({(MODEL_KIND[row[0]], row[1], row[2], row[3]) for _, _, row in rows_all})
    mres = coq_eval("c06cls", "cls (%d, %d)" % (BASE_A, CAP_A), [fpq.coq_tuple(t) for t in distinct])
    model_cls = dict(zip(distinct, mres)) if mres is not None else None
    dist["classify_cases"] = len(rows_all)
    dist["classify_distinct_model_cases"] = len(distinct)
    cls_hist = {}
    for name, retention, row in rows_all:
        (kind, code, attempt, mx, act, delay, st, dr, nd, nrec, ra, rs, ro, rr, rerr, calls, envatt) = row
        evaluations += 1
        cc = case_class(kind, code, attempt, mx)
        cls_hist[cc] = cls_hist.get(cc, 0) + 1
        want = prop_action(kind, code, attempt, mx)
        problems = []
        if act != want:
            problems.append("property table wants action %d, classifyDelivery chose %d" % (want, act))
        exp_delay = None
        if model_cls is not None:
            m_act, m_delay = model_cls[(MODEL_KIND[kind], code, attempt, mx)]
            if m_act != act:
                mism += 1
                problems.append("model action %d, implementation %d" % (m_act, act))
            exp_delay = m_delay
        else:
            exp_delay = min(BASE_A * 2 ** (attempt - 1), CAP_A)
        # what the store shows afterwards
        if act == 0:
            if st != (3 if retention else 0) or dr != 0:
                problems.append("acked message ends in state %d reason %d" % (st, dr))
        elif act == 1:
            if st != 1:
                problems.append("nacked message is in state %d, not queued" % st)
            if delay != exp_delay or nd != exp_delay:
                problems.append("nack delay %d / next_run-now %d, expected %d" % (delay, nd, exp_delay))
            lo, hi = window(BASE_A, CAP_A, attempt, Fraction(0))
            if not (lo <= nd <= hi):
                problems.append("retry scheduled %d ns after the failure, window [%d, %d]" % (nd, lo, hi))
        else:
            if st != 4 or dr != act:
                problems.append("dead-lettered message has state %d reason %d, expected dead/%d" % (st, dr, act))
        # exactly one attempt record with the matching outcome
        exp_out = 0 if act == 0 else (1 if act == 1 else 2)
        exp_reason = act if act >= 2 else 0
        if nrec != 1:
            problems.append("%d attempt records for one delivery" % nrec)
        elif (ra, rs, ro, rr, rerr) != (attempt, code, exp_out, exp_reason, 1 if kind else 0):
            problems.append("attempt record (attempt,status,outcome,reason,err)=%s expected %s" %
                            ((ra, rs, ro, rr, rerr), (attempt, code, exp_out, exp_reason, 1 if kind else 0)))
        if calls != 1 or envatt != attempt:
            problems.append("deliver calls %d, env.Attempt %d" % (calls, envatt))
        nontrivial.add(("cls", name, kind, code, attempt, mx))
        if problems:
            C.report(ctx, "classify:%s" % cc, "; ".join(problems),
                     {"kind": "request", "case": {"run": name, "error_kind": ERRK.get(kind, "none"), "status": code, "attempt": attempt, "retry_max": mx,
                                                  "retry": {"base": BASE_A, "cap": CAP_A, "jitter": 0}},
                      "observed": {"action": act, "delay": delay, "state": st, "dead_reason": dr, "next_run_minus_now": nd,
                                   "records": nrec, "record": [ra, rs, ro, rr, rerr]},
                      "expected": {"action": want}, "problems": problems,
                      "how_to_replay": "./check C06 --replay <this file>"})
    dist["classify_classes"] = cls_hist
    samples.append({"part": "classify", "case": {"status": 408, "attempt": 3, "retry_max": 3}, "expected_action": "nack"})

    tick("classify")
    # ------------------------------------------------------------------ (b) retryDelay
    directives = retry_directives(rng, ctx.tier)
    seeds = [rng.randrange(1, 2 ** 40) for _ in range(3 if ctx.tier == "quick" else 24)]
    cfgs = []
    for d in directives:
        att = list(ATTEMPTS_B_QUICK if ctx.tier == "quick" else ATTEMPTS_B)
        if rng.random() < 0.3:
            att += ATTEMPTS_HUGE
        cfgs.append({"retry": d["text"], "attempts": att, "seeds": seeds})
    # white-box configs Compile never produces (the function's own guards): cap <= 0, base <= 0, jitter > 1, jitter < 0
    directs = [
        {"max": 3, "base": 10 ** 9, "cap": 0, "jitter_bits": fpq.float_bits(0.5)},
        {"max": 3, "base": 10 ** 9, "cap": -5, "jitter_bits": 0},
        {"max": 3, "base": 0, "cap": 10 ** 9, "jitter_bits": fpq.float_bits(0.5)},
        {"max": 3, "base": -7, "cap": 10 ** 9, "jitter_bits": fpq.float_bits(0.5)},
        {"max": 3, "base": 10 ** 9, "cap": 10 ** 10, "jitter_bits": fpq.float_bits(1.75)},
        {"max": 3, "base": 10 ** 9, "cap": 10 ** 10, "jitter_bits": fpq.float_bits(-0.5)},
        {"max": 3, "base": 1, "cap": MAXI, "jitter_bits": fpq.float_bits(1.0)},
        {"max": 3, "base": MAXI, "cap": MAXI, "jitter_bits": fpq.float_bits(1.0)},
    ]
    for d in directs:
        cfgs.append({"direct": d, "attempts": [0, -3, 1, 2, 3, 30, 63, 64, 65, 70, 1024, 1025], "seeds": seeds[:2]})
    rc, out, err = C.harness_run(H, ["dispatch-delay"], {"configs": cfgs})
    if rc != 0:
        raise RuntimeError("dispatch-delay failed: " + err[-2000:])
    dres = json.loads(out)
    if not dres.get("seed_works"):
        raise RuntimeError("math/rand seeding has no effect in the harness binary (randseednop): the draw cannot be observed")
    f_terms, q_terms, rowinfo = [], [], []
    accepted = rejected = 0
    for ci, (cfg, r) in enumerate(zip(cfgs, dres["results"])):
        d = directives[ci] if ci < len(directives) else None
        if d is not None:
            evaluations += 1
            if r["ok"]:
                accepted += 1
                jb = r["jitter_bits"]
                bad_vals = []
                if not fpq.is_finite_bits(jb) or not (0 <= fpq.bits_fraction(jb) <= 1):
                    bad_vals.append("jitter %r outside [0,1] or not finite" % fpq.bits_float(jb))
                if r["max"] <= 0:
                    bad_vals.append("max %d" % r["max"])
                if not (0 < r["base"] <= r["cap"]):
                    bad_vals.append("base %d cap %d" % (r["base"], r["cap"]))
                if bad_vals or not d["valid"]:
                    C.report(ctx, "compile-accepts:%s" % (d.get("why") or "invalid-values").replace(" ", "-"),
                             "config.Compile accepted a retry directive outside the documented domain: %s %s" % (d["text"], bad_vals),
                             {"kind": "program", "case": {"retry": d["text"]}, "observed": {"compiled": {k: r[k] for k in ("max", "base", "cap", "jitter_bits")}},
                              "expected": "rejected by Compile", "how_to_replay": "./check C06 --replay <this file>"})
            else:
                rejected += 1
                if d["valid"]:
                    ctx.notes.append("directive expected to compile was rejected: %s -> %s" % (d["text"], r.get("errors")))
        if not r["ok"]:
            continue
        jfin = fpq.is_finite_bits(r["jitter_bits"])
        for row, ub in zip(r["rows"], r["u_bits"]):
            attempt, seed, delay = row
            f_terms.append(fpq.coq_tuple((r["base"], r["cap"], attempt, ub, r["jitter_bits"])))
            in_coq = False
            if jfin:
                # the exact-rational model is evaluated inside Coq on every row except the ones whose
                # numbers are thousands of bits long (2^1099 times a 2^-1074 jitter): one in seven of those
                jq = fpq.bits_fraction(r["jitter_bits"])
                heavy = attempt > 100 and jq.denominator > (1 << 200)
                if not heavy or len(rowinfo) % 7 == 0:
                    in_coq = True
                    q_terms.append("(%d, %d, %d, %s, %s)" % (r["base"], r["cap"], attempt, fpq.coq_Q(fpq.bits_fraction(ub)), fpq.coq_Q(jq)))
            rowinfo.append((ci, r, attempt, seed, ub, delay, jfin, in_coq))
    fres = coq_eval("c06delayF", "delayF_bits", f_terms)
    qres = coq_eval("c06delayQ", "dq", q_terms)
    qi = 0
    delay_exact = delay_in_window = 0
    sat_rows = inf_rows = 0
    twin_only = []          # rows where only the model/implementation correspondence fails, the property window holds
    delay_property_failures = 0
    for i, (ci, r, attempt, seed, ub, delay, jfin, in_coq) in enumerate(rowinfo):
        evaluations += 1
        compiled = ci < len(directives)
        u = fpq.bits_fraction(ub)
        j = fpq.bits_fraction(r["jitter_bits"]) if jfin else None
        case = {"retry": cfgs[ci].get("retry") or cfgs[ci].get("direct"), "compiled": {k: r[k] for k in ("max", "base", "cap", "jitter_bits")},
                "attempt": attempt, "seed": seed, "u_bits": ub, "u": float(u)}
        problems = []
        corr = []
        key = "delay"
        if fres is not None and fres[i] != delay:
            mism += 1
            corr.append("binary64 model gives %d, retryDelay returned %d" % (fres[i], delay))
        if jfin:
            dq = delay_ns_q(r["base"], r["cap"], attempt, u, j)
            if in_coq:
                if qres is not None and qres[qi] != dq:
                    raise RuntimeError("Python twin of Model/Retry.v disagrees with Coq on %s: %d vs %d" % (case, dq, qres[qi]))
                qi += 1
            slack = 1 + Fraction(dq) * SLACK_REL
            if abs(delay - dq) > slack:
                corr.append("retryDelay %d differs from the exact-rational value %d by more than the float slack" % (delay, dq))
            if compiled and attempt >= 1:
                ok, why = in_window(delay, r["base"], r["cap"], attempt, j)
                if not ok:
                    key = "delay-window:%s" % ("negative" if delay < 0 else "outside")
                    lo, hi = window(r["base"], r["cap"], attempt, j)
                    problems.append("delay %d ns is %s (window [%d, %d])" % (delay, why, lo, hi))
                else:
                    delay_in_window += 1
            if delay < 0:
                key = "delay-window:negative"
                problems.append("negative delay %d (immediate retry)" % delay)
        if delay == MAXI:
            sat_rows += 1
        if attempt > 1024:
            inf_rows += 1
        if not problems and not corr:
            delay_exact += 1
        nontrivial.add(("delay", r["base"], r["cap"], r["jitter_bits"], attempt, ub))
        if corr and not problems:
            twin_only.append({"case": case, "observed": {"delay_ns": delay}, "model": {"float": fres[i] if fres is not None else None}, "disagreement": corr})
        if problems:
            delay_property_failures += 1
            problems += corr
            C.report(ctx, key, "; ".join(problems),
                     {"kind": "request", "case": case, "observed": {"delay_ns": delay},
                      "expected": {"float_model": fres[i] if fres is not None else None}, "problems": problems,
                      "how_to_replay": "./check C06 --replay <this file>"})
        elif len(samples) < 5 and rng.random() < 0.001:
            samples.append({"part": "delay", "case": case, "observed": {"delay_ns": delay}})
    if twin_only:
        # the implementation no longer computes what Model/RetryFloat.v / Model/Retry.v say, but every observed delay is
        # still inside the property's window: report the correspondence, with the inputs, as "no failing input found"
        C.report(ctx, "delay-model-correspondence", "retryDelay disagrees with the model on %d of %d rows while every delay stays inside the back-off window" % (len(twin_only), len(rowinfo)),
                 {"kind": "obligation", "no_failing_input_found": delay_property_failures == 0,
                  "correspondence": "dispatcher.retryDelay vs Model/RetryFloat.v delayF (bit-exact) and Model/Retry.v delay_ns (within 1 ns + 2^-48 relative)",
                  "rows": len(twin_only), "examples": twin_only[:6],
                  "note": "searched %d (config, attempt, draw) rows for a delay outside [d(1-j), d(1+j)]: %d found" % (len(rowinfo), delay_property_failures)})
    dist["retry_directives"] = {"generated": len(directives), "accepted": accepted, "rejected": rejected,
                                "expected_invalid": sum(1 for d in directives if not d["valid"])}
    dist["delay_rows"] = {"total": len(rowinfo), "bit_exact_and_in_window": delay_exact, "saturated_at_maxint64": sat_rows, "pow_overflow_to_inf": inf_rows,
                          "exact_model_evaluated_in_coq": len(q_terms)}

    tick("delay")
    # ------------------------------------------------------------------ (c) one micro-batch, mixed attempts
    bcases = batch_cases(rng, ctx.tier)
    rc, out, err = C.harness_run(H, ["dispatch-batch"], {"dir": os.path.join(ctx.scratch, "stores"),
                                                         "cases": [{k: v for k, v in c.items() if not k.startswith("_")} for c in bcases]})
    if rc != 0:
        raise RuntimeError("dispatch-batch failed: " + err[-2000:])
    bres = json.loads(out)
    batch_rows = 0
    for c, r in zip(bcases, bres):
        if r.get("err"):
            raise RuntimeError("dispatch-batch case failed: %s" % r["err"])
        j = fpq.bits_fraction(c["jitter_bits"])
        for m, row in zip(c["msgs"], r["rows"]):
            attempt, act, delay, st, dr, nd, nrec, ro, rr = row
            evaluations += 1
            batch_rows += 1
            problems = []
            key = "batch:%s" % ("single" if c["single"] else "batched")
            want = prop_action(m["kind"], m["code"], attempt, c["max"])
            if attempt != m["pre"] + 1:
                problems.append("env.Attempt %d, expected %d" % (attempt, m["pre"] + 1))
            if act != want:
                problems.append("action %d, property table wants %d" % (act, want))
            if act == 1:
                ok, why = in_window(delay, c["base"], c["cap"], attempt, j)
                if not ok:
                    problems.append("computed delay %d is %s" % (delay, why))
                lo, hi = window(c["base"], c["cap"], attempt, j)
                if st != 1:
                    problems.append("nacked message in state %d" % st)
                # SQLite stores next_run_at as int64 Unix ns: the schedule saturates at the last
                # representable instant (2262-04-11); the memory store keeps a time.Time
                horizon = MAXI - r["now"]
                exp_nd = delay if c["backend"] == "memory" else min(delay, horizon)
                if nd != exp_nd:
                    ok2, why2 = in_window(nd, c["base"], c["cap"], attempt, j)
                    if nd < min(lo, horizon) - 1:
                        key = ("nack-schedule-overflow:%s" % c["backend"]) if delay > horizon else key + ":other-message-delay"
                        problems.append("retry of attempt %d scheduled %d ns after the failure, earlier than the lower bound %d (delay computed: %d)" % (attempt, nd, min(lo, horizon), delay))
                    elif not ok2:
                        key = key + ":other-message-delay"
                        problems.append("retry of attempt %d scheduled %d ns after the failure: %s (delay computed: %d)" % (attempt, nd, why2, delay))
                    else:
                        key = key + ":other-message-delay"
                        problems.append("next_run-now %d differs from this message's own delay %d" % (nd, delay))
            elif act == 0:
                if st != 3:
                    problems.append("acked message in state %d" % st)
            else:
                if st != 4 or dr != act:
                    problems.append("dead message state %d reason %d expected %d" % (st, dr, act))
            if nrec != 1 or ro != (0 if act == 0 else 1 if act == 1 else 2) or rr != (act if act >= 2 else 0):
                problems.append("attempt records %d outcome %d reason %d" % (nrec, ro, rr))
            nontrivial.add(("batch", c["backend"], c["single"], c["max"], c["jitter_bits"], attempt, m["kind"], m["code"]))
            if problems:
                C.report(ctx, key, "; ".join(problems),
                         {"kind": "history", "case": {k: v for k, v in c.items() if not k.startswith("_")}, "message": m,
                          "observed": {"attempt": attempt, "action": act, "delay": delay, "state": st, "dead_reason": dr, "next_run_minus_now": nd},
                          "problems": problems, "how_to_replay": "./check C06 --replay <this file>  (harness command dispatch-batch)"})
    dist["batch_rows"] = batch_rows

    tick("batch")
    # ------------------------------------------------------------------ (d) whole loop
    scs = loop_scenarios(rng, ctx.tier)
    rc, out, err = C.harness_run(H, ["dispatch-loop"], {"dir": os.path.join(ctx.scratch, "stores"), "par": 12,
                                                        "scenarios": [dict({k: v for k, v in s.items() if not k.startswith("_")},
                                                                           messages=[{k: v for k, v in m.items() if not k.startswith("_")} for m in s["messages"]])
                                                                      for s in scs]})
    if rc != 0:
        raise RuntimeError("dispatch-loop failed: " + err[-2000:])
    lres = json.loads(out)
    cyc_terms, cyc_idx = [], []
    for si, (s, r) in enumerate(zip(scs, lres)):
        if not r["ok"]:
            raise RuntimeError("loop scenario %s: config rejected: %s" % (s["name"], r.get("errors")))
        for mi, m in enumerate(s["messages"]):
            tg = r["targets"][m["target"] % len(r["targets"])]
            sc = "[" + "; ".join("(%d, %d)" % (STEP_KIND[st["kind"]], st["code"]) for st in m["script"]) + "]"
            cyc_terms.append("(%d, %d, %d, %s, %d, %s)" % (tg["max"], tg["base"], tg["cap"], fpq.coq_Q(fpq.bits_fraction(tg["jitter_bits"])), m["pre"] + 1, sc))
            cyc_idx.append((si, mi))
    cres = coq_eval("c06cyc", "cyc", cyc_terms)
    cyc_model = dict(zip(cyc_idx, cres)) if cres is not None else None
    fam_hist, loop_msgs, total_sends, hang_sends = {}, 0, 0, 0
    for si, (s, r) in enumerate(zip(scs, lres)):
        if not r["terminated"] or not r["drained"]:
            C.report(ctx, "loop:not-terminated", "dispatcher did not settle every message (terminated=%s drained=%s after %d rounds)" % (r["terminated"], r["drained"], r["rounds"]),
                     {"kind": "history", "case": {k: v for k, v in s.items() if not k.startswith("_")}, "observed": r})
        for mi, (m, mo) in enumerate(zip(s["messages"], r["messages"])):
            evaluations += 1
            loop_msgs += 1
            fam_hist[m["_fam"]] = fam_hist.get(m["_fam"], 0) + 1
            tg = r["targets"][m["target"] % len(r["targets"])]
            mx, base, cap = tg["max"], tg["base"], tg["cap"]
            j = fpq.bits_fraction(tg["jitter_bits"])
            a0 = m["pre"] + 1
            problems = []
            key = "loop:%s" % m["_fam"]
            sends = mo["sends"]
            total_sends += sends
            # the property, directly on what the implementation did
            if sends > mx + 1:
                key = "loop:too-many-sends"
                problems.append("%d sends, retry.max+1 = %d" % (sends, mx + 1))
            if sends < 1:
                problems.append("message never sent")
            terminal_ok = (mo["state"] in (3, 0) and mo["reason"] == 0) or (mo["state"] == 4 and mo["reason"] in (2, 3, 4))
            if mo["state"] == 0 and s["delivered_retention"]:
                terminal_ok = False
            if not terminal_ok:
                key = "loop:terminal-state"
                problems.append("message ends in state %d with reason %d" % (mo["state"], mo["reason"]))
            recs = mo["attempts"] or []
            if len(recs) != sends:
                problems.append("%d attempt records for %d sends" % (len(recs), sends))
            if [a["attempt"] for a in recs] != list(range(a0, a0 + len(recs))):
                problems.append("attempt numbers %s, expected consecutive from %d" % ([a["attempt"] for a in recs], a0))
            for k, a in enumerate(recs):
                st = m["script"][min(k, len(m["script"]) - 1)]
                kd = STEP_KIND[st["kind"]]
                want = prop_action(kd, st["code"], a["attempt"], mx)
                exp_out = 0 if want == 0 else (1 if want == 1 else 2)
                if (a["outcome"], a["reason"]) != (exp_out, want if want >= 2 else 0) or a["status"] != st["code"] or a["has_err"] != (kd != 0) or a["target"] != tg["url"]:
                    problems.append("attempt %d recorded as outcome %d reason %d status %d err %s; the target answered %s -> expected outcome %d reason %d" %
                                    (a["attempt"], a["outcome"], a["reason"], a["status"], a["has_err"], st, exp_out, want if want >= 2 else 0))
                if st["kind"] == "hang":
                    hang_sends += 1
            # retry schedule relative to the failure instant (frozen virtual clock)
            retry_recs = [a["attempt"] for a in recs if a["outcome"] == 1]
            nacks = {n["attempt"]: n["delta"] for n in (mo["nacks"] or [])}
            for a in retry_recs:
                if a not in nacks:
                    problems.append("no schedule observed for the retry after attempt %d" % a)
                    continue
                nd = nacks[a]
                ok, why = in_window(nd, base, cap, a, j)
                if not ok:
                    key = "loop:retry-schedule"
                    lo, hi = window(base, cap, a, j)
                    problems.append("retry after attempt %d scheduled %d ns after the failure: %s (window [%d, %d])" % (a, nd, why, lo, hi))
                elif j == 0 and nd != min(base * 2 ** (a - 1), cap):
                    key = "loop:retry-schedule"
                    problems.append("retry after attempt %d scheduled %d ns after the failure, expected exactly %d (jitter 0)" % (a, nd, min(base * 2 ** (a - 1), cap)))
            # the model's cycle on the same behaviour stream
            if cyc_model is not None:
                mv = cyc_model[(si, mi)]
                m_sends, m_term, m_out = mv[0], mv[1], mv[2:]
                exp_state = (3 if s["delivered_retention"] else 0) if m_term == 0 else 4
                if sends != m_sends or mo["state"] != exp_state or (m_term >= 2 and mo["reason"] != m_term) or [a["outcome"] for a in recs] != m_out:
                    mism += 1
                    problems.append("model cycle: sends %d terminal %d outcomes %s; implementation: sends %d state %d reason %d outcomes %s" %
                                    (m_sends, m_term, m_out, sends, mo["state"], mo["reason"], [a["outcome"] for a in recs]))
            nontrivial.add(("loop", s["backend"], s["_conc"], s["_ntargets"], mx, base, cap, tg["jitter_bits"], a0, json.dumps(m["script"], sort_keys=True)))
            if problems:
                C.report(ctx, key, "; ".join(problems),
                         {"kind": "history", "case": {"scenario": {k: v for k, v in s.items() if not k.startswith("_") and k != "messages"},
                                                      "message": {k: v for k, v in m.items() if not k.startswith("_")},
                                                      "all_messages": [{k: v for k, v in mm.items() if not k.startswith("_")} for mm in s["messages"]]},
                          "observed": mo, "problems": problems, "how_to_replay": "./check C06 --replay <this file>  (harness command dispatch-loop)"})
            elif len(samples) < 9 and rng.random() < 0.05:
                samples.append({"part": "loop", "case": {"backend": s["backend"], "retry": {"max": mx, "base": base, "cap": cap, "jitter": float(j)},
                                                         "start_attempt": a0, "script": m["script"]},
                                "observed": {"sends": sends, "state": mo["state"], "reason": mo["reason"], "nacks": mo["nacks"]}})
    dist["loop"] = {"scenarios": len(scs), "messages": loop_msgs, "sends": total_sends, "hang_sends": hang_sends, "families": fam_hist,
                    "backends": {b: sum(1 for s in scs if s["backend"] == b) for b in ("memory", "sqlite")},
                    "concurrency": {str(c): sum(1 for s in scs if s["_conc"] == c) for c in sorted({s["_conc"] for s in scs})},
                    "multi_target": sum(1 for s in scs if s["_ntargets"] > 1)}

    tick("loop")
    # ------------------------------------------------------------------ (e) real deliverer; arithmetic
    rc, out, err = C.harness_run(H, ["dispatch-real"], {"max": 2})
    if rc != 0:
        raise RuntimeError("dispatch-real failed: " + err[-2000:])
    REAL = {"ok": (0, 204), "e503": (0, 503), "e404": (0, 404), "e429": (0, 429), "redirect_not_followed_302": (0, 302),
            "hang": (2, 0), "refused": (1, 0), "policy_https_only": (4, 0),
            "policy_https_only_unloadable_signing_secret": (4, 0), "policy_https_only_no_valid_secret_version": (4, 0),
            "e503_retry_after_90": (0, 503), "e429_retry_after_3600": (0, 429), "e503_retry_after_date": (0, 503), "e500_retry_after_120": (0, 500)}
    for r in json.loads(out):
        evaluations += 1
        kind, code = REAL[r["name"]]
        want = prop_action(kind, code, r["attempt"], 2)
        got = {"ack": 0, "nack": 1}.get(r["action"], {"no_retry": 2, "policy_denied": 3, "max_retries": 4}.get(r["reason"], 9))
        exp_state = 3 if want == 0 else 1 if want == 1 else 4
        nontrivial.add(("real", r["name"], r["attempt"]))
        if got != want or r["state"] != exp_state or r["rec_outcome"] != (0 if want == 0 else 1 if want == 1 else 2) or r["rec_status"] != code or r["rec_err"] != (kind != 0):
            C.report(ctx, "real-deliverer:%s" % r["name"], "real HTTPDeliverer result %s on attempt %d settled as %s/%s state %d; expected action %d" %
                     (r["name"], r["attempt"], r["action"], r["reason"], r["state"], want),
                     {"kind": "request", "case": {"target_behaviour": r["name"], "attempt": r["attempt"], "retry_max": 2}, "observed": r, "expected": {"action": want}})
        elif want == 1:
            # the retry is scheduled by the route's backoff (base 1 s, cap 1 m, no jitter): min(base * 2^(attempt-1), cap) after the failure,
            # whatever the target's answer says about coming back later
            back = min(10 ** 9 * 2 ** (r["attempt"] - 1), 60 * 10 ** 9)
            if r.get("next_in_ns") != back:
                C.report(ctx, "real-deliverer-backoff:%s" % r["name"],
                         "real HTTPDeliverer result %s on attempt %d: the retry is scheduled %s ns after the failure; the route's backoff (exponential, base 1s, "
                         "cap 1m, no jitter) prescribes %d ns" % (r["name"], r["attempt"], r.get("next_in_ns"), back),
                         {"kind": "request", "case": {"target_behaviour": r["name"], "attempt": r["attempt"], "retry": "exponential max 2 base 1s cap 1m jitter 0"},
                          "observed": r, "expected": {"next_in_ns": back}})

    # ---- a route with several deliver blocks: every target's retry policy is its own block's directive over the defaults, whatever the
    #      neighbouring blocks say (each block is also compiled alone on a route of its own and must come out the same)
    try:
        pool = ["", "exponential max 5", "exponential max 7 base 3s", "exponential max 2 base 1s cap 4s jitter 0.5", "exponential base 250ms",
                "exponential cap 9s", "exponential jitter 0.1", "exponential max 4 cap 30s"]
        rb_cases = []
        for d in ("", "exponential max 2 base 1s cap 1m jitter 0", "exponential max 9 base 7s cap 3m jitter 0.3"):
            for _ in range(6 if ctx.tier == "quick" else 40):
                blocks = [rng.choice(pool) for _ in range(rng.choice([2, 2, 3, 4]))]
                if all(b == "" for b in blocks):
                    blocks[0] = pool[1]
                rb_cases.append({"defaults": d, "blocks": blocks})
        singles = sorted({(c["defaults"], b) for c in rb_cases for b in c["blocks"]})
        rc, out, err = C.harness_run(H, ["retry-blocks"], {"cases": rb_cases + [{"defaults": d, "blocks": [b]} for d, b in singles]}, timeout=120)
        if rc != 0:
            ctx.notes.append("retry-blocks not available: " + err[-300:])
        else:
            res = json.loads(out)["cases"]
            alone = {}
            for (d, b), r in zip(singles, res[len(rb_cases):]):
                alone[(d, b)] = r["targets"][0] if r["ok"] else None
            multi_checked = 0
            for c, r in zip(rb_cases, res[:len(rb_cases)]):
                evaluations += 1
                if not r["ok"]:
                    continue
                for j, (b, t) in enumerate(zip(c["blocks"], r["targets"])):
                    want = alone.get((c["defaults"], b))
                    multi_checked += 1
                    nontrivial.add(("retry-block", c["defaults"], tuple(c["blocks"]), j))
                    if want is not None and t != want:
                        C.report(ctx, "retry-block-inherits-neighbour:%s" % ("no-directive" if b == "" else "partial-directive"),
                                 "deliver block #%d of a %d-target route (retry directive %r, defaults %r, the other blocks %s) compiles to %s; the same block alone on a "
                                 "route compiles to %s" % (j + 1, len(c["blocks"]), b, c["defaults"], [x for k, x in enumerate(c["blocks"]) if k != j], t, want),
                                 {"kind": "program", "case": c, "observed": r["targets"], "expected_for_block": want, "block": j})
            dist["retry_blocks"] = {"routes": len(rb_cases), "targets_checked": multi_checked}
    except (OSError, ValueError, KeyError) as e:
        ctx.notes.append("retry-blocks scenarios skipped: %r" % (e,))

    tt, bt = [], []
    for _ in range(60 if ctx.tier == "quick" else 600):
        n = rng.randint(1, 4)
        ts = [rng.choice([0, -1, 1, 10 ** 9, 10 ** 10, 3 * 10 ** 10, 45 * 10 ** 9, rng.randint(1, 10 ** 11)]) for _ in range(n)]
        tt.append([rng.choice([0, -1, 10 ** 9, 30 * 10 ** 9, rng.randint(1, 10 ** 11)]), rng.choice([-1, 0, 1, 2, 3, 4, 7])] + ts)
    for c in range(-1, 24):
        for n in range(0, 4):
            bt.append([c, n])
    rc, out, err = C.harness_run(H, ["dispatch-arith"], {"ttl": tt, "batch": bt})
    if rc != 0:
        raise RuntimeError("dispatch-arith failed: " + err[-2000:])
    ar = json.loads(out)
    m_ttl = coq_eval("c06ttl", "arith_ttl", ["(%d, %d, [%s])" % (c[0], c[1], "; ".join("(%d)" % t for t in c[2:])) for c in tt])
    m_bat = coq_eval("c06bat", "arith_batch", ["(%d, %d)" % (c[0], c[1]) for c in bt])
    for i, c in enumerate(tt):
        evaluations += 1
        slack, batch, ts = c[0], c[1], c[2:]
        b = batch if batch > 0 else 1
        need = max((t if t > 0 else 10 ** 10) for t in ts) * b + slack
        got = ar["ttl"][i]
        problems = []
        if got < need or got < 30 * 10 ** 9:
            problems.append("lease TTL %d does not cover %d x max timeout + slack = %d (or the 30 s floor)" % (got, b, need))
        if m_ttl is not None and m_ttl[i] != got:
            mism += 1
            problems.append("model TTL %d, implementation %d" % (m_ttl[i], got))
        nontrivial.add(("ttl", tuple(c)))
        if problems:
            C.report(ctx, "lease-ttl", "; ".join(problems), {"kind": "request", "case": {"slack": slack, "batch": batch, "timeouts": ts}, "observed": got})
    for i, c in enumerate(bt):
        evaluations += 1
        b, mb = ar["batch"][i]
        problems = []
        if not (1 <= b <= 4) or b > max(c[0], 1) or (c[1] > 1 and b > 2) or mb != b:
            problems.append("dequeue batch %d / mutation batch %d for concurrency %d, %d targets" % (b, mb, c[0], c[1]))
        if m_bat is not None and m_bat[i] != [b, mb]:
            mism += 1
            problems.append("model %s, implementation %s" % (m_bat[i], [b, mb]))
        if problems:
            C.report(ctx, "dequeue-batch", "; ".join(problems), {"kind": "request", "case": {"concurrency": c[0], "targets": c[1]}, "observed": [b, mb]})

    tick("real+arith")
    # ---- real HTTPDeliverer + real PushDispatcher: a policy denial that only arises on a redirect hop, a scheme denial and a
    #      literal-address denial must each be dead-lettered as policy_denied after exactly the sends that preceded the denial, never retried
    try:
        pol = [{"https_only": "off", "redirects": "on", "rebind": "on", "allow": [], "deny": []},
               {"https_only": "on", "redirects": "on", "rebind": "off", "allow": [], "deny": ["evil.example"]},
               {"https_only": "off", "redirects": "on", "rebind": "off", "allow": [], "deny": ["10.0.0.0/8"]}]
        dns_pub = {"a.example": [{"err": False, "ips": ["01010101"]}], "evil.example": [{"err": False, "ips": ["08080808"]}]}
        pcases = [
            {"policy": 0, "chain": ["http://a.example/x", "http://169.254.169.254/latest"], "codes": [302], "dns": dns_pub, "mode": "push", "_sends": 1},
            {"policy": 0, "chain": ["http://a.example/x", "http://a.example/y", "http://127.0.0.1/z"], "codes": [307, 307], "dns": dns_pub, "mode": "push", "_sends": 2},
            {"policy": 1, "chain": ["https://a.example/x", "https://evil.example/y"], "codes": [308], "dns": dns_pub, "mode": "push", "_sends": 1},
            {"policy": 1, "chain": ["https://a.example/x", "http://a.example/y"], "codes": [301], "dns": dns_pub, "mode": "push", "_sends": 1},
            {"policy": 0, "chain": ["http://127.0.0.1/x"], "codes": [], "dns": {}, "mode": "push", "_sends": 0},
            # a resolver FAILURE is a network error, not a policy decision: retried while attempt <= retry.max (2 in this harness), and
            # a target that recovers gets the message
            {"policy": 0, "chain": ["http://flaky.example/x"], "codes": [], "mode": "push", "_sends": 1, "_want": ("gone", None), "_outcomes": ["retry", "acked"],
             "dns": {"flaky.example": [{"err": True, "ips": []}, {"err": False, "ips": ["01010101"]}]}},
            {"policy": 0, "chain": ["http://down.example/x"], "codes": [], "mode": "push", "_sends": 0, "_want": ("dead", "max_retries"),
             "_outcomes": ["retry", "retry", "dead"], "dns": {"down.example": [{"err": True, "ips": []}]}},
            {"policy": 2, "chain": ["http://flaky.example/x"], "codes": [], "mode": "push", "_sends": 1, "_want": ("gone", None), "_outcomes": ["retry", "acked"],
             "dns": {"flaky.example": [{"err": True, "ips": []}, {"err": False, "ips": ["01010101"]}]}, "_note": "CIDR deny rule, rebind off"},
            # (the scripted transport answers the second request with the end of the chain: 2 sends)
            {"policy": 0, "chain": ["http://a.example/x", "http://flaky.example/y"], "codes": [302], "mode": "push", "_sends": 2, "_want": ("gone", None),
             "_outcomes": ["retry", "acked"],
             "dns": dict(dns_pub, **{"flaky.example": [{"err": True, "ips": []}, {"err": False, "ips": ["01010101"]}]})},
        ]
        rc, out, err = C.harness_run(H, ["egress-run"], {"policies": pol, "cases": [{k: v for k, v in c.items() if not k.startswith("_")} for c in pcases]}, timeout=300)
        if rc == 0:
            for c, r in zip(pcases, json.loads(out)["cases"]):
                evaluations += 1
                nontrivial.add(("real-denial", tuple(c["chain"])))
                probs = []
                wst, wreason = c.get("_want", ("dead", "policy_denied"))
                if r.get("state") != wst or (r.get("dead_reason") or None) != wreason:
                    probs.append("message is %s/%s, want %s/%s" % (r.get("state"), r.get("dead_reason"), wst, wreason))
                if len(r.get("sent") or []) != c["_sends"]:
                    probs.append("%d requests were sent, want %d (a denial must not be retried, a network failure must be)" % (len(r.get("sent") or []), c["_sends"]))
                if "_outcomes" in c:
                    if (r.get("outcomes") or []) != c["_outcomes"]:
                        probs.append("attempt outcomes %s, want %s" % (r.get("outcomes"), c["_outcomes"]))
                elif r.get("attempts") not in (None, 0, 1):
                    probs.append("%s attempts recorded, want 1" % r.get("attempts"))
                if probs and "_want" in c:
                    C.report(ctx, "real-deliverer-resolver-failure:%s" % ("redirect-hop" if len(c["chain"]) > 1 else "target"),
                             "a resolver failure through the real HTTPDeliverer and PushDispatcher (a network error: retried while attempt <= retry.max): " + "; ".join(probs),
                             {"kind": "request", "case": {k: v for k, v in c.items() if not k.startswith("_")}, "policy": pol[c["policy"]], "observed": r})
                elif probs:
                    C.report(ctx, "real-deliverer-denial:%s" % ("redirect-hop" if len(c["chain"]) > 1 else "target"),
                             "policy denial through the real HTTPDeliverer and PushDispatcher: " + "; ".join(probs),
                             {"kind": "request", "case": {k: v for k, v in c.items() if not k.startswith("_")}, "policy": pol[c["policy"]], "observed": r})
        else:
            ctx.notes.append("egress-run (real deliverer denial scenarios) not available: " + err[-300:])
    except (OSError, ValueError, KeyError) as e:
        ctx.notes.append("real deliverer denial scenarios skipped: %r" % (e,))
    tick("real-denial")
    # ---- on the wire: one attempt of the real HTTPDeliverer (real http.Transport, keep-alive) is ONE send.  The target reads the
    #      message and drops the connection without answering, after a warm-up delivery left an idle connection to re-use - the
    #      situation in which net/http re-sends a request it considers replayable without telling the caller.
    try:
        wcases = [
            {"_name": "plain", "headers": {"Content-Type": "application/json"}, "body_hex": b'{"n":1}'.hex(), "attempts": 3, "warm": True},
            {"_name": "plain-empty-body", "headers": {"X-Event": "e"}, "body_hex": "", "attempts": 2, "warm": True},
            {"_name": "plain-fresh-connection", "headers": {"Content-Type": "application/json"}, "body_hex": b'{"n":1}'.hex(), "attempts": 2, "warm": False},
            {"_name": "producer-header:Idempotency-Key", "headers": {"Idempotency-Key": "k-1", "Content-Type": "application/json"}, "body_hex": b'{"n":2}'.hex(), "attempts": 3, "warm": True},
            {"_name": "producer-header:X-Idempotency-Key", "headers": {"X-Idempotency-Key": "k-2"}, "body_hex": "", "attempts": 2, "warm": True},
        ]
        rc, out, err = C.harness_run(H, ["wire-run"], {"cases": [{k: v for k, v in c.items() if not k.startswith("_")} for c in wcases]}, timeout=120)
        if rc == 0:
            dist["wire_sends_per_attempt"] = {}
            for c, r in zip(wcases, json.loads(out)["cases"]):
                evaluations += 1
                nontrivial.add(("wire", c["_name"]))
                dist["wire_sends_per_attempt"][c["_name"]] = r["per_call"]
                added = sorted(set(r.get("header_names") or []) - set(c["headers"]) - {"User-Agent", "Content-Length", "Accept-Encoding", "Content-Type"})
                if any(n > 1 for n in r["per_call"]):      # more sends than attempts (0 = the attempt failed before anything was written)
                    C.report(ctx, "wire-replay:" + c["_name"],
                             "one attempt of the real HTTPDeliverer put the message on the wire %s times (per attempt; the target read it and dropped a re-used "
                             "keep-alive connection): the target can receive a message more often than retry.max+1 times, and more often than attempts are recorded"
                             % r["per_call"], {"kind": "request", "case": {k: v for k, v in c.items() if not k.startswith("_")}, "observed": r,
                                               "headers_added_by_the_deliverer": added})
        else:
            ctx.notes.append("wire-run not available: " + err[-300:])
    except (OSError, ValueError, KeyError) as e:
        ctx.notes.append("wire scenarios skipped: %r" % (e,))
    # ---- the target ANSWERS (complete status line and header) and the response body then fails: the delivery is classified by the status
    #      it answered - a 2xx is acked, a 404 dead-lettered as no_retry, a 503 retried - whatever happens to the body afterwards
    try:
        acases = [{"status": st, "body": b} for st in (200, 204, 404, 503, 302) for b in ("complete", "none", "short", "chunked-break", "stall")]
        rc, out, err = C.harness_run(H, ["wire-answer"], {"cases": acases}, timeout=120)
        if rc == 0:
            dist["answered_then_body_fails"] = {}
            for c, r in zip(acases, json.loads(out)["cases"]):
                evaluations += 1
                nontrivial.add(("answer", c["status"], c["body"]))
                k = "%d:%s" % (c["status"], c["body"])
                dist["answered_then_body_fails"][k] = [r["status_code"], bool(r["err"])]
                # what classifyDelivery does with this Result (Err takes precedence over StatusCode) against what the answered status prescribes
                want = prop_action(0, c["status"], 1, 3)
                got = prop_action(5 if r["err"] else 0, r["status_code"], 1, 3)
                if r["status_code"] != c["status"] or got != want:
                    C.report(ctx, "answered-status-overridden:%s" % c["body"],
                             "the target answered %d and its response body then %s: the real HTTPDeliverer returned status %d with error %r, which classifyDelivery settles as "
                             "action %d; the answered status prescribes action %d (0 ack, 1 retry, 2 dead no_retry)" %
                             (c["status"], {"complete": "arrived whole", "none": "was empty", "short": "ended early (connection closed)",
                                            "chunked-break": "broke in the middle of a chunk", "stall": "stalled past the delivery timeout"}[c["body"]],
                              r["status_code"], r["err"], got, want), {"kind": "request", "case": c, "observed": r})
        else:
            ctx.notes.append("wire-answer not available: " + err[-300:])
    except (OSError, ValueError, KeyError) as e:
        ctx.notes.append("answered-then-body-fails scenarios skipped: %r" % (e,))
    tick("wire")
    # ---- what the real PushDispatcher.Start asks the store for: every route's Dequeue must request routeDequeueBatch messages under a
    #      lease of routeLeaseTTL(targets, slack, that batch) - the two functions whose arithmetic is compared with the model above
    try:
        rts = [{"timeouts_ns": [rng.choice([1, 5, 10, 45, 60, 120]) * 10**9 for _ in range(rng.choice([1, 1, 2, 3]))], "concurrency": rng.choice([0, 1, 2, 3, 4, 8, 16])}
               for _ in range(10)]
        rts += [{"timeouts_ns": [60 * 10**9, 60 * 10**9], "concurrency": 2}, {"timeouts_ns": [45 * 10**9, 10**9, 10**9], "concurrency": 8}]
        for slack in (0, 5 * 10**9):
            rc, out, err = C.harness_run(H, ["dispatch-start"], {"slack_ns": slack, "routes": rts}, timeout=120)
            if rc != 0:
                ctx.notes.append("dispatch-start not available: " + err[-300:])
                break
            o = json.loads(out)
            for r, seen, want in zip(rts, o["seen"], o["by_functions"]):
                evaluations += 1
                nontrivial.add(("start", tuple(r["timeouts_ns"]), r["concurrency"], slack))
                if seen != [want]:
                    C.report(ctx, "dispatcher-start-lease-ttl:%s" % ("multi-target" if len(r["timeouts_ns"]) > 1 else "single-target"),
                             "PushDispatcher.Start dequeues with (batch, lease TTL) %s; routeDequeueBatch / routeLeaseTTL give %s for this route: "
                             "messages leased together are not covered for the whole micro-batch" % (seen, want),
                             {"kind": "request", "case": {"route": r, "lease_slack_ns": slack}, "observed": seen, "expected": want})
    except (OSError, ValueError, KeyError) as e:
        ctx.notes.append("dispatcher start scenarios skipped: %r" % (e,))
    tick("start")
    # ---- the store calls of the real runRoute per micro-batch (batched and single lease mutations, unknown targets, Drain while a
    #      delivery is in flight): judged by the property and compared with Model/PushLoop.v run_items
    lres = None
    try:
        def loop_report(key, msg, detail):
            C.report(ctx, key, msg, detail)
        lstats, lres = pushloop.run(ctx, H, rng, ctx.tier, model_ok, loop_report)
        dist["micro_batch_runs"] = lstats
        evaluations += lstats["items"]
        mism += lstats["model_mismatches"]
        for k, v in lstats["item_kinds"].items():
            nontrivial.add(("microbatch", k, v))
    except (OSError, ValueError, KeyError) as e:
        ctx.notes.append("micro-batch scenarios skipped: %r" % (e,))
    tick("micro-batch")
    dist["timing_s"] = timing
    model_evaluated = all(x is not None for x in (mres, fres, qres, cres, m_ttl, m_bat, lres))
    cov.update({
        "evaluations": evaluations,
        "distinct_nontrivial": len(nontrivial),
        "rule": "classification: every (backend run, error kind or status 100..599, attempt in {1,max-1,max,max+1,max+7}, max) is a distinct case and changes "
                "store state (ack/nack/dead + one attempt record); delay: distinct (compiled base, cap, jitter bits, attempt, draw bits); batch: distinct "
                "(backend, path, max, jitter, attempt, result); loop: distinct (backend, concurrency, targets, retry config, start attempt, behaviour script); "
                "plus real-deliverer cases and distinct lease-TTL inputs",
        "samples": samples,
        "exhaustive": True,
        "exhaustive_scope": "all 500 status codes 100..599 x attempts {1,max-1,max,max+1,max+7} x max in {1,3,8} x {none, net, timeout, policy, wrapped policy, "
                            "policy inside url.Error, other} (errors also with StatusCode 200/404/503 set) through classifyDelivery on the memory store; "
                            "SQLite and the batched lease path on all 500 codes for two attempts each",
        "traces_validated_against_impl": evaluations,
        "model_impl_mismatches": mism,
        "model_evaluated_in_coq": model_evaluated,
        "input_distribution": dist,
    })
    broken = C.proof_status(info, "C06")
    if not model_evaluated and not broken:
        broken = ["the Coq model could not be evaluated on the generated cases: %s" % ctx.notes[-1:]]
    return C.conclude(ctx, info, cov, assumptions, proof_broken=broken,
                      searched_note="all classification cases, %d delay rows, %d batch rows and %d loop messages were run on the implementation" %
                                    (len(rowinfo), batch_rows, loop_msgs))
