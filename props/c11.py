"""C11 - Pull, Worker and Admin APIs act only for authorized callers."""
import json
import os
import random
import re

from lib import common as C
from lib import c10c11 as L

OPS = ["dequeue", "ack", "nack", "extend"]
TOKEN_POOL = ["tok-A1b2C3", "s3cr3t/With+chars=", "abc", "abcdef", "Zq9-route", "p@ss:w0rd", "in ner", "UPPERlower", "x", "tok-A1b2C3-long"]
# long tokens (JWT-sized secrets): every byte of a token counts, not only the first few hundred (chosen for about one token in fifteen:
# the byte lists make the model evaluation slow)
LONG_TOKENS = ["eyJhbGciOiJIUzI1NiJ9." + "QmFzZTY0" * 36 + ".sig-A", "k" * 256 + "Z", "m" * 257, "L0ng-" + "0123456789abcdef" * 33]


def q(s):
    return '"' + s.replace("\\", "\\\\").replace('"', '\\"') + '"'


# ---------------------------------------------------------------- admin paths from the source

def admin_paths():
    src = open(os.path.join(C.REPO, "internal", "admin", "http.go")).read()
    m = re.search(r"func \(s \*Server\) ServeHTTP\(.*?\n}\n", src, flags=re.S)
    if not m:
        raise RuntimeError("admin.ServeHTTP not found (source shape changed)")
    paths = re.findall(r'case\s+"(/[^"]*)"', m.group(0))
    m2 = re.search(r"func parseApplicationResourcePath\(.*?\n}\n", src, flags=re.S)
    subs = re.findall(r'case\s+"([a-z_]+)"', m2.group(0)) if m2 else []
    base = "/applications/app1/endpoints"
    app = [base, base + "/ep1", base + "/ep1/messages"] + [base + "/ep1/messages/" + s for s in subs]
    if len(paths) < 5:
        raise RuntimeError("could not extract the Admin path list from admin/http.go: %s" % paths)
    return paths, app


# ---------------------------------------------------------------- configurations

def gen_tokens(rng, ci, tag, n, used):
    """n tokens (ref text, value, env, files) of mixed reference kinds; values unique within the configuration."""
    out = []
    for k in range(n):
        while True:
            val = (rng.choice(LONG_TOKENS) if rng.random() < 0.07 else rng.choice(TOKEN_POOL)) + ("" if rng.random() < 0.5 else "-%s%d" % (tag, k))
            if val not in used:
                used.add(val)
                break
        kind = rng.choice(["raw", "raw", "env", "file", "vault"])
        env, files = {}, {}
        ws = None
        if rng.random() < 0.12:
            # a token whose loaded value is white space only: it is a configured token like any other (no presented token can equal it,
            # because presented tokens are trimmed) - an allowlist made of it admits nobody
            ws = next((w for w in (" ", "\t", "  ", " \t ", "\t\t") if w not in used), None)
        if ws is not None:
            used.discard(val)
            used.add(ws)
            name = "VERIF_C11_%d_%s_%d" % (ci, tag.upper(), k)
            out.append({"ref": "env:" + name, "val": ws, "env": {name: ws}, "files": {}, "ws": True})
            continue
        if kind == "raw":
            ref = "raw:" + val
        elif kind == "env":
            name = "VERIF_C11_%d_%s_%d" % (ci, tag.upper(), k)
            env[name] = val
            ref = "env:" + name
        elif kind == "vault":
            # all vault: references of one configuration live in different FIELDS of one KV entry (a fake Vault on loopback serves it)
            field = "%s_%d" % (tag, k)
            out.append({"ref": "vault:secret/data/hookaido/c%d#%s" % (ci, field), "val": val, "env": {}, "files": {},
                        "vault": {"/v1/secret/data/hookaido/c%d" % ci: {field: val}}})
            continue
        else:
            fname = "%s%d" % (tag, k)
            files[fname] = L.hx(val + rng.choice(["", "\n", "  \n"]))
            ref = "file:__FILE_%s__" % fname
        out.append({"ref": ref, "val": val, "env": env, "files": files})
    return out


def gen_config(rng, ci):
    nroutes = rng.randint(1, 4)
    mode = rng.choice(["global", "route", "both", "both", "mixed"])
    used = set()
    glob = gen_tokens(rng, ci, "g", rng.randint(1, 2), used) if mode in ("global", "both", "mixed") else []
    admin = gen_tokens(rng, ci, "a", rng.randint(1, 2), used) if rng.random() < 0.75 else []
    routes = []
    for k in range(nroutes):
        own = []
        if mode == "route" or (mode == "both" and rng.random() < 0.7) or (mode == "mixed" and rng.random() < 0.4):
            own = gen_tokens(rng, ci, "r%d" % k, rng.randint(1, 2), used)
        routes.append({"route": "/r%d" % k, "endpoint": rng.choice(["/pull/r%d", "/q/r%d/x", "/r%d"]) % k, "tokens": own})
    if mode == "both" and rng.random() < 0.3 and glob and not glob[0].get("ws"):
        # a route that also lists a global token explicitly, and one sharing another route's token
        routes[0]["tokens"] = routes[0]["tokens"] + [dict(glob[0], ref="raw:" + glob[0]["val"], env={}, files={})] if routes[0]["tokens"] else routes[0]["tokens"]
    shared = rng.random() < 0.25
    pull_prefix = rng.choice(["/papi", "/papi", "/v1/pull"]) if (shared or rng.random() < 0.5) else ""
    admin_prefix = rng.choice(["/admin", "/adm/v2"]) if (shared or rng.random() < 0.4) else ""
    env, files = {}, {}
    vault = {}

    def take_vault(t):
        for pth, fields in (t.get("vault") or {}).items():
            vault.setdefault(pth, {}).update(fields)
    lines = ['ingress { listen "__INGRESS__" }']
    pl = ['  listen "__PULL__"', '  grpc_listen "__GRPC__"']
    if pull_prefix:
        pl.append("  prefix %s" % q(pull_prefix))
    for t in glob:
        pl.append("  auth token %s" % q(t["ref"]))
        env.update(t["env"]); files.update(t["files"]); take_vault(t)
    lines.append("pull_api {\n%s\n}" % "\n".join(pl))
    al = ['  listen "%s"' % ("__PULL__" if shared else "__ADMIN__")]
    if admin_prefix:
        al.append("  prefix %s" % q(admin_prefix))
    for t in admin:
        al.append("  auth token %s" % q(t["ref"]))
        env.update(t["env"]); files.update(t["files"]); take_vault(t)
    lines.append("admin_api {\n%s\n}" % "\n".join(al))
    for r in routes:
        pb = ["    path %s" % q(r["endpoint"])]
        for t in r["tokens"]:
            pb.append("    auth token %s" % q(t["ref"]))
            env.update(t["env"]); files.update(t["files"]); take_vault(t)
        lines.append("%s {\n  pull {\n%s\n  }\n}" % (q(r["route"]), "\n".join(pb)))
    lines.append('"/push" {\n  deliver "https://t.example/c11" {}\n}')
    return {"text": "\n".join(lines) + "\n", "env": env, "files": files, "vault": vault, "glob": glob, "admin": admin, "routes": routes,
            "pull_prefix": pull_prefix, "admin_prefix": admin_prefix, "shared": shared, "mode": mode}


def auth_variants(rng, good, others):
    """Authorization header value lists around a valid token `good` (None when nothing valid exists)."""
    v = [[], ["Basic dXNlcjpwYXNz"], ["Bearer "], ["Bearer"], ["Bearer nope-%d" % rng.randrange(1000)], ["Token abc"]]
    for o in others:
        v.append(["Bearer " + o])
    if good is not None:
        g = good
        flips = g.swapcase()
        v += [["Bearer " + g], ["Bearer   " + g + "  "], ["Bearer " + g + " "], ["bearer " + g], ["BEARER " + g], ["Bearer\t" + g],
              ["Bearer " + g[:-1]] if len(g) > 1 else ["Bearer "], ["Bearer " + g[1:]] if len(g) > 1 else ["Bearer "],
              ["Bearer " + g + "x"], ["Bearer x" + g], ["Bearer " + flips] if flips != g else ["Bearer " + g + "X"],
              ["Bearer " + g + " extra"], ["Bearer nope", "Bearer " + g], ["Bearer " + g, "Bearer nope"], [g], ["Bearer Bearer " + g],
              ["Basic " + g], ["  Bearer " + g]]
        # the same length with ONE character replaced, at the ends, in the middle and around byte 255/256/257 and 1023/1024
        for pos in sorted({0, len(g) // 2, len(g) - 1, 254, 255, 256, 257, 511, 512, 1023, 1024}):
            if 0 <= pos < len(g):
                ch = "Q" if g[pos] != "Q" else "R"
                v.append(["Bearer " + g[:pos] + ch + g[pos + 1:]])
    return v


def build_requests(rng, cfg, apaths, app_paths, quick):
    reqs = []
    def usable(ts):
        return [t for t in ts if not t.get("ws")]
    allvals = [t["val"] for t in usable(cfg["glob"])] + [t["val"] for r in cfg["routes"] for t in usable(r["tokens"])] + [t["val"] for t in usable(cfg["admin"])]
    pp = cfg["pull_prefix"]
    for r in cfg["routes"]:
        eff = r["tokens"] or cfg["glob"]
        good = usable(eff)[0]["val"] if usable(eff) else None
        others = [x for x in dict.fromkeys(allvals) if x not in [t["val"] for t in eff]][:4]
        more_good = [t["val"] for t in usable(eff)[1:]]
        variants = auth_variants(rng, good, others) + [["Bearer " + g] for g in more_good]
        for op in OPS:
            vs = variants if not quick else rng.sample(variants, min(len(variants), 14)) + [["Bearer " + good]] if good else variants
            for a in vs:
                shape = rng.choices(["plain", "dots", "slashes", "trail", "noprefix", "badop", "get", "otherprefix"], [10, 2, 2, 1, 1, 1, 1, 1])[0]
                path = pp + r["endpoint"] + "/" + op
                method = "POST"
                if shape == "dots":
                    path = pp + r["endpoint"] + "/x/../" + op
                elif shape == "slashes":
                    path = pp + "/" + r["endpoint"] + "//" + op
                elif shape == "trail":
                    path = pp + r["endpoint"] + "/" + op + "/"
                elif shape == "noprefix":
                    path = r["endpoint"] + "/" + op if pp else "/zz" + r["endpoint"] + "/" + op
                elif shape == "badop":
                    path = pp + r["endpoint"] + "/" + rng.choice(["peek", op.upper(), op + "x", ""])
                elif shape == "get":
                    method = rng.choice(["GET", "PUT", "DELETE"])
                elif shape == "otherprefix":
                    path = pp + "x" + r["endpoint"] + "/" + op
                reqs.append({"kind": "pull", "method": L.hx(method), "target": L.hx(path), "auth": [L.hx(x) for x in a], "op": op,
                             "lease_route": L.hx(r["route"]), "_route": r["route"]})
            # worker
            wv = variants if not quick else rng.sample(variants, min(len(variants), 10)) + ([["bearer " + good]] if good else [])
            for a in wv:
                ascii_ok = all(all(32 <= ord(c) < 127 for c in x) and x == x.strip() and x != "" for x in a)
                transport = "grpc" if (ascii_ok and rng.random() < 0.6) else "inproc"
                ep = r["endpoint"]
                eshape = rng.choices(["plain", "padded", "unknown", "slash", "empty", "prefixed"], [12, 2, 1, 1, 1, 3 if pp else 0])[0]
                if eshape == "prefixed":
                    # the endpoint as the HTTP pull API spells it (pull_api.prefix + endpoint): over gRPC the endpoint is the bare
                    # pull path - this spelling names no endpoint, whatever token comes with it
                    ep = pp + ep
                elif eshape == "padded":
                    ep = " " + ep + "\t"
                elif eshape == "unknown":
                    ep = ep + "-nope"
                elif eshape == "slash":
                    ep = ep + "/"
                elif eshape == "empty":
                    ep = "  "
                rq = {"kind": "worker", "transport": transport, "endpoint": L.hx(ep), "auth": [L.hx(x) for x in a], "op": op,
                      "lease_route": L.hx(r["route"]), "_route": r["route"], "no_md": False, "bad_args": False}
                if transport == "inproc" and not a and rng.random() < 0.5:
                    rq["no_md"] = True
                if op in ("dequeue", "extend") and rng.random() < 0.08:
                    rq["bad_args"] = True
                reqs.append(rq)
    # cross-route: a route's own token presented at another route's endpoint
    for r in cfg["routes"]:
        for r2 in cfg["routes"]:
            if r is r2 or not usable(r["tokens"]):
                continue
            op = rng.choice(OPS)
            reqs.append({"kind": "pull", "method": L.hx("POST"), "target": L.hx(pp + r2["endpoint"] + "/" + op),
                         "auth": [L.hx("Bearer " + usable(r["tokens"])[0]["val"])], "op": op, "lease_route": L.hx(r2["route"]), "_route": r2["route"]})
            reqs.append({"kind": "worker", "transport": "grpc", "endpoint": L.hx(r2["endpoint"]), "auth": [L.hx("Bearer " + usable(r["tokens"])[0]["val"])],
                         "op": op, "lease_route": L.hx(r2["route"]), "_route": r2["route"], "no_md": False, "bad_args": False})
    # admin: every path of the router
    ap = cfg["admin_prefix"]
    agood = usable(cfg["admin"])[0]["val"] if usable(cfg["admin"]) else None
    aothers = [x for x in dict.fromkeys(allvals) if x not in [t["val"] for t in cfg["admin"]]][:2]
    av = auth_variants(rng, agood, aothers)
    for path in apaths + app_paths + ["/", "/nope", "/healthz/", "/dlq/../healthz", "//healthz"]:
        for method in ("GET", "POST") + (("PUT", "DELETE") if "/endpoints/ep1" in path and path.endswith("ep1") else ()):
            for a in (rng.sample(av, min(len(av), 5 if quick else 12)) + ([["Bearer " + agood]] if agood else [])):
                reqs.append({"kind": "admin", "method": L.hx(method), "target": L.hx(ap + path + ("?details=false" if path == "/healthz" else "")),
                             "auth": [L.hx(x) for x in a], "op": "", "lease_route": ""})
    if ap:
        reqs.append({"kind": "admin", "method": L.hx("GET"), "target": L.hx("/healthz"), "auth": [], "op": "", "lease_route": ""})
    return reqs


# ---------------------------------------------------------------- compile-rule configurations

def gen_compile_case(rng, i):
    has_api = rng.random() < 0.8
    nglob = rng.choice([0, 0, 1, 2]) if has_api else 0
    nroutes = rng.choice([0, 1, 2, 3])
    bad = False
    glob_refs = []
    lines = ['ingress { listen "__INGRESS__" }']

    def tok(j):
        nonlocal bad
        r = rng.random()
        if r < 0.08:
            bad = True
            return ""                # empty token
        if r < 0.14:
            bad = True
            return "raw:"            # empty raw value
        if r < 0.18:
            bad = True
            return "nonsense-ref"    # unsupported scheme
        if r < 0.22:
            bad = True
            return "env:"
        return "raw:t%d-%d" % (i, j)

    if has_api:
        pl = ['  listen "__PULL__"']
        for j in range(nglob):
            t = tok(j)
            pl.append("  auth token %s" % q(t))
            if t and not (t in ("raw:", "nonsense-ref", "env:")):
                glob_refs.append(t)
        lines.append("pull_api {\n%s\n}" % "\n".join(pl))
    lines.append('admin_api { listen "__ADMIN__" }')
    routes = []
    for k in range(nroutes):
        n = rng.choice([0, 0, 1, 2])
        refs = []
        pb = ["    path %s" % q("/pull/k%d" % k)]
        for j in range(n):
            t = tok(10 * k + j + 100)
            pb.append("    auth token %s" % q(t))
            if t and not (t in ("raw:", "nonsense-ref", "env:")):
                refs.append(t)
        routes.append(refs)
        lines.append("%s {\n  pull {\n%s\n  }\n}" % (q("/k%d" % k), "\n".join(pb)))
    lines.append('"/push" {\n  deliver "https://t.example/c11" {}\n}')
    return {"text": "\n".join(lines) + "\n", "has_api": has_api, "glob": glob_refs, "routes": routes, "bad": bad}


def compile_in_coq(c):
    rs = "; ".join("{| pr_route := %s; pr_endpoint := %s; pr_tokens := %s |}" % (
        L.cb(L.hx("/k%d" % k)), L.cb(L.hx("/pull/k%d" % k)), L.cbs([L.hx(t) for t in refs])) for k, refs in enumerate(c["routes"]))
    return "{| c_has_pull_api := %s; c_global := %s; c_pull_routes := [%s]; c_bad_token := %s |}" % (
        C.coq_bool(c["has_api"]), L.cbs([L.hx(t) for t in c["glob"]]), rs, C.coq_bool(c["bad"]))


# ---------------------------------------------------------------- model

MODEL_DEFS = """
Definition run_op (op : pull_opk) (route : bytes) (s : N) : N * N := (299, s + 1).
Definition router (m p : bytes) (s : N) : N * N * bool := (299, s, true).
Definition b2n (x : bool) : N := if x then 1 else 0.
Definition nil_l (l : list bytes) : bool := match l with [] => true | _ => false end.
(* one number per case: decimal digits 1 sss c a o m  (status, calls, authorized, open, any-value) *)
Definition pack (l : list N) : N :=
  match l with
  | [st; calls; a; o; m] => ((((1000 + st) * 10 + N.min calls 9) * 10 + a) * 10 + o) * 10 + m
  | _ => 0
  end.
(* status; store calls; authorize verdict (2 = not reached); effective allowlist empty (open) *)
Definition ev_pull (c : auth_cfg) (prefix method path : bytes) (auth : list bytes) : N :=
  pack match mount_prefix prefix path with
  | None => [404; 0; 2; 2; 0]
  | Some p => let o := pull_serve N run_op c method p auth 0 in
              [o_status N o; N.of_nat (List.length (o_calls N o)); b2n (authorize_pull c p auth);
               b2n (nil_l (allow_norm (effective c (pull_endpoint p))));
               b2n (existsb (fun v => http_bearer_ok (effective c (pull_endpoint p)) [v]) auth)]
  end.
Definition ev_worker (c : auth_cfg) (op : pull_opk) (ep : bytes) (pre : bool) (md : option (list bytes)) : N :=
  let o := worker_call N run_op c op ep pre md 0 in
  pack [o_status N o; N.of_nat (List.length (o_calls N o)); b2n (authorize_worker c (trim ep) md);
   b2n (nil_l (allow_norm (effective c (trim ep)))); 0].
Definition ev_admin (c : auth_cfg) (prefix method path : bytes) (auth : list bytes) : N :=
  pack match mount_prefix prefix path with
  | None => [404; 0; 2; 2; 0]
  | Some p => let o := admin_serve N router c method p auth 0 in
              [ad_status N o; b2n (ad_routed N o); b2n (authorize_admin c auth); b2n (nil_l (allow_norm (a_admin c)));
               b2n (existsb (fun v => http_bearer_ok (a_admin c) [v]) auth)]
  end.
"""

OPK = {"dequeue": "OpDequeue", "ack": "OpAck", "nack": "OpNack", "extend": "OpExtend"}


def cfg_coq(co):
    rs = "; ".join("{| pr_route := %s; pr_endpoint := %s; pr_tokens := %s |}" % (L.cb(r["route"]), L.cb(r["endpoint"]), L.cbs(r["tokens"])) for r in co["routes"] or [])
    return "{| a_global := %s; a_admin := %s; a_routes := [%s] |}" % (L.cbs(co["global"]), L.cbs(co["admin"]), rs)


def main(ctx, replay):
    rng = random.Random(ctx.seed)
    info = C.prologue(ctx)
    if info["hbin"] is None:
        raise C.HarnessBuildFailed(info.get("go_log", ""))
    quick = ctx.tier == "quick"
    n_cfg = 18 if quick else 120
    n_compile = 150 if quick else 1500
    assumptions = [
        "HTTP: the model receives URL.Path and the Authorization values as the listener's handler sees them (net/http parsing is library code)",
        "gRPC loopback: metadata values are printable ASCII without surrounding blanks and are assumed to reach the server unchanged; other values go to an in-process workerapi.Server wired with the same runtimeState callbacks",
        "vault: secret references are served by a fake Vault (KV v2 answers over plain HTTP on loopback); TLS, namespaces and Vault error paths are not exercised",
        "sharedPrefixMux (pull and admin on one listener) is mirrored by the Python glue: pull requests carry the pull prefix, admin requests the admin prefix",
    ]
    cov = C.proof_coverage(info, "C11")
    apaths, app_paths = admin_paths()

    cfgs = [gen_config(rng, ci) for ci in range(n_cfg)]
    # loader fact: references whose value is empty must make loadAuth fail (configuration refused)
    loadfail = []
    k = 0
    for kind in ["env-empty", "env-missing", "file-empty", "file-blank"]:
        # the unloadable reference sits in the global pull_api block, in admin_api, alone in a route's pull block, or after a loadable token there
        for pos in ["global", "admin", "route-only", "route-second"]:
            k += 1
            c = gen_config(rng, 1000 + k)
            name = "VERIF_C11_EMPTY_%d" % k
            if kind == "env-empty":
                c["env"][name] = ""
                ref = "env:" + name
            elif kind == "env-missing":
                ref = "env:" + name + "_UNSET"
            elif kind == "file-empty":
                c["files"]["empty%d" % k] = L.hx("")
                ref = "file:__FILE_empty%d__" % k
            else:
                c["files"]["empty%d" % k] = L.hx(" \n\t\n")
                ref = "file:__FILE_empty%d__" % k
            if pos == "global":
                c["text"] = c["text"].replace('grpc_listen "__GRPC__"', 'grpc_listen "__GRPC__"\n  auth token %s' % q(ref), 1)
            elif pos == "admin":
                c["text"] = c["text"].replace("admin_api {\n", "admin_api {\n  auth token %s\n" % q(ref), 1)
            else:
                r0 = c["routes"][0]
                head = "    path %s" % q(r0["endpoint"])
                extra = ("\n    auth token %s" % q("raw:good-route-token-%d" % k) if pos == "route-second" and not r0["tokens"] else "")
                # route-only: the unloadable reference is the route's first token; route-second: a loadable one precedes it
                if pos == "route-only":
                    c["text"] = c["text"].replace(head, head + "\n    auth token %s" % q(ref), 1)
                else:
                    lines_r = c["text"].split("\n")
                    i0 = lines_r.index(head)
                    j = i0 + 1
                    while j < len(lines_r) and lines_r[j].startswith("    auth token"):
                        j += 1
                    ins = ([("    auth token %s" % q("raw:good-route-token-%d" % k))] if j == i0 + 1 else []) + ["    auth token %s" % q(ref)]
                    c["text"] = "\n".join(lines_r[:j] + ins + lines_r[j:])
            c["_kind"] = kind + "@" + pos
            loadfail.append(c)
    inputs = []
    all_reqs = []
    for c in cfgs:
        rq = build_requests(rng, c, apaths, app_paths, quick)
        all_reqs.append(rq)
        inputs.append({"text": c["text"], "env": c["env"], "files": c["files"], "vault": c.get("vault") or {}, "requests": [{k: v for k, v in r.items() if not k.startswith("_")} for r in rq]})
    for c in loadfail:
        inputs.append({"text": c["text"], "env": c["env"], "files": c["files"], "vault": c.get("vault") or {}, "requests": []})
    ccases = [gen_compile_case(rng, i) for i in range(n_compile)]
    for c in ccases:
        inputs.append({"text": c["text"], "env": {}, "files": {}, "requests": []})

    # ---- implementation (parallel chunks)
    nchunk = 6 if quick else 12
    chunks = [list(range(k, len(inputs), nchunk)) for k in range(nchunk)]
    outs = [None] * len(inputs)
    import concurrent.futures

    def run_chunk(arg):
        k, idxs = arg
        last = ""
        for attempt in range(3):
            rc, out, err = C.harness_run(info["hbin"], ["apiauth"], {"dir": os.path.join(ctx.scratch, "aa%d" % k), "configs": [inputs[i] for i in idxs]})
            if rc == 0:
                return idxs, json.loads(out)
            last = err
        raise RuntimeError("apiauth harness failed: " + last[-2000:])

    with concurrent.futures.ThreadPoolExecutor(max_workers=nchunk) as ex:
        for idxs, o in ex.map(run_chunk, enumerate(chunks)):
            for i, co in zip(idxs, o):
                outs[i] = co

    col = L.Collector()
    evaluations = 0
    dist = {"configs": n_cfg, "config_modes": {}, "shared_listener": 0, "kinds": {"pull": 0, "worker-grpc": 0, "worker-inproc": 0, "admin": 0},
            "status": {}, "authorized": 0, "unauthorized": 0, "open_allowlist": 0, "effectful_authorized": 0,
            "admin_paths_from_source": len(apaths) + len(app_paths), "compile_cases": n_compile, "compile_rejected": 0, "compile_accepted": 0,
            "loader_refusals": 0}

    # ---- loader fact
    for c, co in zip(loadfail, outs[n_cfg:n_cfg + len(loadfail)]):
        evaluations += 1
        if not co["compile_ok"]:
            continue   # refused even earlier
        if co.get("started_anyway"):
            col.add("unloadable-secret-started:" + c["_kind"], (0, 0),
                    "a token reference that cannot be loaded (%s: %s) did not stop the start: the authorizers were built without it, so the "
                    "listener it was meant to protect is served on other credentials or on none" % (c["_kind"], co.get("load_err")),
                    {"kind": "program", "case": {"config": c["text"], "env": c["env"]}, "observed": {k: co.get(k) for k in ("load_err", "started_anyway", "global", "routes")}})
        elif co.get("empty_loaded") or not co.get("load_err") or co.get("rows"):
            col.add("loader-empty-secret:" + c["_kind"], (0, 0), "a secret reference with an empty value (%s) was loaded instead of being refused" % c["_kind"],
                    {"kind": "program", "case": {"config": c["text"], "env": c["env"]}, "observed": {k: co.get(k) for k in ("load_err", "empty_loaded", "global")}})
        else:
            dist["loader_refusals"] += 1

    # ---- model
    bodies, shard_cfgs = [], []
    nshard = 12
    for k in range(nshard):
        idxs = [ci for ci in range(n_cfg) if ci % nshard == k and outs[ci]["compile_ok"] and not outs[ci].get("load_err")]
        if not idxs:
            continue
        b = [L.PRELUDE, MODEL_DEFS]
        for ci in idxs:
            co = outs[ci]
            b.append("Definition cfg%d : auth_cfg := %s." % (ci, cfg_coq(co)))
            items = []
            for rq, row in zip(all_reqs[ci], co["rows"]):
                if rq["kind"] == "pull":
                    if not row["seen"]:
                        items.append("pack [0; 0; 2; 2; 0]")
                    else:
                        items.append("ev_pull cfg%d %s %s %s %s" % (ci, L.cb(L.hx(co["pull_prefix"])), L.cb(rq["method"]), L.cb(row["seen_path"]), L.cbs(row["seen_auth"])))
                elif rq["kind"] == "admin":
                    if not row["seen"]:
                        items.append("pack [0; 0; 2; 2; 0]")
                    else:
                        items.append("ev_admin cfg%d %s %s %s %s" % (ci, L.cb(L.hx(co["admin_prefix"])), L.cb(rq["method"]), L.cb(row["seen_path"]), L.cbs(row["seen_auth"])))
                else:
                    md = "None" if rq.get("no_md") else "(Some %s)" % L.cbs(rq["auth"])
                    items.append("ev_worker cfg%d %s %s %s %s" % (ci, OPK[rq["op"]], L.cb(rq["endpoint"]), C.coq_bool(not rq.get("bad_args")), md))
            b.append("Definition out%d := Eval vm_compute in [%s].\nRedirect \"c11out%d\" Print out%d." % (ci, ";\n ".join(items), ci, ci))
        bodies.append("\n".join(b) + "\n")
        shard_cfgs.append(idxs)
    # compile rule
    cb = [L.PRELUDE, "Definition b2n (x : bool) : N := if x then 1 else 0.",
          "Definition outc := Eval vm_compute in map (fun c => b2n (compile_ok c)) [%s].\nPrint outc." % ";\n ".join(compile_in_coq(c) for c in ccases)]
    bodies.append("\n".join(cb) + "\n")
    results = C.coq_eval_shards(ctx, "c11cases", bodies)
    proof_broken = C.proof_status(info, "C11")
    model = {}
    for idxs, (rc, out) in zip(shard_cfgs, results[:-1]):
        if rc != 0:
            if not proof_broken:
                raise RuntimeError("model evaluation failed: " + out[-2000:])
            continue
        for ci in idxs:
            rows = L.parse_nested(L.read_redirect(ctx, "c11out%d" % ci), "out%d" % ci)
            if rows is None or len(rows) != len(all_reqs[ci]):
                raise RuntimeError("could not parse model output out%d" % ci)
            dec = []
            for v in rows:
                d = str(v)
                if len(d) != 8:
                    raise RuntimeError("bad packed model row %r" % v)
                dec.append([int(d[1:4]), int(d[4]), int(d[5]), int(d[6]), int(d[7])])
            model[ci] = dec
    rc, outc = results[-1]
    mcompile = L.parse_nested(outc, "outc") if rc == 0 else None
    if mcompile is None and not proof_broken:
        raise RuntimeError("compile model evaluation failed: " + outc[-2000:])

    # ---- compare: requests
    nontrivial = set()
    samples = []
    mism = 0
    for ci, c in enumerate(cfgs):
        co = outs[ci]
        dist["config_modes"][c["mode"]] = dist["config_modes"].get(c["mode"], 0) + 1
        if c["shared"]:
            dist["shared_listener"] += 1
        if not co["compile_ok"] or co.get("load_err"):
            col.add("generator-config-rejected", (0, 0), "a configuration the generator considers valid was refused: %s %s" % (co.get("errors"), co.get("load_err")),
                    {"kind": "program", "case": {"config": c["text"]}})
            continue
        if co.get("empty_loaded"):
            col.add("loader-empty-secret", (0, 0), "secrets.LoadRef returned an empty value", {"kind": "program", "case": {"config": c["text"]}})
        # what loadAuth must have loaded
        want_g = [L.hx(t["val"]) for t in c["glob"]]
        want_a = [L.hx(t["val"]) for t in c["admin"]]
        if co["global"] != want_g or co["admin"] != want_a or [r["tokens"] for r in co["routes"]] != [[L.hx(t["val"]) for t in r["tokens"]] for r in c["routes"]]:
            col.add("loaded-tokens-differ", (0, 0), "token values loaded from the references differ from what was configured",
                    {"kind": "program", "case": {"config": c["text"]}, "observed": {"global": co["global"], "routes": co["routes"]}})
        if ci not in model:
            continue
        for ri, (rq, row, m) in enumerate(zip(all_reqs[ci], co["rows"], model[ci])):
            evaluations += 1
            kind = rq["kind"] if rq["kind"] != "worker" else "worker-" + rq["transport"]
            dist["kinds"][kind] += 1
            dist["status"]["%s:%s" % (rq["kind"], row["status"])] = dist["status"].get("%s:%s" % (rq["kind"], row["status"]), 0) + 1
            case = {"config": c["text"], "env": c["env"], "request": {k: (L.show(v) if k in ("method", "target", "endpoint") and isinstance(v, str) else v) for k, v in rq.items() if k not in ("auth", "lease_route")},
                    "authorization": [L.show(a) for a in rq["auth"]]}
            size = (len(c["routes"]), len(c["text"]) + sum(len(a) for a in rq["auth"]))
            if row.get("err"):
                col.add("transport-error:" + kind, size, "request could not be completed: " + row["err"], {"kind": "request", "case": case})
                continue
            mst, mcalls, mauth, mopen, many = m
            if c["shared"] and rq["kind"] in ("pull", "admin") and row["seen"]:
                # sharedPrefixMux in front of the mounted handlers
                p = L.unhx(row["seen_path"]).decode("latin-1")
                def hp(p, pre):
                    return pre == "" or p == pre or p.startswith(pre + "/")
                target = "pull" if hp(p, co["pull_prefix"]) else ("admin" if hp(p, co["admin_prefix"]) else None)
                if target != rq["kind"]:
                    if target is None and row["status"] == 404 and row["calls"] == 0 and not row["changed"]:
                        continue
                    col.add("shared-mux-routing", size, "shared listener sent a %s request elsewhere" % rq["kind"], {"kind": "request", "case": case, "observed": row})
                    continue
            if rq["kind"] in ("pull", "admin") and not row["seen"]:
                if row["calls"] or row["changed"]:
                    col.add("effect-without-handler", size, "store touched although the handler was never entered", {"kind": "request", "case": case, "observed": row})
                continue
            if mopen == 1:
                dist["open_allowlist"] += 1
            # classes
            if rq["kind"] == "pull":
                cls = row["status"] if row["status"] in (401, 404, 405) else 299
            elif rq["kind"] == "admin":
                cls = 401 if row["status"] == 401 else (404 if (mst == 404 and row["status"] == 404) else 299)
            else:
                cls = row["status"] if row["status"] in (16, 3, 5) else 299
            ran_model = mst == 299
            problems, key = [], None
            # P_C11 on what the implementation did
            if mauth == 0 and many == 1 and len(rq["auth"]) > 1 and row["status"] not in (401, 405):
                # several Authorization values, a later one is valid: the code looks at the first only; a version that
                # honours any value still acts only for a caller carrying a valid token - both outcomes satisfy C11
                dist["later_value_valid_accepted"] = dist.get("later_value_valid_accepted", 0) + 1
                continue
            if mauth == 0:
                dist["unauthorized"] += 1
                nontrivial.add((ci, ri))
                refused = {"pull": (401, 405), "admin": (401,), "worker": (16, 3)}[rq["kind"]]
                if row["calls"] or row["changed"]:
                    problems.append("unauthorized request reached the store (%d store calls, store changed=%s)" % (row["calls"], row["changed"]))
                if row["status"] not in refused:
                    problems.append("unauthorized request was answered %s instead of %s" % (row["status"], refused[0]))
                if problems:
                    key = "unauthorized-accepted:%s:%s" % (kind, variant_class(rq, c))
            elif mauth == 1:
                dist["authorized"] += 1
                if mopen == 0:
                    nontrivial.add((ci, ri))
                if row["status"] in ((401,) if rq["kind"] != "worker" else (16,)):
                    problems.append("authorized request was refused (%s)" % row["status"])
                    key = "authorized-refused:%s:%s" % (kind, variant_class(rq, c))
                if row["changed"]:
                    dist["effectful_authorized"] += 1
            if not problems and cls != mst and not (rq["kind"] == "admin" and ran_model and cls == 299):
                problems.append("status class: model %s, implementation %s (HTTP/gRPC %s)" % (mst, cls, row["status"]))
                key = "status-class:%s:%s-vs-%s" % (kind, mst, cls)
            if not problems and rq["kind"] != "admin" and ((mcalls > 0) != (row["calls"] > 0)) and cls == 299 and row["status"] in (200, 204, 0):
                problems.append("store calls: model %d, implementation %d" % (mcalls, row["calls"]))
                key = "store-calls:%s" % kind
            if problems:
                mism += 1
                col.add(key, size, "; ".join(problems),
                        {"kind": "request", "case": case, "seen": {"path": L.show(row.get("seen_path") or ""), "authorization": [L.show(a) for a in row.get("seen_auth") or []]},
                         "observed": {"status": row["status"], "store_calls": row["calls"], "store_changed": row["changed"]},
                         "expected": {"status_class": mst, "authorized": mauth, "allowlist_open": mopen}, "how_to_replay": "./check C11 --replay <this file>"})
            elif len(samples) < 10 and rng.random() < 0.002:
                samples.append({"request": case["request"], "authorization": case["authorization"], "observed": {"status": row["status"], "calls": row["calls"], "changed": row["changed"]},
                                "model": {"status_class": mst, "authorized": mauth}})

    # ---- compare: compile rule
    for i, c in enumerate(ccases):
        evaluations += 1
        co = outs[n_cfg + len(loadfail) + i]
        if not co["parse_ok"]:
            col.add("compile-case-parse", (0, len(c["text"])), "generated configuration does not parse: %s" % co.get("errors"), {"kind": "program", "case": {"config": c["text"]}})
            continue
        got = bool(co["compile_ok"])
        dist["compile_accepted" if got else "compile_rejected"] += 1
        if mcompile is None:
            continue
        want = mcompile[i] == 1
        # P_C11: a configuration that compiles leaves no pull route open
        if got:
            for r in co["routes"] or []:
                if not r["tokens"] and not co["global"]:
                    col.add("compiled-open-route", (len(c["routes"]), len(c["text"])), "configuration compiles but pull route %s has an empty effective allowlist" % L.show(r["route"]),
                            {"kind": "program", "case": {"config": c["text"]}, "observed": {"compile_ok": True, "global": co["global"], "routes": co["routes"]}})
            nontrivial.add(("compile", i))
        if got != want:
            mism += 1
            col.add("compile-rule:%s" % ("accepted" if got else "rejected"), (len(c["routes"]), len(c["text"])),
                    "Compile %s a configuration the model of the token rules %s (errors: %s)" % ("accepts" if got else "rejects", "rejects" if got else "accepts", co.get("errors")),
                    {"kind": "program", "case": {"config": c["text"], "structure": {k: c[k] for k in ("has_api", "glob", "routes", "bad")}},
                     "observed": {"compile_ok": got, "errors": co.get("errors")}, "expected": {"compile_ok": want}})
        elif not got:
            nontrivial.add(("compile", i))
    col.flush(ctx, priority=lambda k: 0 if k.startswith(("unauthorized-accepted", "compiled-open-route", "loader-empty-secret")) else 1)

    # ---- byte functions the bearer model relies on
    sp = [b" ", b"\t", b"\n", b"\xc2\xa0", b"\xe2\x80\x83", b"Bearer ", b"bearer ", b"tok", b"\xc2", b"\x85", b"x", b"\xe3\x80\x80", b"\r", b"\xe2\x80"]
    trims = set()
    while len(trims) < (300 if quick else 3000):
        trims.add(L.hx(b"".join(rng.choice(sp) for _ in range(rng.randint(1, 6)))))
    paths = set(L.hx(p) for p in ["/pull/r1/dequeue", "/pull/r1/../r2/ack", "//pull//r1//ack/", "/", "", "dequeue", "/dequeue", "/pull/r1/", "/a/b/c/.."])
    seg = ["/", "pull", "r1", "..", ".", "ack", "//", "x"]
    while len(paths) < (200 if quick else 2000):
        paths.add(L.hx("".join(rng.choice(seg) for _ in range(rng.randint(1, 7)))))
    sinp = {"paths": sorted(paths), "hosts": [], "trims": sorted(trims), "hostports": [], "keys": [], "path_pairs": [], "host_pairs": []}
    n_str, smism = L.strfuncs_compare(ctx, info, sinp, "c11")
    evaluations += n_str
    seen_f = {}
    for mm in smism:
        seen_f[mm["func"]] = seen_f.get(mm["func"], 0) + 1
        if seen_f[mm["func"]] <= 2:
            C.report(ctx, "strfunc:%s" % mm["func"], "Coq model of %s differs from Go on %s: model %r, Go %r" % (mm["func"], L.show(mm["input"]), mm["model"], mm["impl"]),
                     {"kind": "request", "case": mm})

    # ---- the allowlists in force after a management mutation: the operator has edited pull authentication in the file (not yet reloaded),
    #      then an Admin-API managed-endpoint upsert/delete is applied - it rewrites and reloads THAT file, so every pull endpoint must
    #      answer by the allowlists of the file now in force (route's own tokens when it declares any, otherwise the global ones)
    st_stats = staged_auth_then_mutation(ctx, info, rng)
    rr_stats = refused_reload_keeps_pull_auth(ctx, info, rng)
    dist["staged_auth_then_mutation"] = st_stats
    dist["refused_restart_reload"] = rr_stats
    evaluations += rr_stats["decision_lines"]
    evaluations += st_stats["probes"]

    cov.update({
        "evaluations": evaluations,
        "distinct_nontrivial": len(nontrivial),
        "rule": "non-trivial = a request the model judges unauthorized (it must be refused without any store call), or one authorized against a NON-empty effective allowlist (it must get through), or a compile case that is rejected / accepted with pull routes; distinct by (configuration, request) resp. compile case",
        "samples": samples,
        "traces_validated_against_impl": evaluations,
        "model_impl_mismatches": mism + len(smism),
        "input_distribution": dist,
    })
    return C.conclude(ctx, info, cov, assumptions, proof_broken=proof_broken,
                      searched_note="%d requests / compile cases on the implementation showed no property failure" % evaluations)


STAGED_BASE = """ingress {
  listen ":18080"
}
pull_api {
  listen ":19443"
  auth token "raw:pt-global"
}
admin_api { listen "127.0.0.1:19444" }

"/m1" {
  application "app1"
  endpoint_name "ep1"
  pull { path /pull/m1 }
}
"/m2" {
  pull { path /pull/m2 }
}
"""


def refused_reload_keeps_pull_auth(ctx, info, rng):
    """a reload that is REFUSED because it needs a restart (a pull_api setting changed) while the same file also renames, adds or re-tokens
    pull routes: the running configuration stays in force as a whole - every pull (and worker) endpoint keeps answering by the allowlists
    of the running file; in particular a route with its own tokens is not opened to the global token, or to nobody's token, in between"""
    own = lambda r, p_, t: '"%s" {\n  pull {\n    path %s\n    auth token "raw:%s"\n  }\n}\n' % (r, p_, t)
    head_g = 'ingress {\n  listen ":18080"\n}\npull_api {\n  listen ":19443"\n  auth token "raw:pt-global"\n%s}\nadmin_api { listen "127.0.0.1:19444" }\n'
    head_n = 'ingress {\n  listen ":18080"\n}\npull_api {\n  listen ":19443"\n%s}\nadmin_api { listen "127.0.0.1:19444" }\n'
    plain = '"/m1" {\n  pull { path /pull/m1 }\n}\n'
    cases = []

    def add(name, running, new):
        paths = sorted(set(re.findall(r"path (/pull/[a-z0-9]+)", running + new)))
        tokens = ["", "pt-global", "pt-m2", "pt-m3", "pt-m9", "pt-globa"]
        probes = {"ingress": [], "pull": [{"path": p_, "token": t} for p_ in paths for t in tokens], "admin": [],
                  "worker": [{"path": p_, "token": t} for p_ in paths for t in tokens], "seed_routes": ["/m1", "/m2", "/m3", "/m9"]}
        cases.append({"name": name, "kind": "restart", "running": running, "new": new, "probes": probes, "limit_hit": None, "expect": "fail-restart"})
    # with a global allowlist: the route that has its own token is renamed (path kept / path changed) in a file that also needs a restart
    add("global+own:route-renamed", head_g % "" + plain + own("/m2", "/pull/m2", "pt-m2"), head_g % "  max_batch 7\n" + plain + own("/m9", "/pull/m2", "pt-m9"))
    add("global+own:route-and-path-renamed", head_g % "" + plain + own("/m2", "/pull/m2", "pt-m2"), head_g % "  max_batch 7\n" + plain + own("/m9", "/pull/m9", "pt-m9"))
    add("global+own:token-rotated", head_g % "" + plain + own("/m2", "/pull/m2", "pt-m2"), head_g % "  default_lease_ttl 11s\n" + plain + own("/m2", "/pull/m2", "pt-m9"))
    # no global allowlist (every route has its own tokens)
    add("own-only:route-renamed", head_n % "" + own("/m2", "/pull/m2", "pt-m2") + own("/m3", "/pull/m3", "pt-m3"),
        head_n % "  max_batch 7\n" + own("/m9", "/pull/m2", "pt-m9") + own("/m3", "/pull/m3", "pt-m3"))
    add("own-only:route-replaced", head_n % "" + own("/m2", "/pull/m2", "pt-m2") + own("/m3", "/pull/m3", "pt-m3"),
        head_n % "  max_wait 9s\n" + own("/m9", "/pull/m9", "pt-m9") + own("/m3", "/pull/m3", "pt-m3"))
    # a token VALUE rotated behind an unchanged reference (env: / file:), then a reload that succeeds: from then on the new value is the
    # token and the old one is nobody's - the state decides like a process started now on the same file
    rot_head = ('ingress {\n  listen ":18080"\n}\npull_api {\n  listen ":19443"\n  auth token "env:VERIF_C11_GLOBAL"\n}\n'
                'admin_api {\n  listen "127.0.0.1:19444"\n  auth token "file:__DIR__/admin.tok"\n}\n')
    rot_routes = plain + '"/m2" {\n  pull {\n    path /pull/m2\n    auth token "env:VERIF_C11_M2"\n  }\n}\n'
    rot_tokens = ["", "g-old", "g-new", "m2-old", "m2-new", "adm-old", "adm-new"]
    rot_probes = {"ingress": [], "pull": [{"path": p_, "token": t} for p_ in ("/pull/m1", "/pull/m2") for t in rot_tokens],
                  "admin": [{"method": "GET", "path": "/healthz", "token": t} for t in rot_tokens],
                  "worker": [{"path": p_, "token": t} for p_ in ("/pull/m1", "/pull/m2") for t in rot_tokens], "seed_routes": ["/m1", "/m2"]}
    for nm, new_text in (("same-file", rot_head + rot_routes), ("route-added", rot_head + rot_routes + '"/m3" {\n  pull { path /pull/m3 }\n}\n')):
        cases.append({"name": "rotated-values:" + nm, "kind": "control", "running": rot_head + rot_routes, "new": new_text, "probes": rot_probes, "limit_hit": None,
                      "expect": "ok", "env_set": {"VERIF_C11_GLOBAL": "g-old", "VERIF_C11_M2": "m2-old"}, "env_set2": {"VERIF_C11_GLOBAL": "g-new", "VERIF_C11_M2": "m2-new"},
                      "files": {"admin.tok": "adm-old\n"}, "files2": {"admin.tok": "adm-new\n"}})
    rc, out, err = C.harness_run(info["hbin"], ["reload-failed"], {"dir": os.path.join(ctx.scratch, "c11refused"), "cases": cases}, timeout=300)
    if rc != 0:
        raise RuntimeError("reload-failed (C11 refused restart reload) failed: " + err[-1500:])
    stats = {"cases": len(cases), "refused": 0, "decision_lines": 0}
    for c, r in zip(cases, json.loads(out)):
        if r.get("setup_error"):
            raise RuntimeError("refused-reload case %s: %s" % (c["name"], r["setup_error"]))
        if c["expect"] == "ok":
            if not r["reload_ok"]:
                raise RuntimeError("rotated-values case %s: the reload was refused (%s)" % (c["name"], r.get("new_compile_error")))
            stats["rotated_value_reloads"] = stats.get("rotated_value_reloads", 0) + 1
            if not r.get("fp_equals_fresh_new"):
                C.report(ctx, "reload-keeps-rotated-out-token:%s" % c["name"].split(":")[1],
                         "token values were rotated behind unchanged env: / file: references and the configuration was reloaded successfully; the state does not "
                         "decide like a process started on the same file now (- fresh process, + reloaded state): %s" % "; ".join((r.get("fp_fresh_diff") or [])[:8]),
                         {"kind": "fault_sequence", "case": {"running_config": c["running"], "new_config": c["new"], "env_before": c["env_set"], "env_at_reload": c["env_set2"],
                                                              "files_at_reload": c["files2"]}, "observed": (r.get("fp_fresh_diff") or [])[:40]})
            continue
        if r["reload_ok"] or not r["needs_restart"]:
            raise RuntimeError("refused-reload case %s: the new file was expected to need a restart (reload_ok=%s needs_restart=%s %s)" % (
                c["name"], r["reload_ok"], r["needs_restart"], r.get("new_compile_error")))
        stats["refused"] += 1
        stats["decision_lines"] += r.get("fp_lines", 0)
        changed = [l for l in (r.get("fp_diff") or []) if l[2:].startswith(("pull[", "worker["))]
        if changed:
            C.report(ctx, "refused-reload-changed-pull-auth:%s" % c["name"].split(":")[0],
                     "a reload refused as `restart required` changed what pull / worker endpoints answer (- before, + after the refused reload): %s; the running "
                     "file stays in force as a whole: its allowlists decide" % "; ".join(changed[:6]),
                     {"kind": "fault_sequence", "case": {"running_config": c["running"], "new_config_refused": c["new"]}, "observed": changed[:40]})
    return stats


def staged_auth_then_mutation(ctx, info, rng):
    import re as _re
    base = STAGED_BASE
    m4 = '"/m4" {\n  pull {\n    path /pull/m4\n    auth token "raw:pt-m4"\n  }\n}\n'
    staged = {
        "new-route-own-token": base + m4,
        "route-gets-own-token": base.replace("pull { path /pull/m2 }", 'pull {\n    path /pull/m2\n    auth token "raw:pt-m2"\n  }'),
        "global-token-rotated": base.replace("raw:pt-global", "raw:pt-global2"),
        "no-global-every-route-own": base.replace('  auth token "raw:pt-global"\n', "")
                                         .replace("pull { path /pull/m1 }", 'pull {\n    path /pull/m1\n    auth token "raw:pt-m1"\n  }')
                                         .replace("pull { path /pull/m2 }", 'pull {\n    path /pull/m2\n    auth token "raw:pt-m2"\n  }') + m4,
        "own-token-revoked": None,   # running: /m2 has its own token; staged: back to the global one
    }
    tokens = ["", "pt-global", "pt-global2", "pt-m1", "pt-m2", "pt-m4", "PT-GLOBAL", "pt-globa", "pt-m4x"]
    cases = []
    for name, text in staged.items():
        running = base
        if name == "own-token-revoked":
            running = base.replace("pull { path /pull/m2 }", 'pull {\n    path /pull/m2\n    auth token "raw:pt-m2"\n  }')
            text = base
        paths = sorted(set(_re.findall(r"path (/pull/m\d)", text)))
        probes = {"ingress": [], "pull": [{"path": p_, "token": t} for p_ in paths for t in tokens], "admin": [], "worker": [], "seed_routes": ["/m1", "/m2", "/m4"]}
        for kind, app_, ep in (("upsert", "app2", "ep2"), ("delete", "app1", "ep1")):
            cases.append({"name": "%s:%s" % (name, kind), "expect": "applied", "config": running, "staged_file": text, "probes": probes,
                          "mutation": {"kind": kind, "application": app_, "endpoint_name": ep, "route": "/m2"}, "_text": text})
    rc, out, err = C.harness_run(info["hbin"], ["reload-mutate"], {"dir": os.path.join(ctx.scratch, "c11staged"), "cases": [{k: v for k, v in c.items() if not k.startswith("_")} for c in cases]},
                                 timeout=600)
    if rc != 0:
        raise RuntimeError("reload-mutate (C11 staged pull auth) failed: " + err[-1500:])
    stats = {"cases": len(cases), "probes": 0, "applied": 0, "authorized_probes": 0}
    for c, r in zip(cases, json.loads(out)):
        if r.get("setup_error"):
            raise RuntimeError("staged case %s: %s" % (c["name"], r["setup_error"]))
        if r.get("err") or not r.get("applied"):
            # the mutation was refused: then nothing may have changed (C18's subject); here only applied mutations are judged
            continue
        stats["applied"] += 1
        text = c["_text"]
        glob = _re.findall(r'pull_api \{[^}]*?auth token "raw:([^"]+)"', text)
        own = {}
        for mroute in _re.finditer(r'pull \{\s*path (/pull/m\d)((?:\s*auth token "raw:[^"]+")*)\s*\}', text):
            own[mroute.group(1)] = _re.findall(r'raw:([^"]+)', mroute.group(2))
        lines = [l for l in (r.get("fp_after") or []) if l.startswith("pull[")]
        for pr, line in zip(c["probes"]["pull"], lines):
            stats["probes"] += 1
            allow = own.get(pr["path"]) or glob
            want_ok = pr["token"] != "" and pr["token"] in allow
            stats["authorized_probes"] += 1 if want_ok else 0
            mcode = _re.search(r"-> (\d+)", line)
            code = int(mcode.group(1)) if mcode else -1
            if (code == 200) != want_ok or (not want_ok and code != 401):
                kind = "unauthorized-accepted" if code == 200 else ("authorized-refused" if want_ok else "refused-with-wrong-status")
                C.report(ctx, "staged-auth-then-mutation:%s:%s" % (kind, c["name"].split(":")[0]),
                         "after the managed-endpoint %s was applied on top of an edited file, POST %s/dequeue with token %r answers %d; the file in force gives this "
                         "endpoint the allowlist %s (%s)" % (c["mutation"]["kind"], pr["path"], pr["token"], code, allow, "own tokens" if own.get(pr["path"]) else "global tokens"),
                         {"kind": "fault_sequence", "case": {k: v for k, v in c.items() if not k.startswith("_") and k != "probes"}, "probe": pr, "observed": line,
                          "all_pull_decisions": lines, "file_in_force": r.get("file_after") or text})
    return stats


def variant_class(rq, c):
    """short class of the Authorization shape (for violation keys)"""
    vals = [L.unhx(a).decode("utf-8", "replace") for a in rq["auth"]]
    if not vals:
        return "absent"
    if len(vals) > 1:
        return "two-values"
    v = vals[0]
    allvals = [t["val"] for t in c["glob"]] + [t["val"] for r in c["routes"] for t in r["tokens"]] + [t["val"] for t in c["admin"]]
    low = v.lower()
    if not low.startswith("bearer"):
        return "other-scheme"
    if v.startswith("bearer ") or v.startswith("BEARER "):
        return "scheme-case"
    if not v.startswith("Bearer "):
        return "malformed-scheme"
    tok = v[len("Bearer "):].strip()
    if tok == "":
        return "empty-token"
    if tok in allvals:
        return "token-of-other-list"
    for t in allvals:
        if t != tok and t.lower() == tok.lower():
            return "case-variant"
        if t != tok and t.startswith(tok):
            return "prefix"
        if t != tok and (t.endswith(tok) or tok.startswith(t) or tok.endswith(t)):
            return "suffix-or-extension"
    for t in allvals:
        if len(t) == len(tok) and sum(1 for a, b in zip(t, tok) if a != b) == 1:
            return "one-character-off:%s" % ("long-token" if len(t) > 200 else "short-token")
    return "unknown-token"
