"""C04 - queue family check (see lib/queuefam.py) + the pull layer: idempotent duplicate answer, status mapping (lib/c04pull.py)."""
from lib import c04pull, queuefam


def main(ctx, replay):
    return queuefam.run_property(ctx, "C04", 150, 3000, extra=c04pull.run, extra_prop_files=("C04pull",))
