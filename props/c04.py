"""C04 - queue family check (see lib/queuefam.py) + the pull layer: idempotent duplicate answer, status mapping (lib/c04pull.py)
+ two store objects on one SQLite file (lib/twostores.py)."""
from lib import c04pull, queuefam, twostores


def _extra(ctx, info, rng, fam, hs):
    cov = c04pull.run(ctx, info, rng, fam, hs) or {}
    cov.update(twostores.run(ctx, info))
    cov.update(twostores.run_relet(ctx, info))
    return cov


def main(ctx, replay):
    return queuefam.run_property(ctx, "C04", 150, 3000, extra=_extra, extra_prop_files=("C04pull", "C04two"))
