"""C14 - queue family check (see lib/queuefam.py) + the Admin API / MCP request layer (lib/c14admin.py)."""
from lib import c14admin, queuefam


def main(ctx, replay):
    return queuefam.run_property(ctx, "C14", 150, 3000, extra=c14admin.run, extra_prop_files=("C14admin",))
