"""C14 - queue family check (see lib/queuefam.py)."""
from lib import queuefam


def main(ctx, replay):
    return queuefam.run_property(ctx, "C14", 150, 3000)
