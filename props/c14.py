"""C14 - queue family check (see lib/queuefam.py) + the Admin API / MCP request layer (lib/c14admin.py)
+ the MCP tools in Admin-proxy mode behind a fault-injecting forwarder (lib/c14proxy.py)
+ the allowed-state sets of the operator mutations tied to the Go sources by translation (lib/c02trans.py)."""
from lib import c02trans, c14admin, c14proxy, queuefam, twostores


def before_horizon(ctx, info):
    """a `before` criterion outside the int64 nanosecond range (the queue model is over unbounded integers; judged on the stores): three messages
    received now, one of them dead - "before 1 January <year>" selects all of them for a year after now and none for a year before"""
    import json, os
    from lib import common as C
    d = os.path.join(ctx.scratch, "bh")
    os.makedirs(d, exist_ok=True)
    years = [1000, 1600, 1677, 1970, 2100, 2262, 2263, 2300, 9999]
    rc, out, err = C.harness_run(info["hbin"], ["before-horizon"], {"dir": d, "now_ns": 1_790_000_000 * 10 ** 9, "years": years}, timeout=120)
    if rc != 0:
        raise RuntimeError("before-horizon failed: " + err[-1500:])
    rows = json.loads(out)["rows"]
    for r in rows:
        after = r["year"] > 2026
        want = {"listed": 3 if after else 0, "dead_listed": 1 if after else 0, "cancel_preview": 3 if after else 0, "requeue_changed": 1 if after else 0}
        got = {k: r[k] for k in want}
        if r.get("err") or got != want:
            C.report(ctx, "before-beyond-int64-horizon:%s" % r["backend"],
                     "criterion `before 1 January %d` on the %s store (three messages received in 2026, one dead): listed / dead listed / cancel-by-filter preview / "
                     "requeue-by-filter changed = %s, the criterion selects %s (%s)" % (r["year"], r["backend"], got, want, r.get("err") or "no error"),
                     {"kind": "history", "case": {"backend": r["backend"], "before_year": r["year"]}, "observed": r, "expected": want})
    return {"before_horizon": {"rows": len(rows), "years": years}}


def _extra(ctx, info, rng, fam, hs):
    # the proxy layer runs in the background (two of its calls wait for the MCP server's 5 s Admin timeout)
    px = c14proxy.start(ctx, info)
    cov = c14admin.run(ctx, info, rng, fam, hs) or {}
    cov.update(c02trans.run_manage_only(ctx, info, rng, fam, hs) or {})
    cov.update(twostores.run_filter(ctx, info))
    cov.update(before_horizon(ctx, info))
    cov.update(c14proxy.finish(px) or {})
    return cov


def main(ctx, replay):
    return queuefam.run_property(ctx, "C14", 150, 3000, extra=_extra, extra_prop_files=("C14admin", "C14proxy", "C02trans", "C04two"))
