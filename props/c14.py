"""C14 - queue family check (see lib/queuefam.py) + the Admin API / MCP request layer (lib/c14admin.py)
+ the MCP tools in Admin-proxy mode behind a fault-injecting forwarder (lib/c14proxy.py)
+ the allowed-state sets of the operator mutations tied to the Go sources by translation (lib/c02trans.py)."""
from lib import c02trans, c14admin, c14proxy, queuefam, twostores


def _extra(ctx, info, rng, fam, hs):
    # the proxy layer runs in the background (two of its calls wait for the MCP server's 5 s Admin timeout)
    px = c14proxy.start(ctx, info)
    cov = c14admin.run(ctx, info, rng, fam, hs) or {}
    cov.update(c02trans.run_manage_only(ctx, info, rng, fam, hs) or {})
    cov.update(twostores.run_filter(ctx, info))
    cov.update(c14proxy.finish(px) or {})
    return cov


def main(ctx, replay):
    return queuefam.run_property(ctx, "C14", 150, 3000, extra=_extra, extra_prop_files=("C14admin", "C14proxy", "C02trans", "C04two"))
