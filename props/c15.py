"""C15 — Admin publish is validated and all-or-nothing.

Implementation side: real config.Parse/Compile -> real app.startServers wiring (shim
app.VerifC15Start) -> POST /messages/publish and the endpoint-scoped publish over loopback
HTTP, memory and SQLite stores, plus a wrapper store that hides EnqueueBatch (the shape of
PostgresStore).  Model side: Model/Publish.v composed with Model/Queue.v, evaluated by coqc
on the same requests.  Compared: status, code, item_index, published, stored messages after
every request.  Independently of the model, the property itself is evaluated on what the
implementation did (200 => all items stored queued with a legal target and limits respected;
otherwise the store listing is what it was before)."""
import ast
import base64
import json
import os
import random
import re

from lib import common as C

HM = 2305843009213693951
T0 = 1700000000000000000
CODES = ["", "global_publish_disabled", "scoped_publish_disabled", "audit_reason_required", "audit_actor_required",
         "audit_actor_not_allowed", "audit_request_id_required", "invalid_body", "scoped_publish_required",
         "managed_selector_required", "route_not_found", "route_publish_disabled", "pull_route_publish_disabled",
         "deliver_route_publish_disabled", "target_unresolvable", "invalid_received_at", "invalid_next_run_at",
         "invalid_payload_b64", "payload_too_large", "invalid_header", "headers_too_large", "duplicate_id",
         "queue_full", "store_unavailable", "managed_endpoint_not_found", "managed_endpoint_no_targets",
         "selector_scope_forbidden"]
STN = {"queued": 1, "leased": 2, "delivered": 3, "dead": 4, "canceled": 5}
PADS = [" ", "\t", "\n", "\u00a0", "\u2003", "  "]


def hash_bytes(b):
    h = 7
    for c in b:
        h = (h * 1000003 + c + 1) % HM
    return h


def hash_smap(m):
    acc = 11
    for k, v in (m or {}).items():
        acc = (acc + (hash_bytes(k.encode()) * 31 + hash_bytes(v.encode())) % HM) % HM
    return acc


# ---------------------------------------------------------------------------
# configurations

ROUTES = ["/a", "/b", "/d", "/e", "/m", "/n"]
RNUM = {r: i + 1 for i, r in enumerate(ROUTES)}
TARGETS = {"pull": 1000, "http://127.0.0.1:9/x": 1001, "http://127.0.0.1:9/y": 1002, "http://127.0.0.1:9/e": 1003,
           "http://127.0.0.1:9/n1": 1004, "http://127.0.0.1:9/n2": 1005}
LABELS = {"app1": 1, "ep1": 2, "ep2": 3, "ghost": 77, "app2": 5}


def onoff(b):
    return "on" if b else "off"


def make_config(rng, idx, tier):
    """Returns (text, intent).  The first configurations are fixed corner cases, the rest random."""
    pol = dict(direct=True, managed=True, allow_pull=True, allow_deliver=True, require_actor=False,
               require_request_id=False, fail_closed=False, actor_allow=[], actor_prefix=[])
    rflags = {r: dict(publish=True, direct=True, managed=True) for r in ROUTES}
    limits = {"/a": (16, 48), "/b": (0, 0), "/d": (0, 0), "/e": (33, 0), "/m": (20, 40), "/n": (0, 0)}
    dmax_body, dmax_headers = 64, 96
    depth, drop = 10000, False
    fixed = [
        {},
        {"pol": {"direct": False}},
        {"pol": {"managed": False}},
        {"pol": {"allow_pull": False}},
        {"pol": {"allow_deliver": False}},
        {"pol": {"require_actor": True}},
        {"pol": {"require_request_id": True}},
        {"pol": {"actor_allow": ["ops@example.test", "svc"], "actor_prefix": ["role:ops/"]}},
        {"pol": {"actor_prefix": ["bot-"], "require_actor": True, "require_request_id": True, "fail_closed": True}},
        {"rf": {"/b": {"publish": False}, "/m": {"managed": False}}},
        {"rf": {"/b": {"direct": False}, "/d": {"direct": False}, "/n": {"publish": False}}},
        {"rf": {"/b": {"managed": False}, "/m": {"direct": False}}},
        {"depth": (6, False)},
        {"depth": (6, True)},
        {"depth": (3, True)},
        {"depth": (1, False)},
    ]
    if idx < len(fixed):
        f = fixed[idx]
        pol.update(f.get("pol", {}))
        for r, d in f.get("rf", {}).items():
            rflags[r].update(d)
        if "depth" in f:
            depth, drop = f["depth"]
    else:
        for k in ("direct", "managed", "allow_pull", "allow_deliver"):
            pol[k] = rng.random() < 0.85
        pol["require_actor"] = rng.random() < 0.2
        pol["require_request_id"] = rng.random() < 0.2
        pol["fail_closed"] = rng.random() < 0.3
        if rng.random() < 0.3:
            pol["actor_allow"] = rng.sample(["ops@example.test", "svc", "Ops", " padded "], rng.randrange(1, 3))
        if rng.random() < 0.3:
            pol["actor_prefix"] = rng.sample(["role:ops/", "bot-", "o"], rng.randrange(1, 3))
        for r in ROUTES:
            for k in ("publish", "direct", "managed"):
                rflags[r][k] = rng.random() < 0.85
        depth, drop = rng.choice([(10000, False), (10000, False), (4, False), (7, True), (2, True), (12, False)])
        dmax_body = rng.choice([64, 10, 100])
        dmax_headers = rng.choice([96, 30, 200])
    lines = ['ingress { listen "%INGRESS%" }', 'pull_api {', '  listen "%PULL%"', '  auth token "raw:verif-pull"', '}',
             'admin_api {', '  listen "%ADMIN%"', '  prefix "/adm"', '}',
             'queue_limits {', '  max_depth %d' % depth, '  drop_policy %s' % ("drop_oldest" if drop else "reject"), '}',
             'defaults {', '  max_body %d' % dmax_body, '  max_headers %d' % dmax_headers,
             '  egress {', '    https_only off', '    dns_rebind_protection off', '  }',
             '  publish_policy {']
    for k, name in (("direct", "direct"), ("managed", "managed"), ("allow_pull", "allow_pull_routes"),
                    ("allow_deliver", "allow_deliver_routes"), ("require_actor", "require_actor"),
                    ("require_request_id", "require_request_id"), ("fail_closed", "fail_closed")):
        lines.append("    %s %s" % (name, onoff(pol[k])))
    for a in pol["actor_allow"]:
        lines.append('    actor_allow "%s"' % a)
    for a in pol["actor_prefix"]:
        lines.append('    actor_prefix "%s"' % a)
    lines += ['  }', '}']
    rdefs = {
        "/a": ('pull { path "/pull/a" }', None),
        "/b": ('pull { path "/pull/b" }', None),
        "/d": ('deliver "http://127.0.0.1:9/x" { }\n  deliver "http://127.0.0.1:9/y" { }', None),
        "/e": ('deliver "http://127.0.0.1:9/e" { }', None),
        "/m": ('pull { path "/pull/m" }', ("app1", "ep1")),
        "/n": ('deliver "http://127.0.0.1:9/n1" { }\n  deliver "http://127.0.0.1:9/n2" { }', ("app1", "ep2")),
    }
    tmap = {"/a": ["pull"], "/b": ["pull"], "/m": ["pull"], "/d": ["http://127.0.0.1:9/x", "http://127.0.0.1:9/y"],
            "/e": ["http://127.0.0.1:9/e"], "/n": ["http://127.0.0.1:9/n1", "http://127.0.0.1:9/n2"]}
    routes = []
    for r in ROUTES:
        body, owner = rdefs[r]
        # channel type: bare (= inbound), or the explicit kinds - outbound (deliver only) and internal (pull only) routes can be fed by
        # publish alone, and their own max_body / max_headers bind publish like any other route's
        chan = rng.choice(["", "", "inbound", "outbound" if body.startswith("deliver") else "internal"])
        lines.append(('%s "%s" {' % (chan, r)).strip())
        if owner:
            lines.append('  application "%s"' % owner[0])
            lines.append('  endpoint_name "%s"' % owner[1])
        mb, mh = limits[r]
        if mb:
            lines.append("  max_body %d" % mb)
        if mh:
            lines.append("  max_headers %d" % mh)
        fl = rflags[r]
        if not (fl["publish"] and fl["direct"] and fl["managed"]):
            lines.append("  publish {")
            lines.append("    enabled %s" % onoff(fl["publish"]))
            lines.append("    direct %s" % onoff(fl["direct"]))
            lines.append("    managed %s" % onoff(fl["managed"]))
            lines.append("  }")
        lines.append("  " + body)
        lines.append("}")
        routes.append(dict(path=r, targets=tmap[r], pull=r in ("/a", "/b", "/m"), publish=fl["publish"], direct=fl["direct"],
                           managed=fl["managed"], max_body=mb or dmax_body, max_headers=mh or dmax_headers,
                           app=owner[0] if owner else "", ep=owner[1] if owner else ""))
    intent = dict(pol, routes=routes, max_body=dmax_body, max_headers=dmax_headers, max_depth=depth, drop_oldest=drop)
    return "\n".join(lines) + "\n", intent


def check_compiled(intent, comp):
    """the compiled configuration must say what the text asked for (else the wiring under test is not the intended one)"""
    probs = []
    for k, ck in (("direct", "direct"), ("managed", "managed"), ("allow_pull", "allow_pull"), ("allow_deliver", "allow_deliver"),
                  ("require_actor", "require_actor"), ("require_request_id", "require_request_id")):
        if bool(intent[k]) != bool(comp[ck]):
            probs.append("publish_policy.%s compiled as %s" % (k, comp[ck]))
    if [a.strip() for a in intent["actor_allow"]] != [a.strip() for a in (comp["actor_allow"] or [])]:
        probs.append("actor_allow compiled as %s" % comp["actor_allow"])
    if [a.strip() for a in intent["actor_prefix"]] != [a.strip() for a in (comp["actor_prefix"] or [])]:
        probs.append("actor_prefix compiled as %s" % comp["actor_prefix"])
    if comp["max_depth"] != intent["max_depth"] or (comp["drop_policy"] == "drop_oldest") != intent["drop_oldest"]:
        probs.append("queue_limits compiled as %s/%s" % (comp["max_depth"], comp["drop_policy"]))
    cr = {r["path"]: r for r in comp["routes"]}
    for r in intent["routes"]:
        c = cr.get(r["path"])
        if c is None:
            probs.append("route %s missing" % r["path"])
            continue
        for k in ("targets", "pull", "publish", "direct", "managed", "max_body", "max_headers", "app", "ep"):
            if c[k] != r[k]:
                probs.append("route %s %s compiled as %r, configured %r" % (r["path"], k, c[k], r[k]))
    return probs


# ---------------------------------------------------------------------------
# items

def rfc3339(ns, offset=False):
    import time as _t
    sec, frac = divmod(ns, 1000000000)
    if offset:
        tm = _t.gmtime(sec + 7200)
        return _t.strftime("%Y-%m-%dT%H:%M:%S", tm) + (".%09d" % frac if frac else "") + "+02:00"
    tm = _t.gmtime(sec)
    return _t.strftime("%Y-%m-%dT%H:%M:%S", tm) + (".%09d" % frac if frac else "") + "Z"


class Gen:
    def __init__(self, rng, intent):
        self.rng = rng
        self.intent = intent
        self.idn = {}
        self.seq = 0
        self.routes = {r["path"]: r for r in intent["routes"]}

    def id_num(self, s):
        if s not in self.idn:
            self.idn[s] = len(self.idn) + 1
        return self.idn[s]

    def fresh_id(self):
        self.seq += 1
        return "p%04d" % self.seq

    def open_routes(self, scoped=False):
        """routes on which a publish of this kind can succeed under the configured policy"""
        out = []
        pol = self.intent
        for r in self.intent["routes"]:
            if scoped != bool(r["app"]):
                continue
            if not r["publish"] or not (r["managed"] if scoped else r["direct"]):
                continue
            if r["pull"] and not pol["allow_pull"]:
                continue
            if (not r["pull"]) and not pol["allow_deliver"]:
                continue
            out.append(r)
        return out

    def payload_for(self, maxb, how=None):
        rng = self.rng
        how = how or rng.choice(["empty", "none", "one", "max-1", "max", "mid", "nul", "utf8bad", "newline"])
        if how == "none":
            return None, b""
        if how == "empty":
            return "", b""
        n = {"one": 1, "max-1": max(maxb - 1, 0), "max": maxb, "mid": rng.randrange(0, maxb + 1), "nul": min(3, maxb),
             "utf8bad": min(4, maxb), "newline": min(5, maxb)}[how]
        if how == "nul":
            raw = bytes([0, 255, 0][:n])
        elif how == "utf8bad":
            raw = bytes([0xC3, 0x28, 0xFF, 0xFE][:n])
        else:
            raw = bytes(rng.randrange(256) for _ in range(n))
        s = base64.b64encode(raw).decode()
        if how == "newline" and len(s) >= 4:
            s = s[:2] + "\n" + s[2:] + "\r\n"
        return s, raw

    def headers_for(self, maxh, how=None):
        rng = self.rng
        how = how or rng.choice(["none", "none", "small", "small", "edge", "utf8", "tab"])
        if how == "none":
            return None
        if how == "small":
            return {"X-A": "1"} if maxh >= 4 else None
        if how == "utf8":
            h = {"X-U": "\u00e9\u4e2d"}
            return h if 3 + 5 <= maxh else None
        if how == "tab":
            h = {"x-t": "a\tb c,d"}
            return h if 3 + 7 <= maxh else None
        # exactly at the limit: sum(len(k)+len(v)) == maxh
        if maxh < 4 or maxh > 400:
            return {"X-A": "1"} if maxh >= 4 else None
        return {"X-L": "v" * (maxh - 3)}

    def valid_item(self, scoped, route=None):
        rng = self.rng
        it = {"id": self.fresh_id()}
        if scoped:
            r = route
        else:
            cands = self.open_routes(False)
            r = route or (rng.choice(cands) if cands else self.routes["/a"])
            it["route"] = r["path"]
        if len(r["targets"]) > 1:
            it["target"] = rng.choice(r["targets"])
        elif rng.random() < 0.4:
            it["target"] = r["targets"][0]
        p, _ = self.payload_for(r["max_body"])
        if p is not None:
            it["payload_b64"] = p
        h = self.headers_for(r["max_headers"])
        if h is not None:
            it["headers"] = h
        if rng.random() < 0.3:
            it["received_at"] = rfc3339(T0 - rng.randrange(1, 10**9) * 1000 - rng.randrange(1000), rng.random() < 0.3)
        if rng.random() < 0.2:
            it["next_run_at"] = rfc3339(T0 + rng.randrange(1, 10**6) * 1000)
        if rng.random() < 0.2:
            it["trace"] = {"t": str(rng.randrange(1, 50))}
        if rng.random() < 0.1:
            p0 = rng.choice(PADS)
            it["id"] = p0 + it["id"] + rng.choice(PADS)
        return it, r


PARSE_KINDS = ["id_blank", "id_spaces", "no_selector", "route_noslash", "target_no_selector", "app_without_ep",
               "ep_without_app", "bad_label", "dup_in_batch", "dup_in_batch_padded"]
SEL_KINDS = ["managed_selector"]
SEM_GLOBAL = ["managed_route", "route_unknown", "route_publish_off", "route_direct_off", "pull_disabled", "deliver_disabled",
              "target_wrong", "target_missing_ambiguous", "bad_recv", "bad_next", "bad_b64", "bad_b64_space", "b64_url_alphabet",
              "b64_nopad", "payload_too_large", "hdr_bad_name", "hdr_empty_name", "hdr_padded_name", "hdr_bad_value", "hdr_del",
              "headers_too_large"]
SEM_SCOPED = ["hint_route", "hint_app", "target_wrong", "bad_recv", "bad_next", "bad_b64", "payload_too_large", "hdr_bad_name",
              "hdr_bad_value", "headers_too_large", "target_missing_ambiguous"]
STORE_KINDS = ["existing_id", "existing_canceled"]


def spoil(gen, it, r, kind, scoped, batch, pos, existing):
    """turn the valid item into one that is invalid in the named way; returns False if the kind cannot be built here"""
    rng = gen.rng
    intent = gen.intent
    if kind == "id_blank":
        it["id"] = ""
    elif kind == "id_spaces":
        it["id"] = rng.choice([" ", "\t\n", "\u00a0"])
    elif kind == "no_selector":
        if scoped:
            return False
        it.pop("route", None)
        it.pop("target", None)
    elif kind == "route_noslash":
        it["route"] = "hooks"
    elif kind == "target_no_selector":
        if scoped:
            return False
        it.pop("route", None)
        it["endpoint_name"] = "ep1"
        it["target"] = "pull"
    elif kind == "app_without_ep":
        it["application"] = "app1"
    elif kind == "ep_without_app":
        it["endpoint_name"] = "ep1"
    elif kind == "bad_label":
        it["application"] = rng.choice(["bad label", "-x", "a/b"])
        it["endpoint_name"] = "ep1"
    elif kind in ("dup_in_batch", "dup_in_batch_padded"):
        if pos == 0:
            return False
        other = batch[rng.randrange(pos)]["id"].strip(" \t\n\u00a0\u2003")
        if other == "":
            return False
        it["id"] = other if kind == "dup_in_batch" else " " + other + "\t"
    elif kind == "managed_selector":
        it["application"] = "app1"
        it["endpoint_name"] = rng.choice(["ep1", "ghost"])
        if rng.random() < 0.5:
            it.pop("route", None)
            it.pop("target", None)
    elif kind == "managed_route":
        it["route"] = rng.choice(["/m", "/n"])
        it.pop("target", None)
    elif kind == "route_unknown":
        it["route"] = "/zz"
    elif kind in ("route_publish_off", "route_direct_off"):
        cand = [x for x in intent["routes"] if not x["app"] and ((not x["publish"]) if kind == "route_publish_off" else (x["publish"] and not x["direct"]))]
        if not cand:
            return False
        x = rng.choice(cand)
        it["route"] = x["path"]
        it["target"] = x["targets"][0]
    elif kind in ("pull_disabled", "deliver_disabled"):
        want_pull = kind == "pull_disabled"
        if intent["allow_pull" if want_pull else "allow_deliver"]:
            return False
        cand = [x for x in intent["routes"] if not x["app"] and x["publish"] and x["direct"] and x["pull"] == want_pull]
        if not cand:
            return False
        x = rng.choice(cand)
        it["route"] = x["path"]
        it["target"] = x["targets"][0]
    elif kind == "target_wrong":
        it["target"] = rng.choice(["http://127.0.0.1:9/nope", "PULL", "pull" if not r["pull"] else "http://127.0.0.1:9/x"])
    elif kind == "target_missing_ambiguous":
        if len(r["targets"]) < 2:
            return False
        it.pop("target", None)
    elif kind == "bad_recv":
        it["received_at"] = rng.choice(["yesterday", "2023-13-01T00:00:00Z", "1700000000", "2023-11-14 22:13:20Z"])
    elif kind == "bad_next":
        it["next_run_at"] = rng.choice(["soon", "2023-11-14T25:00:00Z"])
    elif kind == "bad_b64":
        it["payload_b64"] = rng.choice(["!!!!", "QUJD*A==", "QQ=", "QQ", "QUI", "QQ==QQ==", "=QQ=", "Q"])
    elif kind == "bad_b64_space":
        it["payload_b64"] = rng.choice([" QUJD", "QUJD ", "QU JD", "\u00a0QUJD"])
    elif kind == "b64_url_alphabet":
        it["payload_b64"] = rng.choice(["-_-_", "ab-d", "ab_d"])
    elif kind == "b64_nopad":
        it["payload_b64"] = rng.choice(["QQ", "QUI", "QUJDRA"])
    elif kind == "payload_too_large":
        n = r["max_body"] + rng.choice([1, 1, 2, 7])
        if n > 5000:
            return False
        it["payload_b64"] = base64.b64encode(bytes(rng.randrange(256) for _ in range(n))).decode()
    elif kind == "hdr_bad_name":
        it["headers"] = {rng.choice(["X A", "X:A", "X(A)", "\u00e9", "X\tA", "X@"]): "v"}
    elif kind == "hdr_empty_name":
        it["headers"] = {"": "v"}
    elif kind == "hdr_padded_name":
        it["headers"] = {rng.choice([" X", "X ", "\tX"]): "v"}
    elif kind == "hdr_bad_value":
        it["headers"] = {"X-A": rng.choice(["a\nb", "a\rb", "\u0000", "a\u0001", "x\u001f"])}
    elif kind == "hdr_del":
        it["headers"] = {"X-A": "a\u007fb"}
    elif kind == "headers_too_large":
        mh = r["max_headers"]
        if mh > 400:
            return False
        it["headers"] = {"X-L": "v" * (mh - 3 + rng.choice([1, 1, 2, 9]))}
    elif kind == "hint_route":
        it["route"] = rng.choice([r["path"], "/a", "nope"])
    elif kind == "hint_app":
        it["application"] = "app1"
        it["endpoint_name"] = r["ep"]
    elif kind in ("existing_id", "existing_canceled"):
        want = "canceled" if kind == "existing_canceled" else None
        cand = [i for i, st in existing.items() if (st == want if want else True)]
        cand = [c for c in cand if all(c != b["id"].strip(" \t\n\u00a0\u2003") for b in batch[:pos])]
        if not cand:
            return False
        it["id"] = rng.choice(sorted(cand))
    else:
        raise ValueError(kind)
    return True


# ---------------------------------------------------------------------------
# Coq terms

def cbytes(b):
    return "[" + ";".join("%d" % c for c in b) + "]%N"


def csmap(m):
    if not m:
        return "[]"
    return "[" + "; ".join("(%s, %s)" % (cbytes(k.encode()), cbytes(v.encode())) for k, v in m.items()) + "]"


GO_SPACE = " \t\n\v\f\r\u0085\u00a0\u1680\u2000\u2001\u2002\u2003\u2004\u2005\u2006\u2007\u2008\u2009\u200a\u2028\u2029\u202f\u205f\u3000"


def gotrim(s):
    return s.strip(GO_SPACE)


LABEL_RE = re.compile(r"^[A-Za-z0-9][A-Za-z0-9._:-]{0,127}$")


def coq_label(s):
    s = gotrim(s or "")
    if s == "":
        return "LBlank"
    if not LABEL_RE.match(s):
        return "LInvalid"
    return "(LValid %d%%N)" % LABELS.get(s, 900 + (hash_bytes(s.encode()) % 50))


def parse_ts(s):
    """RFC3339 verdict for the strings this generator emits (valid ones are produced by rfc3339())"""
    s = gotrim(s or "")
    if s == "":
        return "TAbsent", None
    m = re.match(r"^(\d{4})-(\d\d)-(\d\d)T(\d\d):(\d\d):(\d\d)(\.\d+)?(Z|[+-]\d\d:\d\d)$", s)
    if not m:
        return "TBad", None
    import calendar
    y, mo, d, hh, mi, ss = [int(x) for x in m.groups()[:6]]
    if not (1 <= mo <= 12 and 1 <= d <= 31 and hh < 24 and mi < 60 and ss < 60):
        return "TBad", None
    sec = calendar.timegm((y, mo, d, hh, mi, ss, 0, 0, 0))
    frac = int(((m.group(7) or ".0")[1:] + "000000000")[:9])
    off = 0
    if m.group(8) != "Z":
        sign = 1 if m.group(8)[0] == "+" else -1
        off = sign * (int(m.group(8)[1:3]) * 3600 + int(m.group(8)[4:6]) * 60)
    ns = (sec - off) * 1000000000 + frac
    return "(TOk (%d)%%Z)" % ns, ns


def coq_item(gen, it):
    rid = it.get("id", "")
    t = gotrim(rid)
    if t == "":
        cid = "RBlank"
    elif t != rid:
        cid = "(RPadded %d%%N)" % gen.id_num(t)
    else:
        cid = "(RPlain %d%%N)" % gen.id_num(t)
    route = gotrim(it.get("route", ""))
    if route == "":
        cr = "RSBlank"
    elif not route.startswith("/"):
        cr = "RSNoSlash"
    else:
        cr = "(RSPath %d%%N)" % RNUM.get(route, 99)
    tg = gotrim(it.get("target", ""))
    ct = "None" if tg == "" else "(Some %d%%N)" % TARGETS.get(tg, 1999)
    recv, _ = parse_ts(it.get("received_at"))
    nxt, _ = parse_ts(it.get("next_run_at"))
    trace = it.get("trace") or {}
    tn = int(trace.get("t", "0")) if trace else 0
    return "(mkItem %s %s %s %s %s %s %s %s %s %d%%N)" % (
        cid, cr, ct, coq_label(it.get("application")), coq_label(it.get("endpoint_name")), recv, nxt,
        cbytes((it.get("payload_b64") or "").encode()), csmap(it.get("headers")), tn)


def coq_ctx(intent):
    rs = []
    for r in intent["routes"]:
        owner = "None" if not r["app"] else "(Some (%d%%N, %d%%N))" % (LABELS[r["app"]], LABELS[r["ep"]])
        rs.append("(mkRoute %d%%N [%s] %s %s %s %s (%d)%%Z (%d)%%Z %s)" % (
            RNUM[r["path"]], "; ".join("%d%%N" % TARGETS[t] for t in r["targets"]), C.coq_bool(r["pull"]),
            C.coq_bool(r["publish"]), C.coq_bool(r["direct"]), C.coq_bool(r["managed"]),
            r["max_body_compiled"], r["max_headers_compiled"], owner))
    return "(mkCtx %s %s %s %s true %s %s [%s] [%s] (%d)%%Z (%d)%%Z [%s])" % (
        C.coq_bool(intent["direct"]), C.coq_bool(intent["managed"]), C.coq_bool(intent["allow_pull"]),
        C.coq_bool(intent["allow_deliver"]), C.coq_bool(intent["require_actor"]), C.coq_bool(intent["require_request_id"]),
        "; ".join(cbytes(a.encode()) for a in intent["actor_allow"]), "; ".join(cbytes(a.encode()) for a in intent["actor_prefix"]),
        intent["max_body"], intent["max_headers"], "; ".join(rs))


def coq_audit(a):
    return "(mkAudit %s %s %s)" % (cbytes(a.get("X-Hookaido-Audit-Reason", "").encode()),
                                   cbytes(a.get("X-Hookaido-Audit-Actor", "").encode()),
                                   cbytes(a.get("X-Request-ID", "").encode()))


# ---------------------------------------------------------------------------
# groups of requests

def good_audit(gen, scoped):
    intent = gen.intent
    a = {"X-Hookaido-Audit-Reason": gen.rng.choice(["verif", "r", "x" * 512])}
    actor = None
    if scoped and (intent["actor_allow"] or intent["actor_prefix"]):
        if intent["actor_allow"]:
            actor = intent["actor_allow"][0].strip()
        else:
            actor = intent["actor_prefix"][0].strip() + "7"
    elif intent["require_actor"] or gen.rng.random() < 0.2:
        actor = "someone"
    if actor:
        a["X-Hookaido-Audit-Actor"] = actor
    if intent["require_request_id"] or gen.rng.random() < 0.2:
        a["X-Request-ID"] = "req-%d" % gen.rng.randrange(1000)
    return a


def make_base(gen, scoped, n):
    """n valid items (and the route each was built for); scoped batches share one scope route"""
    scope = None
    if scoped:
        cands = gen.open_routes(True)
        scope = gen.rng.choice(cands) if cands else gen.routes["/m"]
    items, meta = [], []
    for pos in range(n):
        it, r = gen.valid_item(scoped, scope)
        meta.append(r)
        items.append(it)
    return dict(items=items, meta=meta, scope=scope, name=None)


def make_request(gen, scoped, n, bad=None, bad_pos=None, extra_bad=0, existing=None, req_level=None, base=None):
    """one publish request of n items; [bad] = kind of the first invalid item at [bad_pos].
    With [base] the valid items are those of the base batch (only rejected requests may share a base)."""
    rng = gen.rng
    existing = existing or {}
    b = base or make_base(gen, scoped, n)
    scope = b["scope"]
    items = json.loads(json.dumps(b["items"]))
    meta = b["meta"]
    kinds = {}
    if bad is not None:
        ok = spoil(gen, items[bad_pos], meta[bad_pos], bad, scoped, items, bad_pos, existing)
        if not ok:
            return None
        kinds[bad_pos] = bad
        # combined causes: later items invalid too, of any pass (an earlier pass must win)
        pool = PARSE_KINDS + (SEM_SCOPED if scoped else SEL_KINDS + SEM_GLOBAL)
        for _ in range(extra_bad):
            p = rng.randrange(n)
            if p in kinds:
                continue
            k = rng.choice(pool)
            if spoil(gen, items[p], meta[p], k, scoped, items, p, existing):
                kinds[p] = k
    audit = good_audit(gen, scoped)
    app, ep = ("app1", scope["ep"]) if scoped else ("", "")
    body_ok = True
    body = None
    if req_level == "no_reason":
        audit.pop("X-Hookaido-Audit-Reason", None)
    elif req_level == "reason_blank":
        audit["X-Hookaido-Audit-Reason"] = "   "
    elif req_level == "reason_long":
        audit["X-Hookaido-Audit-Reason"] = "y" * 513
    elif req_level == "actor_long":
        audit["X-Hookaido-Audit-Actor"] = "a" * 257
    elif req_level == "no_actor":
        audit.pop("X-Hookaido-Audit-Actor", None)
    elif req_level == "no_reqid":
        audit.pop("X-Request-ID", None)
    elif req_level == "actor_foreign":
        audit["X-Hookaido-Audit-Actor"] = rng.choice(["mallory", "ops@example.test ", "role:ops", "Bot-1", "svcx", "ops"])
    elif req_level == "endpoint_unknown":
        ep = "ghost"
    elif req_level == "app_unknown":
        app = "app2"
    elif req_level == "bad_json":
        body = rng.choice(['{"items":[', '{"items":[{"id":"x","route":"/a"}]} trailing', '{"items":[{"id":"x","route":"/a","bogus":1}]}',
                           '[]', '{"items":{}}', '', '{"items":[{"id":7,"route":"/a"}]}'])
        body_ok = False
    elif req_level == "empty_items":
        items = []
    if body is None:
        body = json.dumps({"items": items})
    return dict(scoped=scoped, app=app, ep=ep, audit=audit, body=body, items=items, body_ok=body_ok, kinds=kinds,
                bad=bad, bad_pos=bad_pos, req_level=req_level, base=base if (base and items) else None)


REQ_LEVEL = ["no_reason", "reason_blank", "reason_long", "actor_long", "no_actor", "no_reqid", "actor_foreign", "bad_json", "empty_items"]
REQ_LEVEL_SCOPED = ["endpoint_unknown", "app_unknown"]


def make_groups(rng, tier):
    groups = []
    nconf = 22 if tier == "quick" else 60
    sizes_sweep = [1, 2, 7, 40] if tier == "quick" else [1, 3, 12, 40, 100]
    for ci in range(nconf):
        text, intent = make_config(rng, ci, tier)
        for backend in ("memory", "sqlite"):
            gen = Gen(rng, intent)
            setup = []
            existing = {}
            npre = rng.choice([0, 2, 4]) if intent["max_depth"] > 8 else rng.randrange(0, intent["max_depth"] + 1)
            for i in range(npre):
                sid = "s%02d" % i
                r = rng.choice(intent["routes"])
                canceled = rng.random() < 0.3
                setup.append(dict(id=sid, route=r["path"], target=r["targets"][0], recv=T0 - 5000 + i,
                                  payload_b64=base64.b64encode(b"pre-%d" % i).decode(), headers={"X-Pre": str(i)} if i % 2 else None,
                                  cancel=canceled))
                existing[sid] = "canceled" if canceled else "queued"
                gen.id_num(sid)
            reqs = []
            # (a) plain valid batches of several sizes (fill the queue step by step when it is small)
            for n in rng.sample([1, 2, 3, 5, 8], 3):
                for scoped in (False, True):
                    rq = make_request(gen, scoped, n, existing=existing)
                    if rq:
                        reqs.append(rq)
            # (b) one invalid item, every kind, random position, with and without further invalid items
            for scoped in (False, True):
                pool = PARSE_KINDS + (SEM_SCOPED if scoped else SEL_KINDS + SEM_GLOBAL) + STORE_KINDS
                for kind in pool:
                    n = rng.choice([1, 2, 4, 9])
                    rq = make_request(gen, scoped, n, kind, rng.randrange(n), extra_bad=rng.choice([0, 0, 1, 3]), existing=existing)
                    if rq:
                        reqs.append(rq)
            # (c) request-level causes
            for lvl in REQ_LEVEL:
                reqs.append(make_request(gen, rng.random() < 0.5, rng.choice([1, 3]), existing=existing, req_level=lvl))
            for lvl in REQ_LEVEL_SCOPED:
                reqs.append(make_request(gen, True, 2, existing=existing, req_level=lvl))
            rng.shuffle(reqs)
            # (d) finally a batch that does not fit a small queue, and a batch that re-uses published ids
            reqs.append(make_request(gen, False, rng.choice([5, 9]), existing=existing))
            groups.append(dict(config=text, intent=intent, backend=backend, nobatch=False, now=T0, setup=setup, requests=reqs, gen=gen,
                               tag="conf%d" % ci))
    # (e) every position of the first invalid item, every kind, in batches of fixed sizes, on the permissive configuration
    text, intent = make_config(rng, 0, tier)
    for backend in ("memory", "sqlite"):
        for scoped in (False, True):
            gen = Gen(rng, intent)
            setup = [dict(id="s00", route="/a", target="pull", recv=T0 - 9, payload_b64="", headers=None, cancel=False),
                     dict(id="s01", route="/d", target="http://127.0.0.1:9/x", recv=T0 - 8, payload_b64="", headers=None, cancel=True)]
            existing = {"s00": "queued", "s01": "canceled"}
            for s0 in setup:
                gen.id_num(s0["id"])
            reqs = []
            pool = PARSE_KINDS + (SEM_SCOPED if scoped else SEL_KINDS + SEM_GLOBAL) + STORE_KINDS
            rot = 0
            for n in sizes_sweep:
                base = make_base(gen, scoped, n)
                base["name"] = "base_%d" % n
                for pos in range(n):
                    if tier == "quick" and n >= 40:
                        kinds_here = [pool[(rot + j * 7) % len(pool)] for j in range(5)]
                        rot += 1
                    else:
                        kinds_here = pool
                    for kind in kinds_here:
                        rq = make_request(gen, scoped, n, kind, pos, extra_bad=rng.choice([0, 0, 0, 2]), existing=existing, base=base)
                        if rq:
                            reqs.append(rq)
            # long batches: the scan must not stop early (quick: 130 items; thorough: see "big")
            base = make_base(gen, scoped, 130)
            base["name"] = "base_130"
            for pos in (99, 100, 101, 129):
                for kind in ("bad_b64", "dup_in_batch", "hdr_bad_value", "payload_too_large", "existing_id", "target_wrong"):
                    rq = make_request(gen, scoped, 130, kind, pos, existing=existing, base=base)
                    if rq:
                        reqs.append(rq)
            for ch in range(0, len(reqs), 70):
                groups.append(dict(config=text, intent=intent, backend=backend, nobatch=False, now=T0, setup=setup, requests=reqs[ch:ch + 70], gen=gen,
                                   tag="sweep-%s-%s-%d" % (backend, "scoped" if scoped else "global", ch // 70)))
    # (f) queue limits: near-full, full, drop_oldest, batch crossing the limit at every offset
    for depth, drop in ((6, False), (6, True), (3, True), (1, False), (2, False)):
        _, base = make_config(rng, 0, tier)
        for backend in ("memory", "sqlite"):
            text, intent = make_config(rng, 0, tier)
            text = text.replace("max_depth 10000", "max_depth %d" % depth).replace("drop_policy reject", "drop_policy %s" % ("drop_oldest" if drop else "reject"))
            intent["max_depth"], intent["drop_oldest"] = depth, drop
            for npre in range(0, depth + 1):
                gen = Gen(rng, intent)
                setup, existing = [], {}
                for i in range(npre):
                    sid = "s%02d" % i
                    canceled = (i == 1 and rng.random() < 0.5)
                    setup.append(dict(id=sid, route="/a", target="pull", recv=T0 - 500 + i, payload_b64="", headers=None, cancel=canceled))
                    existing[sid] = "canceled" if canceled else "queued"
                    gen.id_num(sid)
                reqs = []
                for n in (depth - npre + 1, depth - npre, 1, depth + 1, 2):
                    if n >= 1:
                        reqs.append(make_request(gen, rng.random() < 0.3, n, existing=existing))
                groups.append(dict(config=text, intent=intent, backend=backend, nobatch=False, now=T0, setup=setup, requests=reqs, gen=gen,
                                   tag="limit-%d-%s-%d" % (depth, drop, npre)))
    # (g) the handler's fallback for a store without EnqueueBatch (PostgresStore's method set)
    for depth, drop in ((3, False), (5, False), (2, True), (10000, False)):
        for backend in ("memory", "sqlite"):
            text, intent = make_config(rng, 0, tier)
            text = text.replace("max_depth 10000", "max_depth %d" % depth).replace("drop_policy reject", "drop_policy %s" % ("drop_oldest" if drop else "reject"))
            intent["max_depth"], intent["drop_oldest"] = depth, drop
            gen = Gen(rng, intent)
            setup = [dict(id="s00", route="/a", target="pull", recv=T0 - 9, payload_b64="", headers=None, cancel=False)]
            gen.id_num("s00")
            # a batch that crosses the limit midway comes first (room for depth-1 items)
            reqs = [make_request(gen, False, 4, existing={"s00": "queued"}), make_request(gen, False, 2, existing={"s00": "queued"}),
                    make_request(gen, True, 3, existing={"s00": "queued"}),
                    make_request(gen, False, 3, "bad_b64", 2, existing={"s00": "queued"}),
                    make_request(gen, False, 3, "existing_id", 1, existing={"s00": "queued"})]
            groups.append(dict(config=text, intent=intent, backend=backend, nobatch=True, now=T0, setup=setup, requests=[r for r in reqs if r], gen=gen,
                               tag="nobatch-%d-%s" % (depth, drop)))
    # (h) a long batch (more than any plausible page of an id lookup) in which SEVERAL ids exist already, far apart: the error names the first
    for backend in ("memory", "sqlite"):
        text, intent = make_config(rng, 0, tier)
        gen = Gen(rng, intent)
        setup = [dict(id="s%02d" % i, route="/a", target="pull", recv=T0 - 900 + i, payload_b64="", headers=None, cancel=False) for i in range(3)]
        for st_ in setup:
            gen.id_num(st_["id"])
        reqs = []
        for scoped in (False, True):
            for first, later in ((120, [730]), (499, [500, 999]), (3, [901])):
                rq = make_request(gen, scoped, 1000, "existing_id", first, existing={"s00": "queued"})       # 1000 items: the largest batch publish accepts
                if not rq:
                    continue
                for k, pos in enumerate(later):
                    rq["items"][pos]["id"] = "s%02d" % (k + 1)
                    rq["kinds"][pos] = "existing_id"
                rq["body"] = json.dumps({"items": rq["items"]})
                reqs.append(rq)
        groups.append(dict(config=text, intent=intent, backend=backend, nobatch=False, now=T0, setup=setup, requests=reqs, gen=gen, tag="several-existing-ids"))
    # batches of a few hundred items (between the sizes a test suite uses and the maximum of 1000): published whole, every item stored
    text, intent = make_config(rng, 0, tier)
    for backend in ("memory", "sqlite"):
        gen = Gen(rng, intent)
        reqs = [make_request(gen, False, 101), make_request(gen, False, 250), make_request(gen, True, 150), make_request(gen, False, 999 if tier != "quick" else 333)]
        groups.append(dict(config=text, intent=intent, backend=backend, nobatch=False, now=T0, setup=[], requests=[r for r in reqs if r], gen=gen, tag="hundreds"))
    if tier != "quick":
        text, intent = make_config(rng, 0, tier)
        for backend in ("memory", "sqlite"):
            gen = Gen(rng, intent)
            reqs = [make_request(gen, False, 1000), make_request(gen, False, 1001), make_request(gen, False, 1000, "bad_b64", 999),
                    make_request(gen, False, 1000, "dup_in_batch", 999), make_request(gen, True, 400, "hint_route", 399),
                    make_request(gen, False, 700, "existing_id", 650, existing={"p0001": "queued"})]
            groups.append(dict(config=text, intent=intent, backend=backend, nobatch=False, now=T0, setup=[], requests=[r for r in reqs if r], gen=gen,
                               tag="big"))
    for g in groups:
        g["requests"] = [r for r in g["requests"] if r]
    # (f) the queue has been FULL - an ingress webhook was refused - and consumers then drained k messages: a valid batch of exactly k items fits
    #     and is published whole; one more item afterwards does not fit and is refused as a whole
    for depth_idx in (12, 15):          # fixed configurations: max_depth 6 reject, max_depth 1 reject
        text, intent = make_config(rng, depth_idx, tier)
        d = intent["max_depth"]
        for backend in ("memory", "sqlite"):
            for k in sorted({1, min(2, d), d}):
                gen = Gen(rng, intent)
                setup, existing = [], {}
                for i in range(d):
                    sid = "f%02d" % i
                    setup.append(dict(id=sid, route="/a", target="pull", recv=T0 - 5000 + i, payload_b64=base64.b64encode(b"full-%d" % i).decode(), headers=None, cancel=False))
                    existing[sid] = "queued"
                    gen.id_num(sid)
                setup.append(dict(id="refused", route="/a", target="pull", recv=T0 - 100, payload_b64="", headers=None, cancel=False, may_be_refused=True))
                for i in range(k):
                    setup.append(dict(id="f%02d" % i, route="/a", target="pull", recv=0, payload_b64="", headers=None, cancel=False, cancel_only=True))
                    existing["f%02d" % i] = "canceled"
                reqs = [rq for rq in (make_request(gen, False, k, existing=existing), make_request(gen, False, 1, existing=existing)) if rq]
                groups.append(dict(config=text, intent=intent, backend=backend, nobatch=False, now=T0, setup=setup, requests=reqs, gen=gen,
                                   tag="was-full-drained-%d-of-%d" % (k, d)))
    return groups


# ---------------------------------------------------------------------------
# model evaluation

def coq_group(g, comp, observed, gi, full=False):
    """returns (definitions, term)"""
    gen = g["gen"]
    intent = g["intent"]
    cr = {r["path"]: r for r in comp["routes"]}
    for r in intent["routes"]:
        r["max_body_compiled"] = cr[r["path"]]["max_body"]
        r["max_headers_compiled"] = cr[r["path"]]["max_headers"]
    fl = "Mem" if g["backend"] == "memory" else "Sql"
    cfg = "(mkCfg (%d)%%Z %s (%d)%%Z (%d)%%Z (%d)%%Z (%d)%%Z (%d)%%Z 0%%Z)" % (
        comp["max_depth"], C.coq_bool(comp["drop_policy"] == "drop_oldest"), comp["ret_age"], comp["prune_iv"], comp["deliv_age"],
        comp["dlq_age"], comp["dlq_depth"])
    orc0 = "(mkOracle [] [] [] [])"
    ops = []
    for s in g["setup"]:
        if s.get("cancel_only"):
            ops.append("(Manage (%d)%%Z MCancel [RPlain %d%%N], %s)" % (g["now"], gen.id_num(s["id"]), orc0))
            continue
        e = "(mkEnq (Some %d%%N) %d%%N %d%%N (Some (%d)%%Z) None %d%%N %d%%N 0%%N)" % (
            gen.id_num(s["id"]), RNUM[s["route"]], TARGETS[s["target"]], s["recv"],
            hash_bytes(base64.b64decode(s["payload_b64"])), hash_smap(s["headers"]))
        ops.append("(Enqueue (%d)%%Z %s, %s)" % (g["now"], e, orc0))
        if s["cancel"]:
            ops.append("(Manage (%d)%%Z MCancel [RPlain %d%%N], %s)" % (g["now"], gen.id_num(s["id"]), orc0))
    reqs = []
    defs = {}
    prev = set(r["id"] for r in observed["setup"])
    for k, rq in enumerate(g["requests"]):
        now = g["now"] + (k + 1) * 1000000
        after = set(r["id"] for r in observed["resps"][k]["after"])
        gone = sorted(prev - after)
        prev = after
        orc = "(mkOracle [] [%s] [] [])" % "; ".join("%d%%N" % gen.id_num(i) for i in gone)
        if rq.get("base"):
            bname = "b%d_%s" % (gi, rq["base"]["name"])
            if bname not in defs:
                defs[bname] = "Definition %s : list item := [%s]." % (bname, ";\n   ".join(coq_item(gen, it) for it in rq["base"]["items"]))
            changed = [(p, it) for p, (it, b0) in enumerate(zip(rq["items"], rq["base"]["items"])) if it != b0]
            items = "(repl [%s] %s)" % ("; ".join("(%d%%nat, %s)" % (p, coq_item(gen, it)) for p, it in changed), bname)
        else:
            items = "[" + ";\n   ".join(coq_item(gen, it) for it in rq["items"]) + "]"
        if rq["scoped"]:
            reqs.append("(ReqScoped (%d)%%Z %s %s %s %s %s %s)" % (now, orc, coq_label(rq["app"]), coq_label(rq["ep"]), coq_audit(rq["audit"]),
                                                                  C.coq_bool(rq["body_ok"]), items))
        else:
            reqs.append("(ReqGlobal (%d)%%Z %s %s %s %s)" % (now, orc, coq_audit(rq["audit"]), C.coq_bool(rq["body_ok"]), items))
    term = ("%s %s %s %s %s\n [%s]\n (snd (run %s %s init [%s]))" % (
        "run_requests" if full else "run_requests_h",
        C.coq_bool(not g["nobatch"]), fl, cfg, coq_ctx(intent), ";\n  ".join(reqs), fl, cfg, "; ".join(ops)))
    return "\n".join(defs.values()), term


def eval_groups(ctx, cases, tag, full=False):
    """cases: list of (defs, term); returns list of parsed results (or ("error", text))"""
    nsh = 16
    order = sorted(range(len(cases)), key=lambda i: -(len(cases[i][0]) + len(cases[i][1])))
    bins = [[] for _ in range(nsh)]
    load = [0] * nsh
    for i in order:
        b = load.index(min(load))
        bins[b].append(i)
        load[b] += len(cases[i][0]) + len(cases[i][1]) + 2000
    bins = [b for b in bins if b]
    shards = []
    for b in bins:
        body = ["From Coq Require Import List ZArith NArith Bool.", "From HK Require Import Model.Queue Model.Headers Model.Publish.",
                "Import ListNotations.", "Open Scope Z_scope."]
        for i in b:
            defs, t = cases[i]
            if defs:
                body.append(defs)
            body.append("Definition g%d := Eval vm_compute in (%s)." % (i, t))
            body.append("Print g%d." % i)
        shards.append("\n".join(body) + "\n")
    res = C.coq_eval_shards(ctx, "c15" + tag, shards, timeout=1500, par=16)
    out = [("error", "missing output")] * len(cases)
    ty = r"list \(list Z \* list \(list Z\)\)" if full else r"list \(list Z \* Z\)"
    for (rc, txt), b in zip(res, bins):
        if rc != 0:
            for i in b:
                out[i] = ("error", txt[-1500:])
            continue
        flat = " ".join(txt.split())
        for j, t in re.findall(r"g(\d+) = (.*?) : " + ty, flat):
            try:
                out[int(j)] = ast.literal_eval(t.replace(";", ","))
            except Exception:  # noqa
                out[int(j)] = ("error", "unparsable model output: %s" % t[:300])
    return out


def row_hash(r):
    h = 7
    for x in r:
        h = (h * 1000003 + x + 1) % HM
    return h


def rows_hash(rows):
    acc = 11
    for r in rows:
        acc = (acc + row_hash(r)) % HM
    return acc


def impl_rows(gen, rows):
    out = []
    for r in rows:
        tr = r.get("trace") or {}
        out.append([gen.id_num(r["id"]), RNUM.get(r["route"], 99), TARGETS.get(r["target"], 1999), STN.get(r["state"], 9), r["recv"], r["next"],
                    hash_bytes(base64.b64decode(r["payload_b64"])), hash_smap(r.get("headers")), int(tr.get("t", "0")) if tr else 0])
    return sorted(out)


# ---------------------------------------------------------------------------

def property_on_impl(g, rq, before, resp, comp):
    """C15 evaluated directly on what the implementation did (no model involved)."""
    probs = []
    bset = {r["id"]: r for r in before}
    aset = {r["id"]: r for r in resp["after"]}
    routes = {r["path"]: r for r in comp["routes"]}
    if resp["status"] == 200:
        if resp["published"] != len(rq["items"]):
            probs.append(("published-count", "status 200 but published=%d for %d items" % (resp["published"], len(rq["items"]))))
        for it in rq["items"]:
            iid = gotrim(it.get("id", ""))
            m = aset.get(iid)
            if m is None:
                probs.append(("item-missing", "status 200 but item %r is not stored" % iid))
                continue
            if iid in bset:
                probs.append(("duplicate-accepted", "item id %r existed before the publish and was accepted" % iid))
            if m["state"] != "queued" or m["attempt"] != 0 or m["lease"]:
                probs.append(("published-shape", "item %r stored as state=%s attempt=%d lease=%r" % (iid, m["state"], m["attempt"], m["lease"])))
            rt = routes.get(m["route"])
            if rt is None or m["target"] not in rt["targets"]:
                probs.append(("published-target", "item %r stored for route %r target %r which is not a target of the route" % (iid, m["route"], m["target"])))
            else:
                if len(base64.b64decode(m["payload_b64"])) > rt["max_body"]:
                    probs.append(("published-too-large", "item %r stored with %d payload bytes > max_body %d" % (iid, len(base64.b64decode(m["payload_b64"])), rt["max_body"])))
                hs = sum(len(k.encode()) + len(v.encode()) for k, v in (m.get("headers") or {}).items())
                if hs > rt["max_headers"]:
                    probs.append(("published-headers-too-large", "item %r stored with %d header bytes > max_headers %d" % (iid, hs, rt["max_headers"])))
    else:
        if resp["after"] != before:
            added = sorted(set(aset) - set(bset))
            removed = sorted(set(bset) - set(aset))
            key = "publish-nonbatch-store-partial" if g["nobatch"] else "not-atomic"
            probs.append((key, "status %d (%s, item_index %d) but the queue changed: added %s removed %s" % (
                resp["status"], resp["code"], resp["item_index"], added[:6], removed[:6])))
    # GET /messages agrees with the store
    if resp.get("api_status") == 200 and len(resp["after"]) <= 1000:
        want = sorted("%s|%s|%s|%s|%s" % (r["id"], r["route"], r["target"], r["state"], r["payload_b64"]) for r in resp["after"])
        if want != (resp.get("api") or []):
            probs.append(("listing-differs", "GET /messages does not show what the store holds"))
    return probs


def main(ctx, replay):
    rng = random.Random(ctx.seed)
    info = C.prologue(ctx)
    if info["hbin"] is None:
        raise C.HarnessBuildFailed(info.get("go_log", ""))
    assumptions = [
        "JSON decoding of the request body, RFC3339 parsing and the management-label pattern are library verdicts fed to the model (generator-side twins)",
        "server wired by the real app.startServers from real config.Compile output; stores created by the harness with the compiled limits and a fixed clock",
        "PostgresStore itself cannot run here; its method set (no EnqueueBatch) is reproduced by a wrapper around the memory/SQLite store",
    ]
    cov = C.proof_coverage(info, "C15")
    groups = make_groups(rng, ctx.tier)
    payload = {"dir": os.path.join(ctx.scratch, "pub"), "par": 16,
               "groups": [{k: g[k] for k in ("config", "backend", "nobatch", "now", "setup")} |
                          {"requests": [{k: r[k] for k in ("scoped", "app", "ep", "audit", "body")} for r in g["requests"]]} for g in groups]}
    rc, out, err = C.harness_run(info["hbin"], ["publish"], payload, timeout=3000)
    if rc != 0:
        raise RuntimeError("publish harness failed: " + err[-2000:])
    outs = json.loads(out)
    terms, live = [], []
    for g, o in zip(groups, outs):
        if o.get("err"):
            raise RuntimeError("group %s: %s" % (g["tag"], o["err"]))
        mism = check_compiled(g["intent"], o["compiled"])
        if mism:
            C.report(ctx, "compile-policy-mismatch", "; ".join(mism), {"kind": "program", "config": g["config"], "problems": mism})
        terms.append(coq_group(g, o["compiled"], o, len(terms)))
        live.append((g, o))
    models = eval_groups(ctx, terms, "m")
    full_cache = {}
    evaluations = 0
    nontrivial = set()
    dist = {"status": {}, "code": {}, "kinds": {}, "sizes": {}, "backends": {}, "req_level": {}, "first_bad_positions": {}}
    samples = []
    mismatches = 0
    model_broken = []
    for gi, ((g, o), m) in enumerate(zip(live, models)):
        if isinstance(m, tuple) and m and m[0] == "error":
            model_broken.append("%s: %s" % (g["tag"], m[1]))
            m = None
        before = o["setup"]
        for k, rq in enumerate(g["requests"]):
            resp = o["resps"][k]
            evaluations += 1
            if resp.get("err"):
                raise RuntimeError("request failed in harness: %s" % resp["err"])
            case = {"tag": g["tag"], "backend": g["backend"], "nobatch": g["nobatch"], "scoped": rq["scoped"], "app": rq["app"], "ep": rq["ep"],
                    "audit": rq["audit"], "body": rq["body"] if len(rq["body"]) < 4000 else rq["body"][:4000] + "...", "request_index": k,
                    "config": g["config"], "setup": g["setup"]}
            obs = {"status": resp["status"], "code": resp["code"], "item_index": resp["item_index"], "published": resp["published"], "detail": resp["detail"][:200]}
            for key, what in property_on_impl(g, rq, before, resp, o["compiled"]):
                if g["nobatch"] and key in ("item-missing", "published-count", "not-atomic"):
                    # same root cause: the handler's per-item fallback for stores without EnqueueBatch
                    key, what = "publish-nonbatch-store-partial", "store without EnqueueBatch (PostgresStore's method set): " + what
                C.report(ctx, key, what, {"kind": "request", "case": case, "observed": obs, "before": [r["id"] for r in before],
                                          "after": [r["id"] for r in resp["after"]], "how_to_replay": "./check C15 --replay <this file>"})
            if m is not None:
                mrow, mhash = m[k]
                irow = [resp["status"], CODES.index(resp["code"]) if resp["code"] in CODES else -5, resp["item_index"], resp["published"]]
                if list(mrow) != irow:
                    mismatches += 1
                    exp = {"status": mrow[0], "code": CODES[mrow[1]] if 0 <= mrow[1] < len(CODES) else mrow[1], "item_index": mrow[2], "published": mrow[3]}
                    kind = "response"
                    if mrow[0] != irow[0]:
                        kind = "status"
                    elif mrow[2] != irow[2]:
                        kind = "item-index"
                    elif mrow[1] != irow[1]:
                        kind = "code"
                    C.report(ctx, "publish-%s:%s" % (kind, rq.get("bad") or rq.get("req_level") or "valid"),
                             "publish answered %s, the validated all-or-nothing handler answers %s" % (obs, exp),
                             {"kind": "request", "case": case, "observed": obs, "expected": exp, "kinds": {str(a): b for a, b in rq["kinds"].items()}})
                elif mhash != rows_hash(impl_rows(g["gen"], resp["after"])):
                    mismatches += 1
                    if gi not in full_cache and len(full_cache) < 3:   # explain the first few with the model's rows
                        full_cache[gi] = eval_groups(ctx, [coq_group(g, o["compiled"], o, gi, full=True)], "f%d" % gi, full=True)[0]
                    fm = full_cache.get(gi, ("error", "not evaluated"))
                    mrows = sorted(list(r) for r in fm[k][1]) if not (isinstance(fm, tuple) and fm and fm[0] == "error") else None
                    C.report(ctx, "publish-stored:%s" % (rq.get("bad") or rq.get("req_level") or "valid"),
                             "stored messages after the request differ from the model's (payload/headers/target/state/timestamps)",
                             {"kind": "request", "case": case, "observed": obs, "impl_rows": impl_rows(g["gen"], resp["after"])[:50],
                              "model_rows": mrows[:50] if mrows else None})
            before = resp["after"]
            # distribution
            dist["status"][str(resp["status"])] = dist["status"].get(str(resp["status"]), 0) + 1
            dist["code"][resp["code"] or "ok"] = dist["code"].get(resp["code"] or "ok", 0) + 1
            dist["backends"][g["backend"] + ("/nobatch" if g["nobatch"] else "")] = dist["backends"].get(g["backend"] + ("/nobatch" if g["nobatch"] else ""), 0) + 1
            sz = len(rq["items"])
            b = "1" if sz == 1 else "2-9" if sz < 10 else "10-40" if sz <= 40 else "41+"
            dist["sizes"][b] = dist["sizes"].get(b, 0) + 1
            if rq.get("bad"):
                dist["kinds"][rq["bad"]] = dist["kinds"].get(rq["bad"], 0) + 1
                dist["first_bad_positions"][str(rq["bad_pos"])] = dist["first_bad_positions"].get(str(rq["bad_pos"]), 0) + 1
            if rq.get("req_level"):
                dist["req_level"][rq["req_level"]] = dist["req_level"].get(rq["req_level"], 0) + 1
            nontrivial.add(C.sha([g["config"], g["backend"], g["nobatch"], rq["scoped"], rq["audit"], rq["body"], [r["id"] for r in before]]))
            if len(samples) < 8 and rng.random() < 0.004:
                samples.append({"case": {k2: case[k2] for k2 in ("tag", "backend", "scoped", "body")}, "observed": obs})
    proof_broken = C.proof_status(info, "C15")
    if model_broken:
        proof_broken.append("model evaluation failed: " + "; ".join(model_broken)[:1500])
    cov.update({
        "evaluations": evaluations,
        "distinct_nontrivial": len(nontrivial),
        "rule": "one evaluation = one publish request sent to the real Admin API and judged (a) by the property itself on the before/after store listing and (b) against Model/Publish.v+Queue.v; non-trivial = distinct (configuration, backend, audit headers, body, queue content before) - every request either changes the queue or is refused for a property-relevant reason",
        "samples": samples,
        "traces_validated_against_impl": evaluations,
        "model_impl_mismatches": mismatches,
        "input_distribution": dist,
        "groups": len(groups),
        "configurations": len(set(g["config"] for g in groups)),
    })
    return C.conclude(ctx, info, cov, assumptions, proof_broken=proof_broken,
                      searched_note="all generated requests were run on the implementation and judged by the property directly")
