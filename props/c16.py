"""C16 — the egress policy is enforced on every delivery and on every redirect hop."""
import json
import random
import re

from lib import common as C

MAPPED_LO = 0xFFFF << 32
MAPPED_HI = MAPPED_LO + 0xFFFFFFFF


# --------------------------------------------------------------------------
# addresses
# --------------------------------------------------------------------------

def q(a, b, c, d):
    return (a << 24) | (b << 16) | (c << 8) | d


def ip_hex(fam, val):
    if fam == 4:
        return "%08x" % val
    if fam == 6:
        return "%032x" % val
    return val  # bad length: already a hex string


def ip_coq(fam, val):
    if fam == 4:
        return "(mkip F4 %d)" % val
    if fam == 6:
        return "(mkip F6 %d)" % val
    return "(mkip FBad 0)"


def parse_hex_ip(h):
    n = len(h) // 2
    if n == 4:
        return (4, int(h, 16))
    if n == 16:
        return (6, int(h, 16))
    return ("bad", h)


# Independent oracle: the five classes by first/last address of the RFC blocks.
V4_BLOCKS = {
    "loopback": [(q(127, 0, 0, 0), q(127, 255, 255, 255))],
    "private": [(q(10, 0, 0, 0), q(10, 255, 255, 255)), (q(172, 16, 0, 0), q(172, 31, 255, 255)),
                (q(192, 168, 0, 0), q(192, 168, 255, 255))],
    "link_local": [(q(169, 254, 0, 0), q(169, 254, 255, 255))],
    "multicast": [(q(224, 0, 0, 0), q(239, 255, 255, 255))],
    "unspecified": [(0, 0)],
}
V6_BLOCKS = {
    "loopback": [(1, 1)],
    "private": [(0xFC00 << 112, (0xFE00 << 112) - 1)],
    "link_local": [(0xFE80 << 112, (0xFEC0 << 112) - 1)],
    "multicast": [(0xFF00 << 112, (1 << 128) - 1)],
    "unspecified": [(0, 0)],
}


def denote(fam, val):
    if fam == 4:
        return (4, val)
    if fam == 6:
        if MAPPED_LO <= val <= MAPPED_HI:
            return (4, val - MAPPED_LO)
        return (6, val)
    return None


def spec_classes(fam, val):
    d = denote(fam, val)
    if d is None:
        return None
    blocks = V4_BLOCKS if d[0] == 4 else V6_BLOCKS
    return sorted(k for k, rs in blocks.items() if any(lo <= d[1] <= hi for lo, hi in rs))


def boundary_ips(rng, tier):
    out = []
    v4_edges = set()
    for lo, hi in [(0, 0), (q(10, 0, 0, 0), q(10, 255, 255, 255)), (q(100, 64, 0, 0), q(100, 127, 255, 255)),
                   (q(127, 0, 0, 0), q(127, 255, 255, 255)), (q(169, 254, 0, 0), q(169, 254, 255, 255)),
                   (q(172, 16, 0, 0), q(172, 31, 255, 255)), (q(192, 0, 0, 0), q(192, 0, 0, 255)),
                   (q(192, 168, 0, 0), q(192, 168, 255, 255)), (q(198, 18, 0, 0), q(198, 19, 255, 255)),
                   (q(224, 0, 0, 0), q(224, 0, 0, 255)), (q(224, 0, 0, 0), q(239, 255, 255, 255)),
                   (q(240, 0, 0, 0), q(255, 255, 255, 254)), (q(255, 255, 255, 255), q(255, 255, 255, 255)),
                   (q(172, 0, 0, 0), q(172, 255, 255, 255)), (q(192, 167, 0, 0), q(192, 169, 255, 255)),
                   (q(169, 253, 0, 0), q(169, 255, 255, 255)), (q(1, 0, 0, 0), q(223, 255, 255, 255))]:
        for v in (lo - 1, lo, lo + 1, hi - 1, hi, hi + 1):
            if 0 <= v <= 0xFFFFFFFF:
                v4_edges.add(v)
    for v in sorted(v4_edges):
        out.append((4, v))
        out.append((6, MAPPED_LO + v))            # IPv4-mapped form of the same address
        out.append((6, v))                        # IPv4-compatible (::a.b.c.d): *not* mapped
    v6_edges = set()
    for lo, hi in [(0, 0), (1, 1), (MAPPED_LO, MAPPED_HI), (0xFC00 << 112, (0xFE00 << 112) - 1),
                   (0xFE80 << 112, (0xFEC0 << 112) - 1), (0xFEC0 << 112, (0xFF00 << 112) - 1),
                   (0xFF00 << 112, (1 << 128) - 1), (0xFF02 << 112, (0xFF03 << 112) - 1),
                   (0xFF01 << 112, (0xFF02 << 112) - 1), (0xFF12 << 112, (0xFF13 << 112) - 1),
                   (0x2001 << 112, (0x2002 << 112) - 1), (0x2002 << 112, (0x2003 << 112) - 1),
                   (0x0064FF9B << 96, (0x0064FF9B << 96) + 0xFFFFFFFF), (0xFFFE << 32, (0xFFFE << 32) + 0xFFFFFFFF),
                   (0x1FFFF << 32, (0x1FFFF << 32) + 0xFFFFFFFF), (0xFB00 << 112, (0xFC00 << 112) - 1)]:
        for v in (lo - 1, lo, lo + 1, hi - 1, hi, hi + 1):
            if 0 <= v < (1 << 128):
                v6_edges.add(v)
    out += [(6, v) for v in sorted(v6_edges)]
    for h in ("", "00", "7f0000", "7f00000100", "00" * 15, "00" * 17, "00" * 12 + "7f0000", "ff" * 8):
        out.append(("bad", h))
    n_rand = 600 if tier == "quick" else 20000
    for _ in range(n_rand):
        k = rng.randrange(6)
        if k == 0:
            out.append((4, rng.getrandbits(32)))
        elif k == 1:
            out.append((6, rng.getrandbits(128)))
        elif k == 2:
            out.append((6, MAPPED_LO + rng.getrandbits(32)))
        elif k == 3:   # around a class block with random low bits
            top = rng.choice([10, 127, 169, 172, 192, 224, 239, 240, 0, 100])
            out.append((4, (top << 24) | rng.getrandbits(24)))
        elif k == 4:
            top = rng.choice([0xFC, 0xFD, 0xFE, 0xFF, 0xFB, 0x00, 0x20])
            out.append((6, (top << 120) | rng.getrandbits(120)))
        else:
            top = rng.choice([0xFE80, 0xFEBF, 0xFEC0, 0xFE7F, 0xFF02, 0xFF0F, 0xFC00, 0xFDFF])
            out.append((6, (top << 112) | rng.getrandbits(rng.choice([8, 64, 112]))))
    seen, uniq = set(), []
    for x in out:
        if x not in seen:
            seen.add(x)
            uniq.append(x)
    return uniq


FLAG_NAMES = ["allowed", "loopback", "private", "llu", "llm", "mc", "unspec", "global", "to4"]


def check_ip_classes(ctx, info, rng, stats):
    ips = boundary_ips(rng, ctx.tier)
    rc, out, err = C.harness_run(info["hbin"], ["egress-ip"], {"ips": [ip_hex(f, v) for f, v in ips]})
    if rc != 0:
        raise RuntimeError("egress-ip failed: " + err[-2000:])
    rows = json.loads(out)["rows"]
    shards = []
    per = 800
    for i in range(0, len(ips), per):
        body = ["From Coq Require Import List NArith.", "From HK Require Import Model.IpClass Model.EgressRun.",
                "Import ListNotations.", "Open Scope N_scope.",
                "Definition F := Eval vm_compute in map ip_flags [%s]." % "; ".join(ip_coq(f, v) for f, v in ips[i:i + per]),
                "Print F."]
        shards.append("\n".join(body) + "\n")
    res = C.coq_eval_shards(ctx, "c16ip", shards)
    mflags = []
    for rc2, o in res:
        txt = C.coq_list_result(o, "F") if rc2 == 0 else None
        if txt is None:
            return None, "model evaluation of ip_flags failed: " + o[-600:]
        mflags += [int(x) for x in re.findall(r"\d+", txt)]
    if len(mflags) != len(ips):
        return None, "ip_flags: %d results for %d addresses" % (len(mflags), len(ips))
    n_forbidden = 0
    for (fam, val), r, mf in zip(ips, rows, mflags):
        stats["ip_evals"] += 1
        impl = sum((1 << k) for k, nm in enumerate(FLAG_NAMES) if r[nm])
        spec = spec_classes(fam, val)
        show = {"fam": fam, "addr": ip_hex(fam, val), "impl": {k: r[k] for k in FLAG_NAMES},
                "model_flags": mf, "spec_classes": spec}
        if impl != mf:
            C.report(ctx, "ipclass:model-vs-go", "Go's class predicates / isAllowedIP differ from the model on an address",
                     {"kind": "request", "case": show, "expected": "flags %d" % mf, "observed": "flags %d" % impl})
        if spec is None:
            if r["allowed"]:
                C.report(ctx, "ipclass:odd-length-allowed", "isAllowedIP accepts an address that is neither 4 nor 16 bytes",
                         {"kind": "request", "case": show})
            continue
        if spec:
            n_forbidden += 1
        if spec and r["allowed"]:
            C.report(ctx, "ipclass:%s-allowed" % spec[0],
                     "isAllowedIP lets a %s address through (RFC range oracle)" % "/".join(spec),
                     {"kind": "request", "case": show, "expected": "refused", "observed": "allowed"})
        bcast = denote(fam, val) == (4, 0xFFFFFFFF)
        if (not spec) and (not bcast) and not r["allowed"]:
            C.report(ctx, "ipclass:public-refused", "isAllowedIP refuses an address outside the five classes",
                     {"kind": "request", "case": show, "expected": "allowed", "observed": "refused"})
    stats["ip_forbidden"] = n_forbidden
    return len(ips), None


# --------------------------------------------------------------------------
# policies, URLs, resolver answers
# --------------------------------------------------------------------------

RULE_POOL = ["example.com", "*.example.com", "*", "Example.COM.", "api.example.com", "*.internal.test", "evil.example",
             "*.evil.example", "[::1]", "localhost", "10.0.0.0/8", "10.1.2.3/8", "192.168.1.1", "0.0.0.0/0", "::/0",
             "fc00::/7", "2001:db8::/32", "2001:db8::1", "8.8.8.0/24", "1.1.1.1/32", "1.1.1.1", "93.184.216.34",
             "example.com:8080", "*.*", "127.0.0.0/8", "169.254.169.254", "fe80::/10", "2606:4700::/32",
             "172.16.0.0/12", "0.0.0.0/1", "128.0.0.0/1", "8.8.8.8/31", "one.example", "*.one.example"]
MAPPED_RULES = ["::ffff:8.8.8.8", "::ffff:10.0.0.0/104", "::ffff:1.1.1.0/120", "::ffff:0.0.0.0/96", "::ffff:8.8.8.0/120",
                "::ffff:8.8.8.8/127", "::ffff:1.1.1.1/128", "::ffff:93.184.216.34", "::FFFF:1.1.1.200/125", "::ffff:0:0/95",
                "::ffff:8.8.8.8/95", "::fffe:0:0/95", "::ffff:808:808", "0:0:0:0:0:ffff:a00:0/104"]
BAD_RULES = ["http://x.example", "", "exa mple", "*.", "a*b.example"]

PUB4 = [q(8, 8, 8, 8), q(8, 8, 8, 9), q(1, 1, 1, 1), q(1, 1, 1, 200), q(93, 184, 216, 34), q(100, 64, 0, 1), q(203, 0, 113, 7)]
PRIV4 = [q(10, 0, 0, 1), q(10, 1, 2, 3), q(127, 0, 0, 1), q(127, 255, 255, 254), q(169, 254, 169, 254), q(172, 16, 0, 1),
         q(172, 31, 255, 255), q(192, 168, 1, 1), q(224, 0, 0, 1), q(239, 1, 1, 1), 0, q(255, 255, 255, 255)]
PUB6 = [(0x20010DB8 << 96) + 1, (0x26064700 << 96) + 0x1111, (0x2A00 << 112) + 5]
PRIV6 = [1, 0, (0xFC00 << 112) + 1, (0xFD12 << 112) + 7, (0xFE80 << 112) + 1, (0xFEBF << 112) + 9, (0xFF02 << 112) + 1,
         (0xFF0E << 112) + 0x101]

HOSTS = ["example.com", "EXAMPLE.com", "example.com.", "example.com..", "api.example.com", "a.b.Example.com",
         ".example.com", "badexample.com", "example.com.evil.example", "evil.example", "x.evil.example", "localhost",
         "one.example", "www.one.example", "internal.test", "db.internal.test", "other.example", "xn--bcher-kva.example",
         "0x7f.1", "2130706433", "127.1", "0177.0.0.1", "example.com:8080", "example.com:", "user:pw@example.com",
         "evil.example@example.com", "a_b.example", "1.1.1.1.example.com"]
LITERALS = ["127.0.0.1", "10.0.0.1", "8.8.8.8", "1.1.1.1", "1.1.1.200", "93.184.216.34", "169.254.169.254", "0.0.0.0",
            "255.255.255.255", "192.168.1.1", "172.32.0.1", "100.64.0.1", "224.0.0.1", "[::1]", "[::]", "[::ffff:127.0.0.1]",
            "[::ffff:8.8.8.8]", "[::FFFF:10.0.0.1]", "[0:0:0:0:0:ffff:7f00:1]", "[fe80::1%25eth0]", "[2001:db8::1]",
            "[2001:DB8::2]", "[::fffe:808:808]", "[::ffff:1.1.1.1]", "[fc00::1]", "[fd00::1]:8443", "[ff02::1]", "[2606:4700::1111]", "[::7f00:1]", "[64:ff9b::7f00:1]",
            "8.8.8.8:53", "1.1.1.1."]
SCHEMES = ["http", "https", "https", "http", "HTTP", "HtTpS", "ftp", "file", "ws", "gopher", "javascript"]
WEIRD_URLS = ["//example.com/x", "example.com/x", "http:example.com", "http:///x", "https://", "http://exa mple.com/",
              "http://[::1/x", "http://a%zz.example/", "", ":", "http://%41.example/", "https://example.com/%zz"]


def gen_policy(rng):
    def flag():
        return rng.choice(["on", "off", "on", "off", "true", "0", ""])
    n_allow = rng.choice([0, 0, 1, 2, 3])
    n_deny = rng.choice([0, 0, 1, 2, 3])
    pool = RULE_POOL + (MAPPED_RULES if rng.random() < 0.25 else []) + (BAD_RULES if rng.random() < 0.04 else [])
    return {"https_only": flag(), "redirects": flag(), "rebind": flag(),
            "allow": [rng.choice(pool) for _ in range(n_allow)], "deny": [rng.choice(pool) for _ in range(n_deny)]}


FIXED_POLICIES = [
    {"https_only": "", "redirects": "", "rebind": "", "allow": [], "deny": []},                       # defaults
    {"https_only": "off", "redirects": "on", "rebind": "on", "allow": [], "deny": []},
    {"https_only": "off", "redirects": "on", "rebind": "off", "allow": [], "deny": []},
    {"https_only": "off", "redirects": "on", "rebind": "on", "allow": ["*.example.com"], "deny": []},
    {"https_only": "off", "redirects": "on", "rebind": "on", "allow": ["*"], "deny": ["evil.example", "1.1.1.0/24"]},
    {"https_only": "off", "redirects": "on", "rebind": "off", "allow": ["*", "10.0.0.0/8"], "deny": ["10.1.0.0/16"]},
    {"https_only": "off", "redirects": "off", "rebind": "on", "allow": ["example.com"], "deny": ["example.com"]},
    {"https_only": "on", "redirects": "on", "rebind": "on", "allow": [], "deny": ["*.evil.example"]},
    {"https_only": "off", "redirects": "on", "rebind": "on", "allow": [], "deny": ["::ffff:8.8.8.8"]},
    {"https_only": "off", "redirects": "on", "rebind": "off", "allow": [], "deny": ["::ffff:10.0.0.0/104"]},
    {"https_only": "off", "redirects": "on", "rebind": "on", "allow": ["::ffff:8.8.8.0/120"], "deny": []},          # 10
    {"https_only": "off", "redirects": "on", "rebind": "on", "allow": ["*"], "deny": ["::ffff:0:0/95"]},           # 11: < 96 bits stays a v6 prefix
    {"https_only": "off", "redirects": "on", "rebind": "on", "allow": ["::ffff:1.1.1.1/128"], "deny": ["::ffff:1.1.1.0/120"]},   # 12
    {"https_only": "off", "redirects": "on", "rebind": "on", "allow": [], "deny": ["::ffff:0.0.0.0/96"]},           # 13: every IPv4 address
]
# a domain and its wildcard in one list, both orders (rules are matched as written: neither spelling may swallow the other)
FIXED_POLICIES += [
    {"https_only": "off", "redirects": "on", "rebind": "off", "allow": [], "deny": ["blocked.example", "*.blocked.example"]},      # 14
    {"https_only": "off", "redirects": "on", "rebind": "off", "allow": [], "deny": ["*.blocked.example", "blocked.example"]},      # 15
    {"https_only": "off", "redirects": "on", "rebind": "off", "allow": ["*.blocked.example", "blocked.example", "BLOCKED.example"], "deny": []},   # 16
]
for _ho in ("on", "off"):
    for _rd in ("on", "off"):
        for _rb in ("on", "off"):
            FIXED_POLICIES.append({"https_only": _ho, "redirects": _rd, "rebind": _rb,
                                   "allow": ["*.example.com", "8.8.8.0/24"], "deny": ["api.example.com", "8.8.8.9"]})


def gen_answer(rng):
    k = rng.randrange(19)
    if k >= 16:
        # a LARGE record set (a CDN name, a round-robin pool): every address counts, also the one far down the list
        n = rng.choice([17, 20, 41, 64, 130, 300])
        pub = ["%08x" % q(93, 184, (i >> 8) & 255, i & 255) for i in range(1, n + 1)]
        if k == 16:
            return {"err": False, "ips": pub}
        bad = rng.choice(["%08x" % rng.choice(PRIV4), "%032x" % rng.choice(PRIV6), "%08x" % q(8, 8, 8, 8)])
        pos = rng.choice([n - 1, n - 1, 16, 17, n // 2 + 9])
        return {"err": False, "ips": pub[:pos] + [bad] + pub[pos:]}
    h4 = lambda v: "%08x" % v
    h6 = lambda v: "%032x" % v
    if k == 0:
        return {"err": True, "ips": []}
    if k == 1:
        return {"err": False, "ips": []}
    if k == 2:
        return {"err": False, "ips": ["nil"]}
    if k == 3:
        return {"err": False, "ips": ["nil", h4(rng.choice(PUB4))]}
    if k == 4:
        return {"err": False, "ips": [rng.choice(["", "7f0000", "00" * 5, "00" * 17])]}
    if k == 5:
        return {"err": False, "ips": [h4(rng.choice(PUB4)), h4(rng.choice(PRIV4))]}
    if k == 6:
        return {"err": False, "ips": [h4(rng.choice(PRIV4))]}
    if k == 7:
        return {"err": False, "ips": [h6(MAPPED_LO + rng.choice(PRIV4 + PUB4))]}
    if k == 8:
        return {"err": False, "ips": [h6(rng.choice(PUB6)), h6(rng.choice(PRIV6))]}
    if k == 9:
        return {"err": False, "ips": [h6(rng.choice(PRIV6))]}
    if k == 10:
        return {"err": False, "ips": [h6(rng.choice(PUB6))]}
    if k == 11:
        return {"err": False, "ips": [h4(rng.choice(PUB4)), h6(rng.choice(PUB6)), h6(MAPPED_LO + rng.choice(PUB4))]}
    return {"err": False, "ips": [h4(rng.choice(PUB4)) for _ in range(rng.choice([1, 1, 2]))]}


def gen_url(rng):
    if rng.random() < 0.04:
        return rng.choice(WEIRD_URLS)
    host = rng.choice(LITERALS) if rng.random() < 0.35 else rng.choice(HOSTS)
    scheme = rng.choice(SCHEMES) if rng.random() < 0.3 else rng.choice(["http", "https"])
    path = rng.choice(["", "/", "/in", "/a/b?x=1", "/%41"])
    return "%s://%s%s" % (scheme, host, path)


def py_norm_host(h):
    h = h.strip(" \t\n\v\f\r").lower() if all(ord(c) < 128 for c in h) else h
    return h[:-1] if h.endswith(".") else h


def gen_case(rng, npol, tier):
    r = rng.random()
    n = 1 if r < 0.55 else (rng.choice([2, 2, 3, 4]) if r < 0.9 else rng.choice([10, 11, 12, 13]))
    chain = [gen_url(rng)]
    for _ in range(n - 1):
        if rng.random() < 0.15:
            chain.append(rng.choice(["/moved", "//other.example/x", "../up", "?q=1", "//evil.example/", "//127.0.0.1/"]))
        else:
            chain.append(gen_url(rng) or "/moved")      # an empty Location header is "no redirect" for net/http
    codes = [rng.choice([301, 302, 303, 307, 308]) for _ in range(n - 1)]
    dns = {}
    names = set()
    for u in chain:
        m = re.match(r"^(?:[A-Za-z][A-Za-z0-9+.-]*:)?//([^/?#]*)", u)
        if m:
            hostport = m.group(1).rsplit("@", 1)[-1]
            hn = hostport if hostport.startswith("[") else hostport.split(":")[0]
            names.add(py_norm_host(hn))
    for nm in sorted(names):
        if rng.random() < 0.9:
            seq = [gen_answer(rng)]
            if rng.random() < 0.2:
                seq.append(gen_answer(rng))       # the answer changes between two lookups (rebinding)
            dns[nm] = seq
    mode = "deliver"
    if n == 1 and rng.random() < 0.3:
        mode = "check"
    case = {"policy": rng.randrange(npol), "chain": chain, "codes": codes, "dns": dns, "mode": mode}
    if mode == "deliver" and rng.random() < 0.14:
        # the target's outbound signing cannot succeed: a delivery the policy denies is still a policy denial, one it allows fails unsent
        case["sign"] = rng.choice(["expired", "future", "missing-ref", "blank-headers"])
    return case


# --------------------------------------------------------------------------
# independent oracle for the rules (the property's reading of "matches")
# --------------------------------------------------------------------------

def rule_spec_match(rule, host, addrs):
    """(matches, via_mapped_notation)"""
    if not rule["is_cidr"]:
        d = rule["host"]
        if d == "" or host == "":
            return False, False
        if d == "*":
            return True, False
        if rule["sub"]:
            return host != d and host.endswith("." + d), False
        return host == d, False
    # the rule as written (netip's parse of the configured text), read as the property reads it:
    # an address/prefix in IPv4-mapped notation with >= 96 prefix bits names the embedded IPv4 block
    if rule.get("raw_ok"):
        fam, addr, bits = rule["raw_fam"], int(rule["raw_addr"], 16), rule["raw_bits"]
    else:
        fam, addr, bits = rule["fam"], int(rule["addr"], 16), rule["bits"]
    mapped = False
    if fam == 6 and MAPPED_LO <= addr <= MAPPED_HI and bits >= 96:
        fam, addr, bits, mapped = 4, addr - MAPPED_LO, bits - 96, True
    ln = 32 if fam == 4 else 128
    for a in addrs:
        d = denote(*a)
        if d is None or d[0] != fam:
            continue
        if (d[1] >> (ln - bits)) == (addr >> (ln - bits)):
            return True, mapped
    return False, False


SIMPLE_HOST_TEXT = re.compile(r"^(\*\.)?[a-z][a-z0-9-]*(\.[a-z][a-z0-9-]*)+$")


def text_rule_matches(t, host):
    """the rule AS WRITTEN in the configuration (only plain lower-case domain texts are judged here), independent of what compile made of it"""
    if not SIMPLE_HOST_TEXT.match(t):
        return None
    if t.startswith("*."):
        d = t[2:]
        return host != d and host.endswith("." + d)
    return host == t


def coq_bytes_of(s):
    return "[" + ";".join(str(b) for b in s) + "]"


def coq_rule(r):
    if r["is_cidr"]:
        if r.get("raw_ok"):     # as written; the model applies parseEgressRule's unmapping itself (crr = cr o compile_prefix)
            return "(crr %s %d %d)" % ("F4" if r["raw_fam"] == 4 else "F6", int(r["raw_addr"], 16), r["raw_bits"])
        return "(cr %s %d %d)" % ("F4" if r["fam"] == 4 else "F6", int(r["addr"], 16), r["bits"])
    return "(hr %s %s)" % (coq_bytes_of(r["host"].encode("latin-1")), C.coq_bool(r["sub"]))


def coq_policy(p):
    return "(mkpol %s %s %s [%s] [%s])" % (C.coq_bool(p["https_only"]), C.coq_bool(p["redirects"]), C.coq_bool(p["rebind"]),
                                          "; ".join(coq_rule(r) for r in p["allow"]), "; ".join(coq_rule(r) for r in p["deny"]))


def coq_dns(ans):
    if ans["err"]:
        return "DnsErr"
    items = []
    for h in ans["ips"]:
        if h == "nil":
            items.append("None")
        else:
            f, v = parse_hex_ip(h)
            items.append("Some " + ip_coq(f, v))
    return "(DnsOk [%s])" % "; ".join(items)


def coq_case(pi, case, hops):
    tbl = "; ".join("(%s, [%s])" % (coq_bytes_of(k.encode("latin-1")), "; ".join(coq_dns(a) for a in v)) for k, v in sorted(case["dns"].items()))
    hs = []
    for h in hops:
        lit = "None"
        if h["lit"]:
            f, v = parse_hex_ip(h["lit"])
            lit = "(Some %s)" % ip_coq(f, v)
        hs.append("rh %s %s %s" % (coq_bytes_of(h["scheme"].encode("latin-1")), coq_bytes_of(bytes.fromhex(h["hostname"])), lit))
    return "run_case P%d [%s] [%s]" % (pi, tbl, "; ".join(hs))


def eval_model(ctx, policies, items):
    """items: list of (policy index, case, usable hops).  Returns list of number lists."""
    per = min(500, max(1, (len(items) + 15) // 16))      # small shards: bounded memory per coqc, 16 at a time
    shards = []
    for i in range(0, len(items), per):
        chunk = items[i:i + per]
        used = sorted(set(pi for pi, _, _ in chunk))
        body = ["From Coq Require Import String List NArith.",
                "From HK Require Import Model.StrUtil Model.IpClass Model.Egress Model.EgressRun.",
                "Import ListNotations.", "Open Scope N_scope."]
        for pi in used:
            body.append("Definition P%d := %s." % (pi, coq_policy(policies[pi])))
        body.append("Definition R := Eval vm_compute in [\n %s]." % ";\n ".join(coq_case(pi, c, h) for pi, c, h in chunk))
        body.append("Print R.")
        shards.append("\n".join(body) + "\n")
    res = C.coq_eval_shards(ctx, "c16cases", shards)
    out = []
    for (rc, o), i in zip(res, range(0, len(items), per)):
        if rc != 0:
            return None, o[-1500:]
        flat = " ".join(o.split())
        m = re.search(r"R\s*=\s*\[(.*)\]\s*:\s*list \(list N\)", flat)
        if not m:
            return None, o[-800:]
        rows = [[int(x) for x in re.findall(r"\d+", part)] for part in re.findall(r"\[([0-9; ]*)\]", m.group(1))]
        if len(rows) != len(items[i:i + per]):
            return None, "row count %d != %d" % (len(rows), len(items[i:i + per]))
        out += rows
    return out, None


def to_ascii_host(h):
    """the name net/http connects to for a host spelled with non-ASCII letters (IDNA ToASCII, label by label; only labels on which
    IDNA 2003 and 2008 agree are generated)"""
    for dot in "\u3002\uff0e\uff61":          # the other full stops UTS #46 treats as label separators
        h = h.replace(dot, ".")
    h = h.strip().rstrip(".")
    if all(ord(ch) < 128 for ch in h):
        return h.lower()
    return ".".join(lbl.encode("idna").decode("ascii") if any(ord(ch) > 127 for ch in lbl) else lbl.lower() for lbl in h.split("."))


IDN_NAMES = ["b\u00fccher.example", "B\u00dcCHER.example", "xn--bcher-kva.example", "shop.b\u00fccher.example", "shop.xn--bcher-kva.example",
             "\u043f\u0440\u0438\u043c\u0435\u0440.example", "xn--e1afmkfd.example", "m\u00fcnchen.example", "plain.example",
             # spellings the IDNA mapping step (UTS #46: case folding, width, NFKC, ignored code points, other full stops) folds onto the
             # same name: fullwidth letters, a soft hyphen, a decomposed umlaut, an ideographic full stop
             "\uff50lain.example", "pla\u00adin.example", "bu\u0308cher.example", "plain\u3002example", "\uff22\u00dcCHER.example",
             # a trailing dot spelled as one of the other full stops: the mapping produces "name." - the same host
             "plain.example\uff0e", "plain.example\u3002", "b\u00fccher.example\uff61", "xn--bcher-kva.example\uff0e", "plain.example."]
IDN_RULES = ["xn--bcher-kva.example", "b\u00fccher.example", "*.xn--bcher-kva.example", "*.b\u00fccher.example", "xn--e1afmkfd.example",
             "\u043f\u0440\u0438\u043c\u0435\u0440.example", "plain.example", "plain.example\uff0e", "*.b\u00fccher.example\u3002"]


def idn_block(ctx, info, rng):
    """a host is the same host however it is spelled: net/http connects to the IDNA (punycode) form of a non-ASCII name, so a deny or
    allow rule written in either spelling must judge a target or redirect written in either spelling.  Judged by the property (rule
    and URL compared in ASCII form) and against the model on the ASCII forms (the IDNA conversion itself is glue outside the model)."""
    pol_in, cases = [], []
    for rule in IDN_RULES:
        pol_in.append({"https_only": "off", "redirects": "on", "rebind": "off", "allow": [], "deny": [rule]})
        pol_in.append({"https_only": "off", "redirects": "on", "rebind": "off", "allow": [rule], "deny": []})
    pol_in.append({"https_only": "off", "redirects": "on", "rebind": "on", "allow": [], "deny": ["xn--bcher-kva.example"]})
    dns_ok = {}
    for nm in IDN_NAMES:
        dns_ok[to_ascii_host(nm)] = [{"err": False, "ips": ["01010101"]}]
        dns_ok[nm.lower()] = [{"err": False, "ips": ["01010101"]}]
    for pi in range(len(pol_in)):
        for nm in IDN_NAMES:
            cases.append({"policy": pi, "chain": ["http://%s/x" % nm], "codes": [], "dns": dns_ok, "mode": "deliver"})
            cases.append({"policy": pi, "chain": ["http://plain.example/x", "http://%s/y" % nm], "codes": [rng.choice([301, 302, 307, 308])], "dns": dns_ok, "mode": "deliver"})
    rc, out, err = C.harness_run(info["hbin"], ["egress-run"], {"policies": pol_in, "cases": cases}, timeout=300)
    if rc != 0:
        raise RuntimeError("egress-run (IDN block) failed: " + err[-1500:])
    impl = json.loads(out)
    pols = impl["policies"]
    stats = {"cases": len(cases), "denied_expected": 0, "model_rows": 0, "model_mismatches": 0}

    def rule_hits(rule_text, host_ascii):
        sub = rule_text.startswith("*.")
        d = to_ascii_host(rule_text[2:] if sub else rule_text)
        return (host_ascii != d and host_ascii.endswith("." + d)) if sub else host_ascii == d

    items, idx = [], []
    for ci, (c, r) in enumerate(zip(cases, impl["cases"])):
        p_in = pol_in[c["policy"]]
        if not pols[c["policy"]]["ok"]:
            C.report(ctx, "idn:policy-rejected", "compile refuses the egress rule %r" % (p_in["allow"] + p_in["deny"]),
                     {"kind": "request", "policy": p_in, "observed": pols[c["policy"]]})
            continue
        hosts = [to_ascii_host(bytes.fromhex(h["hostname"]).decode("utf-8")) for h in r["hops"]]
        # the property's verdict, hop by hop
        sends = 0
        denied = False
        for h in hosts:
            hit_deny = any(rule_hits(t, h) for t in p_in["deny"])
            hit_allow = (not p_in["allow"]) or any(rule_hits(t, h) for t in p_in["allow"])
            if hit_deny or not hit_allow:
                denied = True
                break
            sends += 1
        stats["denied_expected"] += 1 if denied else 0
        got_sends = len(r["sent"])
        if got_sends != sends or (denied and r["err_class"] != "policy_denied") or (not denied and r["err_class"] != ""):
            hop = "redirect-hop" if len(hosts) > 1 else "target"
            kind = "deny-bypassed" if got_sends > sends and p_in["deny"] else ("allowlist-bypassed" if got_sends > sends else "refused-although-allowed")
            C.report(ctx, "idn:%s:%s" % (kind, hop),
                     "rule %r, chain %s (hosts in ASCII form %s): %d request(s) sent, error class %r; the policy %s after %d request(s) - net/http connects "
                     "to the ASCII (punycode) form of a host, a rule must judge that name however rule and URL are spelled" %
                     (p_in["allow"] + p_in["deny"], c["chain"], hosts, got_sends, r["err_class"], "denies the delivery" if denied else "allows every hop", sends),
                     {"kind": "request", "case": c, "policy": p_in, "compiled_policy": pols[c["policy"]], "observed": {k: r[k] for k in ("sent", "queries", "status", "err_class", "err_text")},
                      "expected": {"requests": sends, "denied": denied}})
        # the model on the ASCII forms (rules as compiled)
        try:
            for rl in pols[c["policy"]]["allow"] + pols[c["policy"]]["deny"]:
                if not rl["is_cidr"]:
                    rl["host"].encode("latin-1")
        except UnicodeEncodeError:
            continue
        hops = []
        for h, ha in zip(r["hops"], hosts):
            hh = dict(h)
            hh["hostname"] = ha.encode("ascii").hex()
            hops.append(hh)
        c2 = dict(c, dns={k: v for k, v in c["dns"].items() if all(ord(ch) < 128 for ch in k)})
        items.append((c["policy"], c2, hops))
        idx.append(ci)
    mres, merr = eval_model(ctx, pols, items)
    if mres is None:
        return stats, "IDN block: model could not be evaluated: " + (merr or "")
    for (pi, c, hops), ci, mr in zip(items, idx, mres):
        r = impl["cases"][ci]
        stats["model_rows"] += 1
        want = "" if mr[1] == 0 else ("policy_denied" if mr[1] <= 6 else "other")
        if len(r["sent"]) != mr[0] or r["err_class"] != want:
            stats["model_mismatches"] += 1
            C.report(ctx, "idn:model-differs", "chain %s under rules %s: implementation sent %d request(s) with error class %r, the model (ASCII forms) sends %d with outcome %d" %
                     (cases[ci]["chain"], pol_in[pi]["allow"] + pol_in[pi]["deny"], len(r["sent"]), r["err_class"], mr[0], mr[1]),
                     {"kind": "request", "case": cases[ci], "policy": pol_in[pi], "compiled_policy": pols[pi], "observed": {k: r[k] for k in ("sent", "err_class", "err_text")}})
    return stats, None


def decode_queries(nums):
    qs, i = [], 0
    while i < len(nums):
        n = nums[i]
        qs.append(bytes(nums[i + 1:i + 1 + n]).hex())
        i += 1 + n
    return qs


def hop_class(i):
    return "target" if i == 0 else "redirect"


def main(ctx, replay):
    rng = random.Random(ctx.seed)
    info = C.prologue(ctx)
    if info["hbin"] is None:
        raise C.HarnessBuildFailed(info.get("go_log", ""))
    cov = C.proof_coverage(info, "C16")
    assumptions = [
        "url.Parse/URL.Hostname/URL.Parse(Location) and netip.ParseAddr results are taken from Go and handed to the model (library = trusted base); the harness normalises the host itself only to ask ParseAddr, the hosts the real code asks the resolver for are compared with the model's",
        "the five address classes are judged by an independent RFC first/last-address oracle in the driver, and by the Coq spec (Model/IpSpec.v) in the theorems",
        "DNS answers may change between the check and the dial (the statement says 'at the time of the check'); not covered",
        "app.run()'s five-line EgressPolicy literal is repeated in the app shim (run() itself cannot be called); mapEgressRules is the real one",
    ]
    stats = {"ip_evals": 0, "ip_forbidden": 0}
    model_err = []

    n_ip, err = check_ip_classes(ctx, info, rng, stats)
    if err:
        model_err.append(err)

    # ---- policies and cases
    n_rand_pol = 60 if ctx.tier == "quick" else 1500
    n_cases = 1600 if ctx.tier == "quick" else 150000
    pol_in = FIXED_POLICIES + [gen_policy(rng) for _ in range(n_rand_pol)]
    cases = [gen_case(rng, len(pol_in), ctx.tier) for _ in range(n_cases)]
    # corpus: the shapes every run must contain
    corpus = [
        {"policy": 1, "chain": ["http://a.example/x", "http://b.example/y", "http://10.0.0.1/z", "http://c.example/"], "codes": [307, 302, 301],
         "dns": {"a.example": [{"err": False, "ips": ["01010101"]}], "b.example": [{"err": False, "ips": ["01010102"]}]}, "mode": "deliver"},
        {"policy": 1, "chain": ["http://rebind.example/x", "http://rebind.example/y"], "codes": [307],
         "dns": {"rebind.example": [{"err": False, "ips": ["01010101"]}, {"err": False, "ips": ["7f000001"]}]}, "mode": "deliver"},
        {"policy": 2, "chain": ["http://a.example/"] * 13, "codes": [307] * 12, "dns": {}, "mode": "deliver"},
        {"policy": 0, "chain": ["https://a.example/", "https://b.example/"], "codes": [302],
         "dns": {"a.example": [{"err": False, "ips": ["01010101"]}], "b.example": [{"err": False, "ips": ["01010101"]}]}, "mode": "deliver"},
        {"policy": 3, "chain": ["http://example.com/"], "codes": [], "dns": {"example.com": [{"err": False, "ips": ["01010101"]}]}, "mode": "deliver"},
        {"policy": 3, "chain": ["http://API.Example.com./"], "codes": [], "dns": {"api.example.com": [{"err": False, "ips": ["01010101"]}]}, "mode": "deliver"},
        {"policy": 8, "chain": ["http://[::ffff:8.8.8.8]/x"], "codes": [], "dns": {}, "mode": "deliver"},
        {"policy": 8, "chain": ["http://dns.example/x"], "codes": [], "dns": {"dns.example": [{"err": False, "ips": ["08080808"]}]}, "mode": "deliver"},
        {"policy": 9, "chain": ["http://10.0.0.1/x"], "codes": [], "dns": {}, "mode": "deliver"},
        {"policy": 10, "chain": ["http://8.8.8.8/x"], "codes": [], "dns": {}, "mode": "deliver"},
        {"policy": 10, "chain": ["http://[::ffff:8.8.8.9]/x"], "codes": [], "dns": {}, "mode": "deliver"},
        {"policy": 10, "chain": ["http://1.1.1.1/x"], "codes": [], "dns": {}, "mode": "deliver"},
        {"policy": 11, "chain": ["http://8.8.8.8/x"], "codes": [], "dns": {}, "mode": "deliver"},
        {"policy": 11, "chain": ["http://[::ffff:8.8.8.8]/x"], "codes": [], "dns": {}, "mode": "deliver"},
        {"policy": 11, "chain": ["http://[::fffe:808:808]/x"], "codes": [], "dns": {}, "mode": "deliver"},
        {"policy": 12, "chain": ["http://1.1.1.1/x"], "codes": [], "dns": {}, "mode": "deliver"},
        {"policy": 13, "chain": ["http://a.example/x", "http://b.example/y"], "codes": [307],
         "dns": {"a.example": [{"err": False, "ips": ["20010db8000000000000000000000001"]}], "b.example": [{"err": False, "ips": ["08080808"]}]}, "mode": "deliver"},
    ]
    dns_b = {"blocked.example": [{"err": False, "ips": ["08080808"]}], "api.blocked.example": [{"err": False, "ips": ["08080809"]}],
             "a.b.blocked.example": [{"err": False, "ips": ["0808080a"]}], "notblocked.example": [{"err": False, "ips": ["0808080b"]}]}
    for _pi in (14, 15, 16):
        for _u in ("http://blocked.example/x", "http://api.blocked.example/x", "http://a.b.blocked.example:8443/x", "http://API.Blocked.Example./x", "http://notblocked.example/x"):
            corpus.append({"policy": _pi, "chain": [_u], "codes": [], "dns": dns_b, "mode": "deliver"})
        corpus.append({"policy": _pi, "chain": ["http://notblocked.example/x", "http://api.blocked.example/y"], "codes": [307], "dns": dns_b, "mode": "deliver"})
    # one real PushDispatcher run per case class
    push = [
        {"policy": 1, "chain": ["http://127.0.0.1/x"], "codes": [], "dns": {}, "mode": "push", "_cls": "literal-loopback"},
        {"policy": 1, "chain": ["ftp://a.example/x"], "codes": [], "dns": {}, "mode": "push", "_cls": "scheme"},
        {"policy": 1, "chain": ["http://127.0.0.1/x"], "codes": [], "dns": {}, "mode": "push", "sign": "expired", "_cls": "literal-loopback+signing-expired"},
        {"policy": 4, "chain": ["http://evil.example/x"], "codes": [], "dns": {"evil.example": [{"err": False, "ips": ["08080808"]}]}, "mode": "push",
         "sign": "missing-ref", "_cls": "deny-host+signing-ref-unloadable"},
        {"policy": 0, "chain": ["http://a.example/x"], "codes": [], "dns": {"a.example": [{"err": False, "ips": ["01010101"]}]}, "mode": "push", "_cls": "https-only"},
        {"policy": 1, "chain": ["http://mixed.example/x"], "codes": [], "dns": {"mixed.example": [{"err": False, "ips": ["01010101", "0a000001"]}]}, "mode": "push", "_cls": "mixed-answers"},
        {"policy": 1, "chain": ["http://m.example/x"], "codes": [], "dns": {"m.example": [{"err": False, "ips": ["00000000000000000000ffff7f000001"]}]}, "mode": "push", "_cls": "mapped-loopback"},
        {"policy": 4, "chain": ["http://evil.example/x"], "codes": [], "dns": {"evil.example": [{"err": False, "ips": ["08080808"]}]}, "mode": "push", "_cls": "deny-host"},
        {"policy": 4, "chain": ["http://ok.example/x"], "codes": [], "dns": {"ok.example": [{"err": False, "ips": ["01010107"]}]}, "mode": "push", "_cls": "deny-cidr"},
        {"policy": 3, "chain": ["http://example.com/x"], "codes": [], "dns": {"example.com": [{"err": False, "ips": ["08080808"]}]}, "mode": "push", "_cls": "allowlist-apex"},
        {"policy": 1, "chain": ["http:///x"], "codes": [], "dns": {}, "mode": "push", "_cls": "empty-host"},
        {"policy": 1, "chain": ["http://a.example/x", "http://169.254.169.254/latest"], "codes": [302], "dns": {"a.example": [{"err": False, "ips": ["01010101"]}]}, "mode": "push", "_cls": "redirect-to-metadata"},
        {"policy": 1, "chain": ["http://ok.example/x"], "codes": [], "dns": {"ok.example": [{"err": False, "ips": ["01010101"]}]}, "mode": "push", "_cls": "allowed"},
        {"policy": 8, "chain": ["http://[::ffff:8.8.8.8]/x"], "codes": [], "dns": {}, "mode": "push", "_cls": "deny-mapped-notation"},
        {"policy": 1, "chain": ["http://nx.example/x"], "codes": [], "dns": {}, "mode": "push", "_cls": "lookup-error"},
        {"policy": 0, "chain": ["https://a.example/x", "https://b.example/y"], "codes": [307], "dns": {"a.example": [{"err": False, "ips": ["01010101"]}], "b.example": [{"err": False, "ips": ["01010101"]}]}, "mode": "push", "_cls": "redirects-off"},
    ]
    cases = corpus + push + cases
    rc, out, err = C.harness_run(info["hbin"], ["egress-run"],
                                 {"policies": pol_in, "cases": [{k: v for k, v in c.items() if not k.startswith("_")} for c in cases]}, timeout=600)
    if rc != 0:
        raise RuntimeError("egress-run failed: " + err[-2000:])
    impl = json.loads(out)
    pols = impl["policies"]
    n_pol_ok = sum(1 for p in pols if p["ok"])

    # ---- model on the usable cases
    items, idx = [], []
    dist = {"policies_compiled": n_pol_ok, "policies_rejected_by_compile": len(pols) - n_pol_ok, "cases": len(cases),
            "target_unparseable": 0, "location_unparseable": 0,
            "mapped_notation_rule_decisive": {"refused_by_deny": 0, "allowed_by_allow": 0, "not_in_mapped_allowlist": 0}, "chain_len": {}, "modes": {}, "model_outcome": {}, "sent_len": {}}
    for ci, (c, r) in enumerate(zip(cases, impl["cases"])):
        dist["modes"][c["mode"]] = dist["modes"].get(c["mode"], 0) + 1
        if not pols[c["policy"]]["ok"]:
            continue
        hops = r["hops"]
        if not hops[0]["parse_ok"]:
            dist["target_unparseable"] += 1
            # url.Parse refuses the target: nothing may be sent
            if r["sent"] or (c["mode"] != "push" and r["err_class"] == ""):
                C.report(ctx, "unparseable-target-sent", "a request was sent / no error for a target URL that url.Parse refuses",
                         {"kind": "request", "case": c, "observed": r})
            continue
        usable = []
        for h in hops:
            if not h["parse_ok"]:
                break
            usable.append(h)
        if len(usable) < len(hops):
            dist["location_unparseable"] += 1
            continue
        try:
            for h in usable:
                h["scheme"].encode("latin-1")
        except UnicodeEncodeError:
            continue
        items.append((c["policy"], c, usable))
        idx.append(ci)
        ln = min(len(usable), 11)
        dist["chain_len"][ln] = dist["chain_len"].get(ln, 0) + 1
    mres, merr = eval_model(ctx, pols, items)
    if mres is None:
        model_err.append("model could not be evaluated: " + merr)
        mres = [None] * len(items)

    evaluations = stats["ip_evals"]
    mism = 0
    nontrivial = set()
    samples = []
    for (pi, c, hops), ci, mr in zip(items, idx, mres):
        r = impl["cases"][ci]
        p = pols[pi]
        evaluations += 1
        n_chain = len(hops)
        sent = r["sent"]
        problems = []
        key = None

        def bad(k, msg):
            nonlocal key
            problems.append(msg)
            if key is None:
                key = k

        # ---------- property predicates on what the implementation did (independent of the model)
        need_ips = p["rebind"] or any(x["is_cidr"] for x in p["allow"] + p["deny"])
        if len(sent) > n_chain or [h["abs"] for h in hops[:len(sent)]] != sent:
            bad("sent-not-a-chain-prefix", "requests sent %s are not a prefix of the redirect chain %s" % (sent, [h["abs"] for h in hops]))
        if not p["redirects"] and len(sent) > 1:
            bad("redirect-followed-while-off", "redirects are off but %d requests were sent" % len(sent))
        if len(sent) > 10:
            bad("hop-limit", "%d requests sent for one delivery" % len(sent))
        # walk the hops the implementation contacted, replaying the resolver script in query order
        counts, qi = {}, 0
        queries = r["queries"]
        refused = 1 if (r["err_class"] == "policy_denied" or r.get("dead_reason") == "policy_denied") else 0
        for i in range(min(len(sent) + refused, n_chain)):
            h = hops[i]
            sch = h["scheme"].lower()
            hostname = bytes.fromhex(h["hostname"]).decode("latin-1")
            host = py_norm_host(hostname)
            if i >= len(sent):
                # the hop the implementation refused: only measure whether a rule in IPv4-mapped notation decided it
                addrs = []
                if need_ips and sch in ("http", "https") and host != "" and not (p["https_only"] and sch != "https"):
                    if h["lit"]:
                        addrs = [parse_hex_ip(h["lit"])]
                    else:
                        seq = c["dns"].get(host)
                        if seq:
                            a = seq[min(counts.get(host, 0), len(seq) - 1)]
                            addrs = [] if a["err"] else [parse_hex_ip(x) for x in a["ips"] if x != "nil"]
                    ok_ips = (not p["rebind"]) or all(spec_classes(*a) == [] and denote(*a) != (4, 0xFFFFFFFF) for a in addrs)
                    if addrs and ok_ips:
                        ms = [rule_spec_match(rule, host, addrs) for rule in p["deny"]]
                        if any(m and vm for m, vm in ms) and not any(m and not vm for m, vm in ms):
                            dist["mapped_notation_rule_decisive"]["refused_by_deny"] += 1
                        elif not any(m for m, _ in ms) and p["allow"] and not any(rule_spec_match(rule, host, addrs)[0] for rule in p["allow"]) \
                                and any(rule.get("raw_ok") and rule["raw_fam"] == 6 and MAPPED_LO <= int(rule["raw_addr"], 16) <= MAPPED_HI for rule in p["allow"]):
                            dist["mapped_notation_rule_decisive"]["not_in_mapped_allowlist"] += 1
                break
            if sch not in ("http", "https"):
                bad("scheme:%s" % hop_class(i), "request sent to scheme %r (hop %d)" % (h["scheme"], i))
            if p["https_only"] and sch != "https":
                bad("https-only:%s" % hop_class(i), "https_only is on but a request went to %r (hop %d)" % (h["abs"], i))
            if host == "":
                bad("empty-host:%s" % hop_class(i), "request sent to an empty host (hop %d)" % i)
            addrs = []
            if need_ips:
                if h["lit"]:
                    addrs = [parse_hex_ip(h["lit"])]
                else:
                    seq = c["dns"].get(host)
                    k = counts.get(host, 0)
                    counts[host] = k + 1
                    if qi < len(queries):
                        qi += 1
                    if seq:
                        a = seq[min(k, len(seq) - 1)]
                        addrs = [] if a["err"] else [parse_hex_ip(x) for x in a["ips"] if x != "nil"]
                    if not addrs:
                        bad("sent-without-address:%s" % hop_class(i), "request sent although the lookup failed / returned no address (hop %d)" % i)
            if p["rebind"]:
                for a in addrs:
                    sc = spec_classes(*a)
                    if sc is None or sc:
                        bad("rebind:%s:%s" % (hop_class(i), (sc or ["odd-length"])[0]),
                            "request sent to %r which resolved to %s address %s (hop %d)" % (h["abs"], "/".join(sc or ["odd-length"]), ip_hex(*a), i))
            for t in pol_in[pi].get("deny") or []:
                if text_rule_matches(t, host):
                    bad("deny-ignored-as-written:%s" % hop_class(i), "request sent to %r although the configured deny rule %r matches its host (hop %d); compiled deny rules: %s"
                        % (h["abs"], t, i, [(r.get("host"), r.get("sub")) for r in p["deny"] if not r["is_cidr"]]))
            for rule in p["deny"]:
                m, via_mapped = rule_spec_match(rule, host, addrs)
                if m:
                    if via_mapped:
                        bad("deny-rule-in-ipv4-mapped-notation-never-matches",
                            "request sent to %r although deny rule %r (IPv4-mapped notation) covers its address (hop %d)" % (h["abs"], rule.get("text"), i))
                    else:
                        bad("deny-ignored:%s" % hop_class(i), "request sent to %r although a deny rule matches (hop %d): %s" % (h["abs"], i, rule))
            if p["allow"]:
                ms = [rule_spec_match(rule, host, addrs) for rule in p["allow"]]
                if not any(m for m, _ in ms):
                    bad("allowlist-open:%s" % hop_class(i), "request sent to %r which matches no allow rule (hop %d)" % (h["abs"], i))
                elif not any(m and not vm for m, vm in ms):
                    dist["mapped_notation_rule_decisive"]["allowed_by_allow"] += 1
        if c["mode"] == "push":
            denied_at = None
            if mr is not None and 1 <= mr[1] <= 6:
                denied_at = mr[0]
            if denied_at is not None:
                if r.get("state") != "dead" or r.get("dead_reason") != "policy_denied":
                    bad("push:not-dead-lettered:%s" % c.get("_cls"), "denied delivery ended as state=%s reason=%s" % (r.get("state"), r.get("dead_reason")))
                if r.get("attempts") != 1 or r.get("outcomes") != ["dead"]:
                    bad("push:retried:%s" % c.get("_cls"), "denied delivery was attempted %s times: %s" % (r.get("attempts"), r.get("outcomes")))
                if len(sent) != denied_at:
                    bad("push:sent:%s" % c.get("_cls"), "denied delivery: %d requests sent, %d expected" % (len(sent), denied_at))
            elif mr is not None and r.get("dead_reason") == "policy_denied":
                bad("push:policy-denied-without-denial:%s" % c.get("_cls"), "dead-lettered as policy_denied although the policy allows every hop")
            if r.get("timed_out"):
                bad("push:timeout", "dispatcher did not drain")
            nontrivial.add(("push", c.get("_cls")))

        # ---------- correspondence with the model
        if mr is not None:
            m_n, m_out = mr[0], mr[1]
            m_queries = decode_queries(mr[2:])
            dist["model_outcome"][m_out] = dist["model_outcome"].get(m_out, 0) + 1
            dist["sent_len"][min(m_n, 11)] = dist["sent_len"].get(min(m_n, 11), 0) + 1
            if c["mode"] == "check":
                want = "" if m_out == 0 else ("policy_denied" if m_out <= 6 else "other")
                if r["err_class"] != want:
                    mism += 1
                    bad("verdict:%s" % ("allowed-by-code" if r["err_class"] == "" else "refused-by-code"),
                        "checkEgressPolicyURL says %r, model says outcome %d" % (r["err_class"] or "allow", m_out))
            elif c.get("sign"):
                denied0 = (m_n == 0 and 1 <= m_out <= 6)
                dist["sign_fail_cases"] = dist.get("sign_fail_cases", 0) + 1
                dist["sign_fail_denied"] = dist.get("sign_fail_denied", 0) + (1 if denied0 else 0)
                if sent:
                    bad("sent-unsigned:%s" % c["sign"], "a request was sent although the target's signing cannot succeed (%s)" % c["sign"])
                if c["mode"] == "deliver":
                    want = "policy_denied" if denied0 else "other"
                    if r["err_class"] != want:
                        bad("denied-but-not-policy-denied:%s" % c["sign"] if denied0 else "result-class-signing",
                            "the policy %s the target and its signing fails (%s): Deliver returned error class %r, want %r - a denied delivery is "
                            "dead-lettered as policy_denied without retry whatever else is wrong with it" % ("DENIES" if denied0 else "allows", c["sign"], r["err_class"], want))
                else:
                    if denied0 and (r.get("state") != "dead" or r.get("dead_reason") != "policy_denied" or r.get("outcomes") != ["dead"]):
                        bad("push:denied-but-not-policy-denied:%s" % c["sign"], "denied delivery with failing signing ended as state=%s reason=%s outcomes=%s" %
                            (r.get("state"), r.get("dead_reason"), r.get("outcomes")))
                if m_n == 0 and r["queries"] != m_queries:
                    bad("resolver-queries", "resolver was asked %s, model asks %s" % (r["queries"], m_queries))
                if not problems:
                    nontrivial.add(C.sha({"p": pols[pi], "chain": c["chain"], "dns": c["dns"], "mode": c["mode"], "sign": c["sign"]}))
            else:
                if len(sent) != m_n:
                    mism += 1
                    bad("sent-%s:%s" % ("more" if len(sent) > m_n else "less", hop_class(min(len(sent), m_n))),
                        "%d requests sent, model sends %d" % (len(sent), m_n))
                if c["mode"] == "deliver":
                    want = "" if m_out == 0 else ("policy_denied" if m_out <= 6 else "other")
                    if r["err_class"] != want:
                        mism += 1
                        bad("result-class", "Deliver returned error class %r, model outcome %d" % (r["err_class"], m_out))
                    if m_out == 0 and r["err_class"] == "":
                        exp_status = 200 if m_n == n_chain else (c["codes"][m_n - 1] if m_n - 1 < len(c["codes"]) else 307)
                        if r["status"] != exp_status:
                            mism += 1
                            bad("status", "Deliver returned status %d, expected %d" % (r["status"], exp_status))
            exp_queries = m_queries * max(1, r.get("attempts") or 1) if c["mode"] == "push" else m_queries
            if not c.get("sign") and r["queries"] != exp_queries:
                mism += 1
                bad("resolver-queries", "resolver was asked %s, model asks %s" % (
                    [bytes.fromhex(x).decode("latin-1") for x in r["queries"]], [bytes.fromhex(x).decode("latin-1") for x in m_queries]))
            if m_out != 0 or m_n > 1 or p["allow"] or p["deny"]:
                nontrivial.add(C.sha({"p": pols[pi], "chain": c["chain"], "dns": c["dns"], "mode": c["mode"]}))
        if problems:
            C.report(ctx, key, "; ".join(problems[:4]),
                     {"kind": "request", "case": {k: v for k, v in c.items()}, "policy": pol_in[pi], "compiled_policy": p,
                      "observed": {k: r[k] for k in ("sent", "queries", "status", "err_class", "err_text", "state", "dead_reason", "attempts", "outcomes") if k in r},
                      "expected": None if mr is None else {"model_requests": mr[0], "model_outcome": mr[1], "model_queries": decode_queries(mr[2:])},
                      "problems": problems, "how_to_replay": "./check C16 --replay <this file>"})
        elif len(samples) < 8 and rng.random() < 0.004:
            samples.append({"case": c, "policy": pol_in[pi], "observed": {"sent": r["sent"], "err_class": r["err_class"], "status": r["status"]}})

    # a reload that changes the egress policy must be refused as "restart required" (the deliverer keeps the policy it was built with):
    # lib/restartclass.py, including rule lists that hold one rule twice in different spellings
    from lib import restartclass
    dist.update(restartclass.run(ctx, info))
    idn_stats, idn_err = idn_block(ctx, info, rng)
    dist["idn"] = idn_stats
    evaluations += idn_stats["cases"]
    mism += idn_stats["model_mismatches"]
    if idn_err:
        model_err.append(idn_err)
    proof_broken = C.proof_status(info, "C16") + model_err
    cov.update({
        "evaluations": evaluations,
        "distinct_nontrivial": len(nontrivial),
        "rule": "distinct (compiled policy, chain, resolver script, mode) cases in which a hop was refused, a redirect was followed, or an allow/deny rule list was in force; plus one per PushDispatcher case class. Address-class evaluations (%d addresses: first/last/±1 of every block in v4, mapped and v4-compatible form, v6 blocks, odd lengths, random) are counted in evaluations only." % stats["ip_evals"],
        "samples": samples or [{"case": cases[0]}],
        "traces_validated_against_impl": len(items),
        "model_impl_mismatches": mism,
        "input_distribution": dict(dist, ip_addresses=stats["ip_evals"], ip_in_forbidden_class=stats["ip_forbidden"]),
    })
    return C.conclude(ctx, info, cov, assumptions, proof_broken=proof_broken,
                      searched_note="generated URL x resolver-script x policy cases and address sweeps showed no property failure")
