"""C02 - queue family check (see lib/queuefam.py) + the state machine tied to the Go sources by translation
(translate/transitions.go -> coq/Gen/Transitions.v, Properties/C02trans.v, lib/c02trans.py)."""
from lib import c02trans, queuefam


def main(ctx, replay):
    return queuefam.run_property(ctx, "C02", 150, 3000, extra=c02trans.run, extra_prop_files=("C02trans",))
