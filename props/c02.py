"""C02 - queue family check (see lib/queuefam.py)."""
from lib import queuefam


def main(ctx, replay):
    return queuefam.run_property(ctx, "C02", 150, 3000)
