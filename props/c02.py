"""C02 - queue family check (see lib/queuefam.py) + the state machine tied to the Go sources by translation
(translate/transitions.go -> coq/Gen/Transitions.v, Properties/C02trans.v, lib/c02trans.py) + two processes on one SQLite file."""
from lib import c02trans, queuefam


def extra(ctx, info, rng, fam, hs):
    cov = c02trans.run(ctx, info, rng, fam, hs) or {}
    # leased -> queued only by nack or lease expiry: a late lease operation of one process must not put back a message another process
    # has just been handed under a running lease (lib/twostores.py, also run from C03 and C04)
    from lib import twostores
    cov.update(twostores.run_relet(ctx, info))
    return cov


def main(ctx, replay):
    return queuefam.run_property(ctx, "C02", 150, 3000, extra=extra, extra_prop_files=("C02trans",))
