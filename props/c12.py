"""C12 - admission limits: depth and drop policy (queue family) + size limits and rate limit (lib/c12rl.py)."""
from lib import queuefam


def extra(ctx, info, rng, fam, hs):
    try:
        from lib import c12rl
    except ImportError:
        return {"rate_limit_module": "absent"}
    frag = c12rl.run(ctx, info, rng)
    from lib import c12pub
    frag.update(c12pub.run(ctx, info, rng))
    frag.update(depth_race(ctx, info))
    # "the oldest queued message" when received_at lies outside the int64 nanosecond range (before 1678, after 2262), both stores
    from props import c05
    frag.update(c05.schedule_horizon(ctx, info, rng))
    return frag


def depth_race(ctx, info):
    """concurrent enqueues into a queue that was full, was told so, and has just had slots freed (reject policy): per trial exactly as many
    racers are stored as slots were free, the others get ErrQueueFull, the active count stays within max_depth (lib: harness mode depth-race)"""
    import json
    import os
    from lib import common as C
    trials = 60 if ctx.tier == "quick" else 600
    out_rows = []
    for k, (depth, free, g) in enumerate(((2, 1, 8), (4, 2, 16), (1, 1, 8), (8, 3, 24))):
        d = os.path.join(ctx.scratch, "depthrace-%d" % k)
        os.makedirs(d, exist_ok=True)
        rc, out, err = C.harness_run(info["hbin"], ["depth-race"], {"dir": d, "backends": ["memory", "sqlite"], "trials": trials, "goroutines": g,
                                                                    "depth": depth, "free": free}, timeout=600)
        if rc != 0:
            raise RuntimeError("depth-race failed: " + err[-1500:])
        for r in json.loads(out)["rows"]:
            if r.get("err"):
                raise RuntimeError("depth-race (%s): %s" % (r["backend"], r["err"]))
            out_rows.append(dict(r, depth=depth, free=free, goroutines=g))
            if r["first_bad_trial"] >= 0 or r["other_errors"]:
                C.report(ctx, "depth-race:%s" % r["backend"],
                         "%d goroutines enqueue at once into a %s queue of max_depth %d (reject) that had been full and then had %d slot(s) freed: in one trial %d "
                         "were stored (between %d and %d over %d trials) and the active count reached %d; exactly %d may be stored and active stays <= %d "
                         "(%d answers were neither success nor queue-full)" % (g, r["backend"], depth, free, r["max_stored"], r["min_stored"], r["max_stored"], r["trials"],
                                                                             r["max_active"], free, depth, r["other_errors"]),
                         {"kind": "schedule", "case": {"backend": r["backend"], "max_depth": depth, "freed_slots": free, "goroutines": g, "trials": r["trials"],
                                                        "calls": ["fill to max_depth", "Enqueue -> ErrQueueFull", "Dequeue+Ack %d" % free, "%d x Enqueue concurrently" % g]},
                          "observed": r, "how_to_replay": "./check C12 --replay <this file> (a schedule: repeated trials)"})
    return {"depth_race": {"configs": len(out_rows), "trials_each": trials, "rows": [{k: r[k] for k in ("backend", "depth", "free", "goroutines", "max_stored", "max_active")} for r in out_rows]}}


def main(ctx, replay):
    return queuefam.run_property(ctx, "C12", 200, 3000, extra=extra, extra_prop_files=("C12rl",))
