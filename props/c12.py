"""C12 - admission limits: depth and drop policy (queue family) + size limits and rate limit (lib/c12rl.py)."""
from lib import queuefam


def extra(ctx, info, rng, fam, hs):
    try:
        from lib import c12rl
    except ImportError:
        return {"rate_limit_module": "absent"}
    frag = c12rl.run(ctx, info, rng)
    from lib import c12pub
    frag.update(c12pub.run(ctx, info, rng))
    return frag


def main(ctx, replay):
    return queuefam.run_property(ctx, "C12", 200, 3000, extra=extra, extra_prop_files=("C12rl",))
