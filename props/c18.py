"""C18 - configuration changes apply atomically or not at all.

(a) failed reload changes nothing       real reloadConfig + injected failures, decision fingerprint
(b) atomic visibility                   reload forced between two locked accessors of one request, and requests
                                        run inside reloadConfig's own window (sync point via overlay copy of run.go)
(c) file replacement                    real writeFileAtomic under strace -> Coq replace_ok; SIGKILL at every syscall
(d) validated mutation with roll-back   real mutateManagedEndpointConfig / config_apply / management_endpoint_*
"""
import base64
import concurrent.futures
import itertools
import json
import os
import random
import shutil
import re
import subprocess

from lib import common as C

# ---------------------------------------------------------------------------
# source lint: the facts about run.go that Model/Reload.v encodes
# ---------------------------------------------------------------------------

# Coq callback constructor and fields (Model/Reload.v fields_of) per runtimeState accessor
ACCESSORS = {
    "resolveIngress": ("CResolveIngress", {"routes"}),
    "allowedMethodsFor": ("CAllowedMethods", {"routes"}),
    "allowIngress": ("CAllowIngress", {"ingressRouteLimits", "ingressGlobalLimit"}),
    "allowIngressEnqueue": ("CAllowEnqueue", {"adaptiveController"}),
    "basicAuthFor": ("CBasicAuth", {"basicByRoute"}),
    "limitsFor": ("CLimits", {"routes"}),
    "forwardAuthFor": ("CForwardAuth", {"forwardByRoute"}),
    "hmacAuthFor": ("CHmacAuth", {"hmacByRoute"}),
    "targetsFor": ("CTargets", {"routes"}),
    "authorizePull": ("CAuthorizePull", {"pullAuthorize", "pullByRoute", "pathToRoute"}),
    "resolvePull": ("CResolvePull", {"pathToRoute"}),
    "authorizeWorker": ("CAuthorizeWorker", {"workerAuthorize", "workerByRoute", "pathToRoute"}),
    "authorizeAdmin": ("CAuthorizeAdmin", {"adminAuthorize"}),
}
# one field list per critical section (Model/Reload.v auth_fields / table_fields); retiredHMAC is the
# nonce-cache annex of hmacByRoute (no accessor reads it)
AUTH_WRITES = {"pullAuthorize", "workerAuthorize", "adminAuthorize", "pullByRoute", "workerByRoute",
               "basicByRoute", "forwardByRoute", "hmacByRoute"}
TABLE_WRITES = {"routes", "pathToRoute", "trendSignals", "adaptiveBackpressure", "ingressGlobalLimit", "ingressRouteLimits"}
RELOAD_ORDER = ["os.ReadFile", "config.Parse", "config.Compile", "requiresRestartForReload", "state.loadAuthAnd", "state.updateAllLocked"]
INGRESS_WIRING = {"ResolveRoute": "resolveIngress", "AllowedMethodsFor": "allowedMethodsFor", "AllowRequestFor": "allowIngress",
                  "AllowEnqueueFor": "allowIngressEnqueue", "BasicAuthFor": "basicAuthFor", "ForwardAuthFor": "forwardAuthFor",
                  "HMACAuthFor": "hmacAuthFor", "LimitsFor": "limitsFor", "TargetsFor": "targetsFor"}
# order in which ServeHTTP consults them (Model/Reload.v ingress_request)
SERVE_ORDER = ["resolveRoute", "AllowRequestFor", "AllowEnqueueFor", "BasicAuthFor", "LimitsFor", "ForwardAuthFor", "HMACAuthFor", "TargetsFor"]


def func_body(src, header_re):
    m = re.search(header_re, src, flags=re.M)
    if not m:
        return None
    i = src.index("{", m.end() - 1) if src[m.end() - 1] != "{" else m.end() - 1
    j = src.find("\n}\n", i)
    return src[i:j + 2] if j > 0 else None


def lint_source():
    """Returns list of discrepancies between run.go / http.go and what the Coq model says about them."""
    problems = []
    src = open(os.path.join(C.REPO, "internal", "app", "run.go")).read()
    for name, (_, fields) in ACCESSORS.items():
        body = func_body(src, r"^func \(s \*runtimeState\) %s\(.*\{$" % name)
        if body is None:
            problems.append("accessor %s not found" % name)
            continue
        got = set(re.findall(r"\bs\.(\w+)", body)) - {"mu", "now"}
        if got != fields:
            problems.append("accessor %s reads %s, model says %s" % (name, sorted(got), sorted(fields)))
        if len(re.findall(r"s\.mu\.RLock\(\)", body)) != 1 or "s.mu.Lock()" in body:
            problems.append("accessor %s does not take the read lock exactly once" % name)
    la = func_body(src, r"^func \(s \*runtimeState\) loadAuthAnd\(.*\{$")
    if la is None:
        problems.append("loadAuthAnd not found (reload is no longer one critical section built by loadAuthAnd + alsoLocked)")
    else:
        if la.count("s.mu.Lock()") != 1 or la.count("s.mu.Unlock()") != 1:
            problems.append("loadAuthAnd does not have exactly one critical section")
        else:
            pre, crit = la.split("s.mu.Lock()")
            crit, post = crit.split("s.mu.Unlock()")
            w = set(re.findall(r"\bs\.(\w+)\s*=[^=]", crit)) - {"retiredHMAC"}
            if w != AUTH_WRITES:
                problems.append("loadAuthAnd's critical section assigns %s, model says %s" % (sorted(w), sorted(AUTH_WRITES)))
            if re.search(r"\bs\.(\w+)\s*=[^=]", pre):
                problems.append("loadAuthAnd assigns a state field before taking the lock")
            if "return fmt.Errorf" in crit or "return err" in crit or "return fmt.Errorf" in post:
                problems.append("loadAuthAnd has a failure exit inside or after its critical section")
            if "alsoLocked()" not in crit:
                problems.append("loadAuthAnd does not run alsoLocked inside its critical section")
    l1 = func_body(src, r"^func \(s \*runtimeState\) loadAuth\(.*\{$")
    if l1 is None or "return s.loadAuthAnd(compiled, nil)" not in l1 or "s.mu" in l1:
        problems.append("loadAuth is not loadAuthAnd(compiled, nil)")
    ua = func_body(src, r"^func \(s \*runtimeState\) updateAll\(.*\{$")
    ual = func_body(src, r"^func \(s \*runtimeState\) updateAllLocked\(.*\{$")
    cl = func_body(src, r"^func \(s \*runtimeState\) configureIngressRateLimits\(.*\{$")
    if ua is None or ual is None or cl is None:
        problems.append("updateAll/updateAllLocked/configureIngressRateLimits not found")
    else:
        w = set(re.findall(r"\bs\.(\w+)\s*=[^=]", ual)) | set(re.findall(r"\bs\.(\w+)\s*=[^=]", cl))
        if w != TABLE_WRITES:
            problems.append("updateAllLocked assigns %s, model says %s" % (sorted(w), sorted(TABLE_WRITES)))
        if "s.mu." in ual or "s.mu." in cl or "s.configureIngressRateLimits(compiled)" not in ual:
            problems.append("updateAllLocked takes the lock itself or does not configure the limiters")
        if "s.adaptiveController.updateConfig(" not in ual or len(re.findall(r"\.updateConfig\(", src)) != 1:
            problems.append("the admission controller's settings are not (only) updated inside updateAllLocked (model: part of the single write, field FAdaptive)")
        if ua.count("s.mu.Lock()") != 1 or "s.updateAllLocked(compiled)" not in ua:
            problems.append("updateAll is not Lock + updateAllLocked")
    rc = func_body(src, r"^func reloadConfig\(.*\{$")
    if rc is None:
        problems.append("reloadConfig not found")
    else:
        calls = re.findall(r"\b(os\.ReadFile|config\.Parse|config\.Compile|requiresRestartForReload|state\.\w+)\(", rc)
        if calls != RELOAD_ORDER:
            problems.append("reloadConfig performs %s, model (reload_prog) says %s" % (calls, RELOAD_ORDER))
        if "state.loadAuthAnd(compiled, func() { state.updateAllLocked(compiled) })" not in rc:
            problems.append("reloadConfig does not publish both halves through loadAuthAnd(compiled, func() { state.updateAllLocked(compiled) })")
    ss = func_body(src, r"^func startServers\($") or src
    wiring = dict(re.findall(r"\bing\.(\w+) = state\.(\w+)\b", ss))
    if wiring != INGRESS_WIRING:
        problems.append("startServers wires ingress callbacks %s, harness shim wires %s" % (wiring, INGRESS_WIRING))
    hs = open(os.path.join(C.REPO, "internal", "ingress", "http.go")).read()
    sv = func_body(hs, r"^func \(s \*Server\) ServeHTTP\(.*\{$") or ""
    order = []
    for m in re.finditer(r"s\.(resolveRoute|AllowRequestFor|AllowEnqueueFor|BasicAuthFor|LimitsFor|ForwardAuthFor|HMACAuthFor|TargetsFor)\(", sv):
        if m.group(1) not in order:
            order.append(m.group(1))
    if order != SERVE_ORDER:
        problems.append("ServeHTTP consults %s, model (ingress_request) says %s" % (order, SERVE_ORDER))
    return problems


# ---------------------------------------------------------------------------
# overlay copy of run.go with sync points after every call on `state` in reloadConfig
# ---------------------------------------------------------------------------

def rewrite_run_go(ctx):
    """DESIGN section 7: a copy of run.go that differs from the source only by inserted verifSync(...) lines:
    "after-<m>" after every statement of reloadConfig that calls state.<m>(...) (between two of them a request can
    run: a window), and "before-alsoLocked" inside loadAuthAnd's critical section between the assignment of the
    authenticator fields and the call that assigns the route-table half (no request may run there).
    Returns (path, after_points, has_inlock_point)."""
    path = os.path.join(C.REPO, "internal", "app", "run.go")
    src = open(path).read()
    m = re.search(r"^func reloadConfig\(.*\{$", src, flags=re.M)
    if not m:
        return None, [], False, False
    end = src.find("\n}\n", m.end())
    body = src[m.end():end].split("\n")
    out, points, i = [], [], 0
    while i < len(body):
        line = body[i]
        out.append(line)
        mm = re.match(r"^(\t+)(if err := )?state\.(\w+)\(.*$", line)
        if mm:
            indent, is_if, name = mm.group(1), mm.group(2), mm.group(3)
            if is_if:
                j = i + 1
                while j < len(body) and body[j] != indent + "}":
                    out.append(body[j])
                    j += 1
                if j == len(body):
                    return None, [], False, False
                out.append(body[j])
                i = j
            out.append('%sverifSync("after-%s")' % (indent, name))
            points.append("after-" + name)
        i += 1
    new = src[:m.end()] + "\n".join(out) + src[end:]
    inlock = prelock = False
    ml = re.search(r"^func \(s \*runtimeState\) loadAuthAnd\(.*\{$", new, flags=re.M)
    if ml:
        e2 = new.find("\n}\n", ml.end())
        k = new.find("\n\tif alsoLocked != nil {\n", ml.end(), e2)
        lock = new.find("s.mu.Lock()", ml.end(), e2)
        if k > 0 and 0 < lock < k:
            new = new[:k] + '\n\tverifSync("before-alsoLocked")' + new[k:]
            inlock = True
        lock = new.find("\n\ts.mu.Lock()\n", ml.end(), new.find("\n}\n", ml.end()))
        if lock > 0:
            new = new[:lock] + '\n\tverifSync("before-lock")' + new[lock:]
            prelock = True
    # self-test: deleting the inserted lines gives the source back
    back = "\n".join(l for l in new.split("\n") if not re.match(r'^\t+verifSync\("[\w-]+"\)$', l))
    if back != src or not points:
        return None, [], False, False
    dst = os.path.join(ctx.scratch, "run_sync.go")
    open(dst, "w").write(new)
    return dst, points, inlock, prelock


# ---------------------------------------------------------------------------
# configuration texts
# ---------------------------------------------------------------------------

def route(path, auth="none", max_body=None, rate=None, pull_path=None, tokens=None, app=None, ep=None,
          match=None, publish=None, extra=""):
    ls = ['"%s" {' % path]
    if app:
        ls.append('  application "%s"' % app)
        ls.append('  endpoint_name "%s"' % ep)
    if match:
        ls.append("  match { %s }" % match)
    if rate:
        ls.append("  rate_limit { rps %s burst %s }" % (rate[0], rate[1]))
    if auth == "basic":
        ls.append('  auth basic "u" "p"')
    elif auth == "forward":
        ls.append('  auth forward "__FWD__"')
    elif auth == "hmac":
        ls.append('  auth hmac "raw:sec-hmac"')
    elif auth.startswith("hmac:"):
        ls.append('  auth hmac "%s"' % auth[5:])
    elif auth.startswith("hmacref:"):
        ls.append('  auth hmac secret_ref "%s"' % auth[8:])
    if max_body:
        ls.append("  max_body %s" % max_body)
    if publish:
        ls.append("  publish { %s }" % publish)
    if extra:
        ls.append("  " + extra)
    pp = pull_path or ("/pull" + path)
    if tokens:
        ls.append("  pull {\n    path %s\n%s  }" % (pp, "".join('    auth token "%s"\n' % t for t in tokens)))
    else:
        ls.append("  pull { path %s }" % pp)
    ls.append("}")
    return "\n".join(ls)


# admission-controller / trend settings of the running configurations and of the reloadable delta
RUN_DEFAULTS = """adaptive_backpressure {
    enabled on
    min_total 200
    queued_percent 90
    ready_lag 1h
    oldest_queued_age 2h
    sustained_growth off
  }
  trend_signals {
    window 15m
  }"""
TREND_DEFAULTS = """adaptive_backpressure {
    enabled on
    min_total 1
    queued_percent 95
    ready_lag 1h
    oldest_queued_age 1h
    sustained_growth on
  }
  trend_signals {
    window %s
    expected_capture_interval 1m
    stale_grace_factor 3
    sustained_growth_consecutive 3
    sustained_growth_min_samples 5
    sustained_growth_min_delta 10
  }"""
DELTA_DEFAULTS = """adaptive_backpressure {
    enabled on
    min_total 4
    queued_percent 50
    ready_lag 30s
    oldest_queued_age 60s
    sustained_growth off
  }
  trend_signals {
    window 5m
    recent_surge_percent 40
  }"""


def config(routes, ingress=':18080', pull_listen=':19443', pull_tokens=("raw:pt-global",), admin_listen="127.0.0.1:19444",
           admin_tokens=("raw:adm-1",), pull_extra="", admin_extra="", ingress_extra="", top="", defaults=RUN_DEFAULTS, defaults_extra=""):
    ls = ["# verif C18", "ingress {", '  listen "%s"' % ingress]
    if ingress_extra:
        ls.append("  " + ingress_extra)
    ls += ["}", "pull_api {", '  listen "%s"' % pull_listen]
    ls += ['  auth token "%s"' % t for t in pull_tokens]
    if pull_extra:
        ls.append("  " + pull_extra)
    ls += ["}", "admin_api {", '  listen "%s"' % admin_listen]
    ls += ['  auth token "%s"' % t for t in admin_tokens]
    if admin_extra:
        ls.append("  " + admin_extra)
    ls.append("}")
    if defaults or defaults_extra:
        ls.append("defaults {\n  " + "\n  ".join(x for x in (defaults, defaults_extra) if x) + "\n}")
    if top:
        ls.append(top)
    ls += routes
    return "\n".join(ls) + "\n"


# the running configuration of part (a): every kind of decision is present
def running_routes():
    return [
        route("/a", auth="hmac", max_body=64, rate=(1, 2), tokens=["raw:pt-a"]),
        route("/b", auth="basic", match='host "b.example" method PUT', app="app1", ep="ep1"),
        route("/c", auth="forward"),
        route("/d", max_body=32, publish="enabled off"),
    ]


# the reloadable delta: applied alone it must succeed and change decisions; every failure case carries it too,
# so a partially applied failed reload is visible
def delta_routes():
    return [
        route("/a", auth="hmac:raw:sec-hmac-2", max_body=128, rate=(1, 3), tokens=["raw:pt-a2"]),
        route("/b", auth="none", match='host "b2.example" method PUT', app="app1", ep="ep1"),
        route("/c", auth="basic", pull_path="/pull/c-moved"),
        route("/e", auth="none"),
    ]


DELTA_KW = dict(pull_tokens=("raw:pt-global-2",), admin_tokens=("raw:adm-2",), ingress_extra="rate_limit { rps 1 burst 1 }",
                defaults=DELTA_DEFAULTS)

# synthetic backlogs (queued, leased, age of the oldest in s): below both min_total; in the band where only the delta's
# thresholds shed (total, queued share, ready lag, oldest age); above both
BACKLOGS = [(0, 0, 0), (3, 0, 0), (6, 0, 0), (2, 8, 0), (2, 8, 45), (2, 8, 90), (100, 100, 0), (100, 150, 0), (250, 0, 0), (190, 20, 0)]


def fingerprint_probes():
    ing = []
    for path in ("/a", "/a/sub", "/b", "/c", "/d", "/e", "/zzz", "/pull/a"):
        ing.append({"method": "POST", "path": path, "body_len": 8})
    for sec in ("sec-hmac", "sec-hmac-2", "wrong"):
        ing.append({"method": "POST", "path": "/a", "body_len": 8, "hmac_secret": sec})
    ing.append({"method": "POST", "path": "/a", "body_len": 100, "hmac_secret": "sec-hmac"})   # over max_body 64, under 128
    ing.append({"method": "POST", "path": "/a", "body_len": 100, "hmac_secret": "sec-hmac-2"})
    ing.append({"method": "POST", "path": "/a", "body_len": 1, "hmac_secret": "sec-hmac", "repeat": 4})  # burst
    ing.append({"method": "POST", "path": "/a", "body_len": 1, "hmac_secret": "sec-hmac-2", "repeat": 4})
    for host in ("b.example", "b2.example", "other.example"):
        for method in ("PUT", "POST", "GET"):
            ing.append({"method": method, "path": "/b", "host": host, "body_len": 3, "basic": ["u", "p"]})
        ing.append({"method": "PUT", "path": "/b", "host": host, "body_len": 3})
        ing.append({"method": "PUT", "path": "/b", "host": host, "body_len": 3, "basic": ["u", "bad"]})
    ing.append({"method": "POST", "path": "/c", "body_len": 3, "headers": {"X-Fwd-Ok": "1"}})
    ing.append({"method": "POST", "path": "/c", "body_len": 3, "basic": ["u", "p"]})
    ing.append({"method": "POST", "path": "/d", "body_len": 40})          # over /d's max_body 32
    ing.append({"method": "POST", "path": "/e", "body_len": 3, "repeat": 3})   # global limiter of the delta
    pull = []
    for ep in ("/pull/a", "/pull/b", "/pull/c", "/pull/c-moved", "/pull/d", "/pull/e", "/pull/zzz"):
        for tok in ("pt-global", "pt-global-2", "pt-a", "pt-a2", ""):
            pull.append({"path": ep, "token": tok})
    admin = []
    for tok in ("adm-1", "adm-2", "", "pt-global"):
        admin.append({"method": "GET", "path": "/healthz", "token": tok})
    for tok in ("adm-1", "adm-2"):
        admin.append({"method": "GET", "path": "/management/model", "token": tok})
        for rt in ("/a", "/d", "/e"):
            admin.append({"method": "POST", "path": "/messages/publish", "token": tok,
                          "body": json.dumps({"items": [{"id": "p-" + rt[1:], "route": rt, "payload_b64": "eA=="}]})})
        admin.append({"method": "POST", "path": "/applications/app1/endpoints/ep1/messages/publish", "token": tok,
                      "body": json.dumps({"items": [{"id": "m1", "payload_b64": "eA=="}]})})
    worker = [{"path": ep, "token": tok} for ep in ("/pull/a", "/pull/c", "/pull/c-moved") for tok in ("pt-a", "pt-a2", "pt-global", "pt-global-2", "")]
    adaptive = [{"queued": q, "leased": l, "age_sec": a, "route": rt} for (q, l, a) in BACKLOGS for rt in ("/d", "/e")]
    return {"ingress": ing, "pull": pull, "admin": admin, "worker": worker, "adaptive": adaptive, "seed_routes": ["/a", "/b", "/c", "/d", "/e"]}


def failed_cases(rng, tier):
    run = config(running_routes())
    dr, dk = delta_routes(), dict(DELTA_KW)
    ok_new = config(dr, **dk)
    probes = fingerprint_probes()
    hit = {"method": "POST", "path": "/a", "body_len": 1, "hmac_secret": "sec-hmac"}
    cases = []

    def add(name, kind, new=None, expect="fail", **kw):
        c = {"name": name, "kind": kind, "running": kw.pop("running", run), "new": new if new is not None else ok_new,
             "probes": probes, "limit_hit": hit, "expect": expect}
        c.update(kw)
        if expect != "ok" and c.get("file_kind") not in ("missing", "dir") and "min_total 4" not in c["new"]:
            raise RuntimeError("failure case %s does not carry the admission-settings delta" % name)
        cases.append(c)

    # controls: the delta alone reloads, and every part of it alone reloads
    add("control:delta", "control", expect="ok")
    add("control:routes-only", "control", new=config(dr), expect="ok")
    add("control:tokens-only", "control", new=config(running_routes(), **{k: v for k, v in dk.items() if k != "defaults"}), expect="ok")
    add("control:admission-only", "control", new=config(running_routes(), defaults=DELTA_DEFAULTS), expect="ok")
    add("control:noop", "control", new=run, expect="ok")
    # the admission controller grades a backlog HISTORY (sustained growth): a reload that changes nothing but the window of history to
    # look at must decide the next request as a process started on the new file does - a burst ten to five minutes ago is inside a
    # 15-minute window and outside a 3-minute one.  (Own probe set: every probe shows the same history, so what the controller
    # remembers between probes cannot differ from probe to probe.)
    trend = [10, 10, 10, 10, 10, 10, 100, 100, 100, 100, 100]
    tprobes = {"ingress": [{"method": "POST", "path": "/e", "body_len": 3}], "pull": [], "admin": [], "worker": [], "seed_routes": ["/a", "/b", "/c", "/d", "/e"],
               "adaptive": [{"queued": 10, "leased": 90, "age_sec": 0, "route": rt, "trend": trend} for rt in ("/e", "/d", "/e")]}
    for w_old, w_new in (("15m", "3m"), ("3m", "15m")):
        add("control:trend-window-%s-to-%s" % (w_old, w_new), "control", running=config(running_routes(), defaults=TREND_DEFAULTS % w_old),
            new=config(running_routes(), defaults=TREND_DEFAULTS % w_new), expect="ok", probes=tprobes, limit_hit=None)
        add("control:trend-window-%s-to-%s-refresh-in-flight" % (w_old, w_new), "control", running=config(running_routes(), defaults=TREND_DEFAULTS % w_old),
            new=config(running_routes(), defaults=TREND_DEFAULTS % w_new), expect="ok", probes=tprobes, limit_hit=None, trend_refresh_in_flight=True)
    # unreadable
    add("unreadable:missing", "unreadable", file_kind="missing")
    add("unreadable:directory", "unreadable", file_kind="dir")
    # parse errors (delta + damage)
    damages = [("unclosed", lambda s: s[:s.rindex("}")]), ("garbage-tail", lambda s: s + "}}}\n"),
               ("stray-quote", lambda s: s.replace('listen "', 'listen ""', 1) + '"\n'),
               ("empty-block-name", lambda s: s + "{ }\n"), ("nul-byte", lambda s: s + "\x00\n"),
               ("unknown-top", lambda s: "frobnicate on\n" + s)]
    for n, f in damages:
        add("parse:" + n, "parse", new=f(ok_new), expect="fail-noncompiling")
    # compile errors
    add("compile:duplicate-route", "compile", new=config(dr + [route("/e")], **dk), expect="fail-noncompiling")
    add("compile:forward+basic", "compile", new=config(dr + [route("/f", auth="forward", extra='auth basic "u" "p"')], **dk), expect="fail-noncompiling")
    add("compile:bad-max-body", "compile", new=config(dr + [route("/f", max_body="lots")], **dk), expect="fail-noncompiling")
    add("compile:no-pull-token", "compile", new=config(dr, pull_tokens=(), admin_tokens=("raw:adm-2",), defaults=DELTA_DEFAULTS), expect="fail-noncompiling")
    add("compile:bad-secret-ref-syntax", "compile", new=config(dr, pull_tokens=("nonsense",), defaults=DELTA_DEFAULTS), expect="fail-noncompiling")
    add("compile:unknown-secret-ref", "compile", new=config(dr[:-1] + [route("/e", auth="hmacref:NOPE")], **dk), expect="fail-noncompiling")
    add("compile:rate-nan", "compile", new=config(dr + [route("/f", rate=("NaN", 1))], **dk), expect="fail-noncompiling")
    # secrets that cannot be loaded - at each place loadAuth loads one, with everything before it loadable
    env = {"VERIF_C18_S1": "s1"}
    miss = "env:VERIF_C18_MISSING"
    add("secret:pull-token-env", "secret", new=config(dr, pull_tokens=(miss,), admin_tokens=("raw:adm-2",), defaults=DELTA_DEFAULTS))
    add("secret:second-pull-token", "secret", new=config(dr, pull_tokens=("raw:pt-global-2", miss), admin_tokens=("raw:adm-2",), defaults=DELTA_DEFAULTS))
    add("secret:admin-token-env", "secret", new=config(dr, pull_tokens=("raw:pt-global-2",), admin_tokens=(miss,), defaults=DELTA_DEFAULTS))
    add("secret:route-pull-token", "secret", new=config(dr[:-1] + [route("/e", tokens=["raw:x", miss])], **dk))
    add("secret:last-route-hmac", "secret", new=config(dr[:-1] + [route("/e", auth="hmac:" + miss)], **dk))
    add("secret:first-route-hmac", "secret", new=config([route("/a", auth="hmac:" + miss, max_body=128)] + dr[1:], **dk))
    add("secret:file-missing", "secret", new=config(dr[:-1] + [route("/e", auth="hmac:file:__DIR__/nofile")], **dk))
    add("secret:file-empty", "secret", new=config(dr[:-1] + [route("/e", auth="hmac:file:__DIR__/empty")], **dk), files={"empty": "  \n"})
    add("secret:file-removed-after-start", "secret", running=config(running_routes()[:-1] + [route("/d", auth="hmac:file:__DIR__/sec", max_body=32, publish="enabled off")]),
        new=config(dr[:-1] + [route("/e", auth="hmac:file:__DIR__/sec")], **dk), files={"sec": "sec-file\n"}, rm_files=["sec"])
    add("secret:env-unset-after-start", "secret", running=config(running_routes(), pull_tokens=("env:VERIF_C18_S1",)),
        new=config(dr, pull_tokens=("env:VERIF_C18_S1", "raw:pt-global-2"), admin_tokens=("raw:adm-2",), defaults=DELTA_DEFAULTS), env_set=env, env_unset=["VERIF_C18_S1"])
    sec_block = 'secrets {\n  secret "S1" {\n    value %s\n    valid_from "2020-01-01T00:00:00Z"\n  }\n}'
    add("secret:secrets-block-value", "secret", new=config(dr[:-1] + [route("/e", auth="hmacref:S1")], top=sec_block % miss, **dk))
    add("control:secrets-block", "control", new=config(dr[:-1] + [route("/e", auth="hmacref:S1")], top=sec_block % '"raw:s1v"', **dk), expect="ok")
    # restart-requiring changes, each together with the delta
    rs = [
        ("ingress-listen", dict(ingress=":18090")),
        ("pull-listen", dict(pull_listen=":19453")),
        ("admin-listen", dict(admin_listen="127.0.0.1:19454")),
        ("pull-prefix", dict(pull_extra="prefix /p")),
        ("admin-prefix", dict(admin_extra="prefix /adm")),
        ("pull-max-batch", dict(pull_extra="max_batch 7")),
        ("pull-default-lease-ttl", dict(pull_extra="default_lease_ttl 11s")),
        ("pull-max-lease-ttl", dict(pull_extra="max_lease_ttl 2m")),
        ("pull-default-max-wait", dict(pull_extra="default_max_wait 1s")),
        ("pull-max-wait", dict(pull_extra="max_wait 9s")),
        ("pull-grpc-listen", dict(pull_extra="grpc_listen 127.0.0.1:19943")),
        ("shared-listener", dict(pull_listen="127.0.0.1:19444", pull_extra="prefix /papi", admin_extra="prefix /admin")),
        ("defaults-max-body", dict(defaults_extra="max_body 1mb")),
        ("defaults-max-headers", dict(defaults_extra="max_headers 8kb")),
        ("publish-policy", dict(defaults_extra="publish_policy {\n    direct off\n  }")),
        ("queue-limits", dict(top="queue_limits {\n  max_depth 17\n}")),
        ("queue-retention", dict(top="queue_retention {\n  max_age 1h\n}")),
        ("delivered-retention", dict(top="delivered_retention {\n  max_age 1h\n}")),
        ("dlq-retention", dict(top="dlq_retention {\n  max_depth 5\n}")),
        ("observability-access-log", dict(top="observability {\n  access_log off\n}")),
        ("observability-runtime-log", dict(top="observability {\n  runtime_log debug\n}")),
        ("observability-metrics", dict(top='observability {\n  metrics {\n    listen ":19900"\n  }\n}')),
    ]
    for n, kw in rs:
        k2 = dict(dk)
        ie = k2.pop("ingress_extra")
        k2.update(kw)
        add("restart:" + n, "restart", new=config(dr, ingress_extra=ie, **k2), expect="fail-restart")
    # settings of a block that is switched off on both sides but still drive something: queue_retention.prune_interval is the store's one
    # prune cadence (DLQ and delivered retention follow it) - handed to the store once, at start-up
    for n, (a, b) in (("prune-interval-while-max-age-off", ("queue_retention {\n  max_age off\n  prune_interval 5m\n}", "queue_retention {\n  max_age off\n  prune_interval 1s\n}")),
                      ("prune-interval-only", ("queue_retention {\n  prune_interval 5m\n}", "queue_retention {\n  prune_interval 1s\n}"))):
        k2 = dict(dk)
        ie = k2.pop("ingress_extra")
        add("restart:" + n, "restart", running=config(running_routes(), top=a), new=config(dr, ingress_extra=ie, top=b, **k2), expect="fail-restart")
    # deliver topology: first deliver route / queue backend
    deliver = '"/push" {\n  deliver "https://example.invalid/hook" {\n    timeout 1s\n  }\n}'
    add("restart:first-deliver-route", "restart", new=config(dr + [deliver], **dk), expect="fail-restart")
    add("restart:queue-backend", "restart", new=config([r.replace("pull {", "queue { backend memory }\n  pull {", 1) for r in dr], **dk), expect="fail-restart")
    run_d = config(running_routes() + [deliver])
    add("restart:deliver-target-changed", "restart", running=run_d, new=config(dr + [deliver.replace("/hook", "/hook2")], **dk), expect="fail-restart")
    add("restart:deliver-timeout-changed", "restart", running=run_d, new=config(dr + [deliver.replace("1s", "2s")], **dk), expect="fail-restart")
    add("restart:last-deliver-route-removed", "restart", running=run_d, new=ok_new, expect="fail-restart")
    add("control:deliver-unchanged", "control", running=run_d, new=config(dr + [deliver], **dk), expect="ok")
    if tier != "quick":
        # random combinations: delta subset x one failure
        for i in range(40):
            sub = [r for r in dr if rng.random() < 0.7] or dr[:1]
            kind = rng.choice(["parse", "secret", "restart"])
            if kind == "parse":
                n, f = rng.choice(damages)
                add("rand%d:parse:%s" % (i, n), "parse", new=f(config(sub, **dk)), expect="fail-noncompiling")
            elif kind == "secret":
                add("rand%d:secret" % i, "secret", new=config(sub + [route("/s%d" % i, auth="hmac:" + miss)], **dk))
            else:
                n, kw = rng.choice(rs)
                k2 = dict(dk)
                ie = k2.pop("ingress_extra")
                k2.update(kw)
                add("rand%d:restart:%s" % (i, n), "restart", new=config(sub, ingress_extra=ie, **k2), expect="fail-restart")
    return cases


# ---------------------------------------------------------------------------
# (b) visibility scenarios
# ---------------------------------------------------------------------------

AUTHS = ("none", "basic", "forward", "hmac")


def vis_variants():
    vs = [None]                                        # route /a absent
    for auth in AUTHS:
        for mb in (None, 16):
            for rate in (None, (1, 1)):
                vs.append((auth, mb, rate))
    return vs


def vis_config(v, defaults=RUN_DEFAULTS):
    routes = []
    if v is not None:
        routes.append(route("/a", auth=v[0], max_body=v[1], rate=v[2]))
    routes.append(route("/b", auth="hmac:raw:sec-b"))
    return config(routes, defaults=defaults)


def creds_for(auth):
    if auth == "basic":
        return {"basic": ["u", "p"]}
    if auth == "hmac":
        return {"hmac_secret": "sec-hmac"}
    if auth == "forward":
        return {"headers": {"X-Fwd-Ok": "1"}}
    return {}


def vis_scenarios():
    scs = []
    vs = vis_variants()
    for o, n in itertools.product(vs, vs):
        if o == n:
            continue
        reqs, seen = [], set()
        cred_sets = [{}]
        for v in (o, n):
            if v is not None and creds_for(v[0]) not in cred_sets:
                cred_sets.append(creds_for(v[0]))
        bodies = [8, 100] if any(v is not None and v[1] for v in (o, n)) else [8]
        primes = [0, 1] if (o is not None and o[2]) else [0]
        for cr in cred_sets:
            for bl in bodies:
                for pr in primes:
                    ing = {"method": "POST", "path": "/a", "body_len": bl}
                    ing.update(cr)
                    key = json.dumps([ing, pr], sort_keys=True)
                    if key in seen:
                        continue
                    seen.add(key)
                    reqs.append({"kind": "ingress", "ingress": ing, "prime": pr})
        scs.append({"id": "ing:%s=>%s" % (vname(o), vname(n)), "old": vis_config(o), "new": vis_config(n), "requests": reqs,
                    "seed_routes": []})
    # admission settings switch together with the route table: a backlog in the band where only one of the two
    # settings sheds; the reload is held at its sync points only (LockOnly) - a reload landing between two accessors of
    # such a request would add allowIngressEnqueue pairs to the per-request-reads family (known finding), not enumerated here
    none = ("none", None, None)
    for (o, n) in ((none, None), (None, none), (("hmac", None, None), ("basic", None, None)), (none, none), (("basic", None, None), none)):
        for (od, nd, tag) in ((RUN_DEFAULTS, DELTA_DEFAULTS, "lenient=>strict"), (DELTA_DEFAULTS, RUN_DEFAULTS, "strict=>lenient")):
            for bl in ((6, 0, 0), (2, 8, 45)):
                reqs = [{"kind": "ingress", "ingress": dict({"method": "POST", "path": "/a", "body_len": 8}, **cr), "prime": 0}
                        for cr in ([{}] + [creds_for(v[0]) for v in (o, n) if v is not None and creds_for(v[0])])]
                scs.append({"id": "adm:%s=>%s:%s:backlog%d/%d/%ds" % ((vname(o), vname(n), tag) + bl), "old": vis_config(o, od), "new": vis_config(n, nd),
                            "requests": reqs, "seed_routes": [], "backlog": list(bl), "lock_only": True})
    # pull endpoint mapping / allowlists
    def pcfg(a_path, a_tok, b_path, b_tok):
        return config([route("/a", pull_path=a_path, tokens=[a_tok] if a_tok else None),
                       route("/b", pull_path=b_path, tokens=[b_tok] if b_tok else None)])
    pulls = [
        ("pull:swap-endpoints", pcfg("/pull/x", "raw:ta", "/pull/y", "raw:tb"), pcfg("/pull/y", "raw:ta", "/pull/x", "raw:tb")),
        ("pull:move-endpoint", pcfg("/pull/x", "raw:ta", "/pull/y", "raw:tb"), pcfg("/pull/z", "raw:tc", "/pull/x", "raw:tb")),
        ("pull:token-rotated", pcfg("/pull/x", "raw:ta", "/pull/y", "raw:tb"), pcfg("/pull/x", "raw:ta2", "/pull/y", "raw:tb")),
        ("pull:route-token-dropped", pcfg("/pull/x", "raw:ta", "/pull/y", "raw:tb"), pcfg("/pull/x", None, "/pull/y", "raw:tb")),
        ("pull:endpoint-removed", pcfg("/pull/x", "raw:ta", "/pull/y", "raw:tb"), pcfg("/pull/w", "raw:ta", "/pull/y", "raw:tb")),
    ]
    for pid, o, n in pulls:
        reqs = [{"kind": "pull", "pull": {"path": ep, "token": tok}}
                for ep in ("/pull/x", "/pull/y", "/pull/z") for tok in ("ta", "tb", "tc", "ta2", "pt-global", "")]
        scs.append({"id": pid, "old": o, "new": n, "requests": reqs, "seed_routes": ["/a", "/b"]})
    return scs


def vname(v):
    if v is None:
        return "absent"
    return "%s%s%s" % (v[0], "+body16" if v[1] else "", "+rate1" if v[2] else "")


def classify(old, new, mixed):
    """Observed version per accessor of the mixed run: '0' it answered as a state built from the old
    configuration does (and the new one would not), '1' the converse, '?' both would answer the same, 'x' neither."""
    out = []
    for c in mixed["calls"]:
        a, o, n = c["answer"], c["old"], c["new"]
        if o == n:
            out.append("?" if a == o else "x")
        elif a == o:
            out.append("0")
        elif a == n:
            out.append("1")
        else:
            out.append("x")
    return out


COQ_CB = {k: v[0] for k, v in ACCESSORS.items()}


def model_predictions(ctx, shapes):
    """shapes: set of (callbacks tuple, mode, k).  Returns {shape: list of per-callback version lists}."""
    shapes = sorted(shapes)
    if not shapes:
        return {}, ""
    defs = []
    for i, (cbs, mode, k) in enumerate(shapes):
        n = len(cbs)
        req = "[" + "; ".join(COQ_CB[c] for c in cbs) + "]"
        if mode == "full":
            sched = "(repeat (AReq 0) %d ++ [AReload; AReload] ++ repeat (AReq 0) %d)" % (k, n - k)
        elif mode == "inlock":
            # the request is issued while the reload is inside its critical section: it can only run after it
            sched = "([AReload] ++ repeat (AReq 0) %d)" % n
        elif mode == "prelock":
            # the reload has loaded its secrets but not yet taken the lock: nothing is published
            sched = "(repeat (AReq 0) %d ++ [AReload])" % n
        else:
            sched = "(repeat AReload %d ++ repeat (AReq 0) %d ++ [AReload; AReload])" % (k + 1, n)
        defs.append("(map (fun o => map snd o) (observations code_shape 1 [%s] %s), P_no_mixture (observations code_shape 1 [%s] %s))"
                    % (req, sched, req, sched))
    body = ["From Coq Require Import List Bool Arith.", "From HK Require Import Model.Reload.", "Import ListNotations.",
            "Definition R := Eval vm_compute in [%s]." % ";\n ".join(defs), "Print R."]
    rc, out = C.coq_eval_cases(ctx, "c18vis", "\n".join(body) + "\n")
    if rc != 0:
        return None, out
    flat = " ".join(out.split())
    m = re.search(r"R\s*=\s*\[(.*)\]\s*:\s*list", flat)
    if not m:
        return None, out
    items = re.findall(r"\(\s*\[\s*\[([0-9; ]*)\]\s*\]\s*,\s*(true|false)\s*\)", m.group(1))
    if len(items) != len(shapes):
        return None, out
    res = {}
    for sh, (nums, verdict) in zip(shapes, items):
        vs = [int(x) for x in re.findall(r"\d+", nums)]
        # split per callback by its number of fields
        per, idx = [], 0
        for c in sh[0]:
            nf = len(ACCESSORS[c][1])
            per.append(vs[idx:idx + nf])
            idx += nf
        res[sh] = (per, verdict == "true")
    return res, out


def coq_one_version(ctx, vectors):
    """Evaluate the Coq predicate one_version on observed version vectors (lists of 0/1)."""
    vectors = sorted(vectors)
    if not vectors:
        return {}
    terms = ["one_version [%s]" % "; ".join("(CSnapshot, FRoutes, %d)" % v for v in vec) for vec in vectors]
    body = ["From Coq Require Import List Bool Arith.", "From HK Require Import Model.Reload.", "Import ListNotations.",
            "Definition V := Eval vm_compute in [%s]." % "; ".join(terms), "Print V."]
    rc, out = C.coq_eval_cases(ctx, "c18ov", "\n".join(body) + "\n")
    flat = " ".join(out.split())
    m = re.search(r"V\s*=\s*\[(.*?)\]\s*:\s*list", flat)
    if rc != 0 or not m:
        return None
    vals = re.findall(r"true|false", m.group(1))
    if len(vals) != len(vectors):
        return None
    return {vec: v == "true" for vec, v in zip(vectors, vals)}


# ---------------------------------------------------------------------------
# (c) strace -> fsop
# ---------------------------------------------------------------------------

HARMLESS = {"newfstatat", "fstat", "statx", "fcntl", "epoll_ctl", "read", "pread64", "lseek", "getdents64", "readlinkat",
            "access", "faccessat", "faccessat2", "epoll_create1", "eventfd2", "pipe2", "dup", "dup3", "ioctl", "getcwd",
            "epoll_pwait", "flock", "readlink", "stat", "lstat", "execve", "mmap", "epoll_wait", "poll", "ppoll", "select", "pselect6"}


def decode_c(s):
    """strace -xx string literal body -> bytes"""
    out = bytearray()
    i = 0
    while i < len(s):
        if s[i] == "\\" and i + 3 < len(s) + 1 and s[i + 1] == "x":
            out.append(int(s[i + 2:i + 4], 16))
            i += 4
        elif s[i] == "\\":
            out.append({"n": 10, "t": 9, "r": 13, "\\": 92, '"': 34}.get(s[i + 1], ord(s[i + 1])))
            i += 2
        else:
            out.append(ord(s[i]))
            i += 1
    return bytes(out)


def read_trace(path):
    """-> list of (pid, name, args, ret) in completion order, unfinished/resumed joined."""
    pend, out = {}, []
    for line in open(path, errors="replace"):
        line = line.rstrip("\n")
        m = re.match(r"^(\d+)\s+(.*)$", line)
        if not m:
            continue
        pid, rest = int(m.group(1)), m.group(2)
        if rest.startswith("+++") or rest.startswith("---"):
            out.append((pid, rest, "", None))
            continue
        if rest.endswith("<unfinished ...>"):
            pend[pid] = rest[:-len("<unfinished ...>")].rstrip()
            continue
        mr = re.match(r"^<\.\.\. (\w+) resumed>(.*)$", rest)
        if mr:
            rest = pend.pop(pid, mr.group(1) + "(") + mr.group(2)
        mc = re.match(r"^(\w+)\((.*)\)\s+=\s+(-?\d+|\?|0x[0-9a-f]+)(.*)$", rest)
        if not mc:
            continue
        ret = None if mc.group(3) == "?" else int(mc.group(3), 0)
        out.append((pid, mc.group(1), mc.group(2), ret))
    return out


def strs(args):
    return [decode_c(x).decode("utf-8", "replace") for x in re.findall(r'"((?:[^"\\]|\\.)*)"', args)]


def window(calls):
    b = [i for i, c in enumerate(calls) if c[1] == "newfstatat" and "/verif-marker-begin" in "".join(strs(c[2]))]
    e = [i for i, c in enumerate(calls) if c[1] == "newfstatat" and "/verif-marker-end" in "".join(strs(c[2]))]
    if not b or not e:
        return None
    return b[0], e[0]


def to_fsops(calls, target):
    """Translate the syscalls of the window into the fsop alphabet of Model/FsAtomic.v.
    Returns (ops, notes); ops as python tuples."""
    ops, fds = [], {}
    for pid, name, args, ret in calls:
        if ret is None or ret < 0:
            continue
        if name in HARMLESS:
            continue
        if name in ("openat", "open"):
            ss = strs(args)
            p = ss[0] if ss else "?"
            flags = args.split(",")[2 if name == "openat" else 1] if "," in args else ""
            if "O_CREAT" in flags and "O_EXCL" in flags:
                ops.append(("Create", ret, p))
                fds[ret] = "f"
            elif "O_WRONLY" in flags or "O_RDWR" in flags:
                if "O_TRUNC" in flags and "O_CREAT" not in flags:
                    ops.append(("OpenTrunc", ret, p))
                    fds[ret] = "f"
                else:
                    ops.append(("Other", "open-for-write %s %s" % (p, flags.strip())))
            elif os.path.isdir(p):
                ops.append(("OpenDir", ret, p))
                fds[ret] = "d"
            else:
                fds[ret] = "r"     # read-only open of a file: no effect
        elif name == "write":
            fd = int(args.split(",")[0])
            if fd in fds:
                ss = re.findall(r'"((?:[^"\\]|\\.)*)"', args)
                data = decode_c(ss[0]) if ss else b""
                ops.append(("Write", fd, data[:ret]))
        elif name in ("fsync", "fdatasync"):
            fd = int(args.split(",")[0])
            ops.append(("Fsync", fd) if fd in fds else ("Other", "fsync of foreign fd"))
        elif name == "close":
            fd = int(args.split(",")[0])
            if fd in fds:
                if fds.pop(fd) != "r":
                    ops.append(("Close", fd))
        elif name == "fchmod":
            ops.append(("Chmod", int(args.split(",")[0])))
        elif name in ("rename", "renameat", "renameat2"):
            ss = strs(args)
            ops.append(("Rename", ss[0], ss[1]) if len(ss) == 2 else ("Other", name))
        elif name in ("unlink", "unlinkat"):
            ss = strs(args)
            ops.append(("Remove", ss[0]) if ss else ("Other", name))
        else:
            ops.append(("Other", name))
    return ops


def coq_fsops(ops, target):
    dirs, names = {}, {}

    def pth(p):
        d, n = os.path.dirname(p), os.path.basename(p)
        return "(mkPath %d %d)" % (dirs.setdefault(d, len(dirs) + 1), names.setdefault(n, len(names) + 1))
    P = pth(target)
    out = []
    for op in ops:
        k = op[0]
        if k in ("Create", "OpenTrunc"):
            out.append("%s %d %s" % (k, op[1], pth(op[2])))
        elif k == "OpenDir":
            out.append("OpenDir %d %d" % (op[1], dirs.setdefault(op[2].rstrip("/") or "/", len(dirs) + 1)))
        elif k == "Write":
            out.append("Write %d %s" % (op[1], C.coq_bytes(op[2])))
        elif k in ("Fsync", "Close", "Chmod"):
            out.append("%s %d" % (k, op[1]))
        elif k == "Rename":
            out.append("Rename %s %s" % (pth(op[1]), pth(op[2])))
        elif k == "Remove":
            out.append("Remove %s" % pth(op[1]))
        else:
            out.append("Other")
    return P, "[" + "; ".join(out) + "]"


def strace_run(hbin, workdir, tag, inp, extra=()):
    tr = os.path.join(workdir, tag + ".trace")
    cmd = ["strace", "-f", "-o", tr, "-s", "200000", "-xx", "-e", "trace=file,desc"] + list(extra) + [hbin, "fsatomic-child"]
    p = subprocess.run(cmd, input=json.dumps(inp), text=True, stdout=subprocess.PIPE, stderr=subprocess.PIPE, timeout=120)
    return p.returncode, p.stdout, p.stderr, tr


# ---------------------------------------------------------------------------

def _report(ctx, key, what, obj):
    obj = dict(obj)
    obj.setdefault("how_to_replay", "./check C18 --replay <this file>  (re-runs the whole check with the recorded seed and reports whether key %r still fails); "
                                    "the case is self-contained: configurations, request, schedule / fault are in `case`" % key)
    return C.report(ctx, key, what, obj)


def main(ctx, replay):
    rng = random.Random(ctx.seed)
    info = C.prologue(ctx, need_go=False)
    cov = C.proof_coverage(info, "C18")
    assumptions = [
        "schedules: interleavings of whole critical sections (sync.RWMutex trusted); the harness forces a reload between two accessors of one request synchronously",
        "reloadConfig is instrumented through an overlay copy of run.go that differs from the source by verifSync(...) lines only (self-checked): after every state.<m>() statement of reloadConfig and inside loadAuthAnd's critical section before alsoLocked()",
        "file-system semantics of Model/FsAtomic.v (ordered name-space journal, per-inode data prefix + torn last write, fsync durability) is assumed of the OS",
        "strace renders every file/descriptor syscall of the child; SIGKILL injection stands for a process crash (not power loss)",
        "handlers are wired to the state by the shim as startServers does (assignments compared with the source text every run)",
    ]
    lint = lint_source()
    sync_src, points, inlock, prelock = rewrite_run_go(ctx)
    if sync_src is None:
        # DESIGN section 7: fail loudly rather than silently not entering the windows - as a verdict, not as a crash: the part of the
        # check that forces a reload between two accessors cannot run on this source, so "each request sees one configuration" is no
        # longer shown; the other parts still run and may produce a concrete failing input
        _report(ctx, "model-stale:reloadConfig-shape",
                "no sync point could be placed in reloadConfig (the function no longer has the shape `state.<method>(...)` statements the overlay "
                "rewriter of props/c18.py instruments): the forced-window part of the check did not run",
                {"kind": "obligation", "no_failing_input_found": True, "names": "correspondence run.go:reloadConfig <-> Model/Reload.v reload_prog (sync-point overlay)"})
        points, inlock, prelock = [], False, False
    hbin, glog = C.go_build_harness(ctx, extra_replace=({os.path.join(C.REPO, "internal", "app", "run.go"): sync_src} if sync_src else None))
    if hbin is None:
        raise C.HarnessBuildFailed(glog[-3000:])
    info["hbin"] = hbin
    evaluations, nontrivial, samples = 0, set(), []
    dist = {}

    # ------------------------------------------------------------------ (a)
    cases = failed_cases(rng, ctx.tier)
    rc, out, err = C.harness_run(hbin, ["reload-failed"], {"dir": ctx.scratch, "cases": cases})
    if rc != 0:
        raise RuntimeError("reload-failed: " + err[-2000:])
    res_a = json.loads(out)
    kinds = {}
    sampled_kinds = set()
    for c, r in zip(cases, res_a):
        evaluations += 1
        kinds[c["kind"]] = kinds.get(c["kind"], 0) + 1
        rep = {"kind": "fault_sequence", "case": {k: v for k, v in c.items() if k != "probes"}, "observed": {k: v for k, v in r.items() if k != "fp_sample"}}
        if r["setup_error"]:
            raise RuntimeError("case %s cannot be set up: %s" % (c["name"], r["setup_error"]))
        exp = c["expect"]
        if exp == "ok":
            if not r["reload_ok"] or not r["returned_new"]:
                _report(ctx, "reload-refused:" + c["name"], "a reloadable change was not applied (control case)", rep)
            elif not r["fp_equals_fresh_new"]:
                _report(ctx, "reload-incomplete:" + c["name"],
                         "after a successful reload the state does not decide like a process started on the new file: " + "; ".join(r["fp_fresh_diff"][:4]), rep)
            if c["name"] != "control:noop" and r["fp_same"]:
                raise RuntimeError("probe set is blind to the delta of " + c["name"])
            continue
        # preconditions of the failure cases (otherwise the case does not test what its name says)
        if exp == "fail-restart" and r["new_compiles"] and not r["needs_restart"]:
            # the new file changes a setting that is consumed once, at start-up (listen addresses, pull API tuning, store options, ...): a reload
            # cannot apply it; classified as applicable live it is reported as applied while the running process keeps the old value
            C.report(ctx, "restart-only-change-classified-live:%s" % c["name"].split(":", 1)[-1],
                     "the new file differs from the running one in a setting that only a restart can apply (%s), yet the reload classifier says it can be "
                     "applied live (reload answered ok=%s): the route table / authenticators of the new file would be in force next to the old value of that "
                     "setting" % (c["name"].split(":", 1)[-1], r["reload_ok"]),
                     {"kind": "fault_sequence", "case": {"name": c["name"], "running_config": c["running"], "new_config": c["new"]},
                      "observed": {"needs_restart": r["needs_restart"], "reload_ok": r["reload_ok"], "fp_same": r.get("fp_same")}})
            continue
        if exp == "fail-restart" and not (r["new_compiles"] and r["needs_restart"]):
            raise RuntimeError("case %s: new file compiles=%s needs_restart=%s %s" % (c["name"], r["new_compiles"], r["needs_restart"], r["new_compile_error"]))
        if exp == "fail-noncompiling" and r["new_compiles"]:
            raise RuntimeError("case %s: the damaged file compiles" % c["name"])
        if c["kind"] == "secret" and not (r["new_compiles"] and not r["needs_restart"]):
            raise RuntimeError("case %s: new file compiles=%s needs_restart=%s %s" % (c["name"], r["new_compiles"], r["needs_restart"], r["new_compile_error"]))
        nontrivial.add(c["name"].split(":", 1)[-1] if c["name"].startswith("rand") else c["name"])
        problems = []
        if r["reload_ok"]:
            problems.append("reloadConfig reported success")
        if not r["returned_running"]:
            problems.append("the returned configuration is not the running one")
        if not r["fp_same"]:
            problems.append("decisions changed: " + " | ".join(r["fp_diff"][:6]))
        if r["tokens_before"] != r["tokens_after"]:
            problems.append("rate-limiter state changed: %s -> %s" % (r["tokens_before"], r["tokens_after"]))
        if problems:
            _report(ctx, "failed-reload-changed-state:" + c["kind"], "%s: %s" % (c["name"], "; ".join(problems)), rep)
        elif r["identity_changed"]:
            _report(ctx, "failed-reload-wrote-state:" + c["kind"],
                     "%s: fields %s were reassigned by a failed reload (model: no write before the last failure exit)" % (c["name"], r["identity_changed"]), rep)
        elif c["kind"] not in sampled_kinds:
            sampled_kinds.add(c["kind"])
            samples.append({"part": "a", "case": c["name"], "reload_ok": r["reload_ok"], "returned_running": r["returned_running"],
                            "fingerprint_lines": r["fp_lines"], "fingerprint_unchanged": r["fp_same"], "limiter_tokens": [r["tokens_before"], r["tokens_after"]]})
    dist["failed_reload_cases_by_kind"] = kinds

    if points:
        # ------------------------------------------------------------------ (b)
        scs = vis_scenarios()
        shards = [scs[i::8] for i in range(8)]

        def run_shard(i):
            rc, out, err = C.harness_run(hbin, ["reload-visibility"], {"dir": os.path.join(ctx.scratch, "v%d" % i), "scenarios": shards[i], "sync_points": len(points), "inlock": inlock, "prelock": prelock})
            if rc != 0:
                raise RuntimeError("reload-visibility: " + err[-2000:])
            return json.loads(out)
        for i in range(8):
            os.makedirs(os.path.join(ctx.scratch, "v%d" % i), exist_ok=True)
        with concurrent.futures.ThreadPoolExecutor(8) as ex:
            outs = list(ex.map(run_shard, range(8)))
        sync_avail = any(o["sync_point_available"] for o in outs)
        inlock_reached = any(o["inlock_point_reached"] for o in outs)
        n_inlock = n_inlock_progress = n_prelock = 0
        by_id = {}
        for o in outs:
            for s in o["scenarios"]:
                by_id[s["id"]] = s
        findings = {}          # key -> list of witnesses
        shapes, runs = set(), []
        n_mixed = n_version_mix = n_outcome_mix = n_restart = 0
        for sc in scs:
            s = by_id[sc["id"]]
            if s["setup_error"]:
                raise RuntimeError("scenario %s: %s" % (sc["id"], s["setup_error"]))
            if s["needs_restart"]:
                n_restart += 1
                continue
            for rr in s["results"]:
                rq = sc["requests"][rr["request"]]
                for m in rr["mixed"]:
                    n_mixed += 1
                    evaluations += 1
                    vers = classify(rr["old"], rr["new"], m)
                    cbs = tuple(c["cb"] for c in m["calls"])
                    mode = "full" if m["mode"].startswith("full") else (m["mode"] if m["mode"] in ("inlock", "prelock") else "window")
                    k = m["position"] if mode == "full" else max(m["position"], 0)
                    if mode == "prelock":
                        n_prelock += 1
                    if mode == "inlock":
                        n_inlock += 1
                        if m["progress"]:
                            n_inlock_progress += 1
                    shapes.add((cbs, mode, k))
                    runs.append((sc, rq, rr, m, vers, cbs, mode, k))
        pred, plog = model_predictions(ctx, shapes)
        if pred is None:
            raise RuntimeError("model schedules could not be evaluated:\n" + plog[-2000:])
        vecs = set()
        for (sc, rq, rr, m, vers, cbs, mode, k) in runs:
            vecs.add(tuple(int(v) for v in vers if v in "01"))
        ov = coq_one_version(ctx, vecs)
        if ov is None:
            raise RuntimeError("one_version could not be evaluated")
        corr_mism = []
        for (sc, rq, rr, m, vers, cbs, mode, k) in runs:
            per, model_ok = pred[(cbs, mode, k)]
            # step correspondence: every accessor whose answer identifies a version saw the version the model predicts
            for cb, v, pv in zip(cbs, vers, per):
                if v in "01" and len(set(pv)) == 1 and int(v) != pv[0]:
                    corr_mism.append({"scenario": sc["id"], "request": rq, "mode": m["mode"], "callback": cb, "observed": v, "model": pv})
            obs_ok = ov[tuple(int(v) for v in vers if v in "01")]
            if not obs_ok:
                n_version_mix += 1
            outcome_mix = m["outcome"] not in (rr["old"]["outcome"], rr["new"]["outcome"])
            if not outcome_mix:
                continue
            n_outcome_mix += 1
            if obs_ok and mode == "full":
                # an outcome that is neither old nor new although every identifiable read agrees: not explained by the model
                key = "reload-unexplained-outcome"
            elif mode == "prelock":
                key = "reload-early-publish"        # part of the new configuration is live before the reload's critical section
            elif mode == "inlock":
                key = "reload-two-lock-window"      # a request was served between the two halves although they share a critical section
            elif mode == "window":
                key = "reload-two-lock-window" if (k == 0 and len(points) == 2) else "reload-lock-window:" + points[k]
            else:
                xs = [cb for cb, v in list(zip(cbs, vers))[:k] if v == "0"]
                ys = [cb for cb, v in list(zip(cbs, vers))[k:] if v == "1"]
                key = "reload-per-request-reads:%s->%s" % (xs[-1] if xs else cbs[k - 1], ys[0] if ys else cbs[min(k, len(cbs) - 1)])
            wit = {"scenario": sc["id"], "old_config": sc["old"], "new_config": sc["new"], "request": rq,
                   "schedule": ("request runs accessors %s; reloadConfig(new) runs completely before accessor #%d (%s)" % (list(cbs), k + 1, cbs[k] if k < len(cbs) else "-"))
                   if mode == "full" else ("reloadConfig(new) is held at %s; the whole request is issued; then the reload continues" % m["via"]),
                   "accessor_versions": list(zip(cbs, vers)), "outcome": m["outcome"],
                   "outcome_all_old": rr["old"]["outcome"], "outcome_all_new": rr["new"]["outcome"]}
            findings.setdefault(key, []).append(wit)
            nontrivial.add((key, sc["id"]))
        for cm in corr_mism[:5]:
            _report(ctx, "reload-model-mismatch:" + cm["callback"], "accessor saw version %s, Model/Reload.v predicts %s" % (cm["observed"], cm["model"]),
                     {"kind": "schedule", "case": cm})
        WHAT = {
            "reload-early-publish": "a request served while reloadConfig is still before its critical section (secrets loaded, nothing published yet) is already decided partly under the new configuration",
            "reload-two-lock-window": "a request served while reloadConfig is between its two critical sections (loadAuth has published the new authenticator/allowlist tables, updateAll has not yet published the new route table, pull mapping and limiters) is decided under a mixture of the old and the new configuration",
        }
        for key in sorted(findings):
            ws = sorted(findings[key], key=lambda w: (len(w["old_config"]) + len(w["new_config"]), json.dumps(w["request"], sort_keys=True)))
            if key.startswith("reload-per-request-reads:"):
                a, b = key.split(":", 1)[1].split("->")
                what = ("a reload that completes between the locked accessors %s and %s of ONE request makes that request use the old configuration in %s and the new one in %s; "
                        "its outcome is neither the all-old nor the all-new outcome" % (a, b, a, b))
            else:
                what = WHAT.get(key, key)
            _report(ctx, key, what, {"kind": "schedule", "case": ws[0], "witnesses": len(ws), "other_scenarios": sorted({w["scenario"] for w in ws})[:12]})
        dist.update({"visibility_scenarios": len(scs), "visibility_restart_skipped": n_restart, "mixed_runs": n_mixed,
                     "runs_with_version_mixture": n_version_mix, "runs_with_observable_mixture": n_outcome_mix,
                     "distinct_request_shapes_checked_against_model": len(shapes), "sync_points": points, "windows_between_sync_points_entered": sync_avail,
                     "prelock_point_placed": prelock, "requests_served_while_reload_held_just_before_its_critical_section": n_prelock,
                     "inlock_point_placed": inlock, "inlock_point_reached": inlock_reached, "requests_issued_while_reload_inside_its_critical_section": n_inlock,
                     "of_which_got_an_accessor_answer_before_the_reload_left_it": n_inlock_progress,
                     "mixture_keys": {k: len(v) for k, v in sorted(findings.items())}})
        if findings:
            k0 = sorted(findings)[0]
            samples.append({"part": "b", "key": k0, "witness": {k: v for k, v in findings[k0][0].items() if k not in ("old_config", "new_config")}})

        # real goroutine scheduling (evidence only: the mixtures are the known D5 windows, reached without any hook)
        if ctx.tier != "quick":
            rc, out, err = C.harness_run(hbin, ["reload-stress"], {
                "dir": os.path.join(ctx.scratch, "stress"), "old": vis_config(("hmac", None, None)), "new": vis_config(("basic", None, None)),
                "probe": {"method": "POST", "path": "/a", "body_len": 8}, "workers": 12, "millis": 20000, "old_codes": [401], "new_codes": [401]})
            if rc != 0:
                raise RuntimeError("reload-stress: " + err[-2000:])
            dist["concurrent_stress_hmac_to_basic_unauthenticated_request"] = json.loads(out)

    else:
        dist["part_b_skipped"] = "no sync point could be placed (reported as model-stale)"
        n_mixed, mres = 0, []
    # ------------------------------------------------------------------ (c)
    fsdir = os.path.join(ctx.scratch, "fs")
    os.makedirs(fsdir, exist_ok=True)
    OLD = config(running_routes()).encode()
    NEW = config(delta_routes(), **DELTA_KW).encode()
    contents = [("cfg", OLD, NEW), ("short", b"old\n", b"n"), ("empty-new", OLD, b""), ("binary", bytes(range(256)), bytes(reversed(range(256))) * 3)]
    if ctx.tier != "quick":
        for i in range(6):
            contents.append(("rand%d" % i, bytes(rng.randrange(256) for _ in range(rng.randrange(1, 3000))), bytes(rng.randrange(256) for _ in range(rng.randrange(0, 6000)))))
    flavours = ["app", "mcp", "mcp-rollback"]
    jobs = []
    for fl in flavours:
        for (cn, old, new) in contents:
            jobs.append((fl, cn, old, new))
        # the configured path is a symbolic link to a file in another directory (a "current release" layout)
        jobs.append((fl, "cfg@link", OLD, NEW))
        jobs.append((fl, "short@link", b"old\n", b"n"))

    def clean_run(job):
        fl, cn, old, new = job
        d = os.path.join(fsdir, "%s-%s" % (fl, cn))
        os.makedirs(d, exist_ok=True)
        p = os.path.join(d, "Hookaidofile")
        if cn.endswith("@link"):
            shutil.rmtree(d, ignore_errors=True)
            os.makedirs(os.path.join(d, "real"))
            real = os.path.join(d, "real", "Hookaidofile")
            open(real, "wb").write(old)
            os.chmod(real, 0o640)
            os.symlink(real, p)
        else:
            open(p, "wb").write(old)
            os.chmod(p, 0o640)
        rc, out, err, tr = strace_run(hbin, d, "clean", {"flavour": fl, "path": p, "data_b64": base64.b64encode(new).decode()})
        return job, d, p, rc, out, err, tr
    with concurrent.futures.ThreadPoolExecutor(12) as ex:
        cleans = list(ex.map(clean_run, jobs))
    coq_terms, kill_jobs, trace_info = [], [], []
    for (job, d, p, rc, out, err, tr) in cleans:
        fl, cn, old, new = job
        evaluations += 1
        rep = {"kind": "crashpoint", "case": {"flavour": fl, "content": cn, "old_len": len(old), "new_len": len(new)}}
        calls = read_trace(tr)
        win = window(calls)
        if rc != 0 or win is None:
            raise RuntimeError("strace run failed (%s %s): rc=%s %s" % (fl, cn, rc, err[-500:]))
        childerr = json.loads(out)["err"]
        after = open(p, "rb").read()
        mode_after = os.stat(p).st_mode & 0o777
        stray = [n for n in os.listdir(d) if n not in ("Hookaidofile", "clean.trace", "real")]
        ops = to_fsops(calls[win[0] + 1:win[1]], p)
        rep["trace"] = [list(o[:2]) + ([len(o[2])] if o[0] == "Write" else list(o[2:])) for o in ops]
        if childerr or after != new:
            _report(ctx, "fs-replace-failed:" + fl, "writeFileAtomic returned %r / file does not hold the new content afterwards" % childerr, rep)
        if mode_after != 0o640:
            _report(ctx, "fs-replace-mode:" + fl, "file mode %o after the replacement (was 640)" % mode_after, rep)
        if stray:
            _report(ctx, "fs-stray-temp:" + fl, "files left behind by a successful replacement: %s" % stray, rep)
        P, tr_coq = coq_fsops(ops, p)
        coq_terms.append("replace_ok %s %s %s" % (P, C.coq_bytes(new), tr_coq))
        trace_info.append((job, rep, ops))
        # kill points: every syscall of the main thread inside the window (+ the end marker)
        main_pid = calls[0][0]
        counts, pts = {}, []
        for idx, (pid, name, args, ret) in enumerate(calls):
            if pid != main_pid or ret is None and not name.isidentifier():
                continue
            if not name.isidentifier():
                continue
            counts[name] = counts.get(name, 0) + 1
            if win[0] < idx <= win[1] and name not in ("fcntl", "epoll_ctl"):
                pts.append((name, counts[name], idx - win[0]))
        if cn in ("cfg", "short", "cfg@link", "short@link") or ctx.tier != "quick":
            for (name, nth, pos) in pts:
                kill_jobs.append((job, name, nth, pos, len(pts)))
    bodies = []
    for i in range(0, len(coq_terms), 4):
        bodies.append("\n".join(["From Coq Require Import List NArith.", "From HK Require Import Model.FsAtomic.", "Import ListNotations.",
                                 "Definition R := Eval vm_compute in [%s]." % ";\n ".join(coq_terms[i:i + 4]), "Print R."]) + "\n")
    verdicts = []
    for rc, out in C.coq_eval_shards(ctx, "c18fs", bodies):
        flat = " ".join(out.split())
        m = re.search(r"R\s*=\s*\[(.*?)\]\s*:\s*list", flat)
        if rc != 0 or not m:
            raise RuntimeError("replace_ok could not be evaluated:\n" + out[-2000:])
        verdicts += re.findall(r"true|false", m.group(1))
    if len(verdicts) != len(trace_info):
        raise RuntimeError("replace_ok verdict count mismatch")
    n_accept = 0
    for (job, rep, ops), v in zip(trace_info, verdicts):
        if v == "true":
            n_accept += 1
            nontrivial.add(("trace", job[0], job[1]))
        else:
            _report(ctx, "fs-replace-not-atomic:" + job[0],
                     "the syscall trace of the real %s is not accepted by replace_ok (temp file in the same directory, full content written and fsynced before the rename onto the target, directory fsync after)" % job[0], rep)
    if trace_info and len(samples) < 8:
        samples.append({"part": "c", "flavour": trace_info[0][0][0], "fsops": trace_info[0][1]["trace"]})

    def kill_run(kj):
        (fl, cn, old, new), name, nth, pos, npts = kj
        d = os.path.join(fsdir, "%s-%s-kill-%s-%d" % (fl, cn, name, nth))
        os.makedirs(d, exist_ok=True)
        p = os.path.join(d, "Hookaidofile")
        if cn.endswith("@link"):
            shutil.rmtree(d, ignore_errors=True)
            os.makedirs(os.path.join(d, "real"))
            open(os.path.join(d, "real", "Hookaidofile"), "wb").write(old)
            os.symlink(os.path.join(d, "real", "Hookaidofile"), p)
        else:
            open(p, "wb").write(old)
        rc, out, err, tr = strace_run(hbin, d, "kill", {"flavour": fl, "path": p, "data_b64": base64.b64encode(new).decode()},
                                      extra=["-e", "inject=%s:signal=SIGKILL:when=%d" % (name, nth)])
        calls = read_trace(tr)
        killed = any(c[1].startswith("+++ killed by SIGKILL") for c in calls)
        try:
            content = open(p, "rb").read()
        except OSError:
            content = None
        names = sorted(n for n in os.listdir(d) if n not in ("kill.trace", "real"))
        # the replacement still works afterwards (a stray temp file must not be in the way)
        again = subprocess.run([hbin, "fsatomic-child"], input=json.dumps({"flavour": fl if fl != "mcp-rollback" else "mcp", "path": p, "data_b64": base64.b64encode(b"again\n").decode()}),
                               text=True, stdout=subprocess.PIPE, stderr=subprocess.PIPE)
        again_ok = again.returncode == 0 and open(p, "rb").read() == b"again\n"
        return kj, killed, content, names, again_ok
    with concurrent.futures.ThreadPoolExecutor(14) as ex:
        kills = list(ex.map(kill_run, kill_jobs))
    n_killed = 0
    sides = {"old": 0, "new": 0}
    for (kj, killed, content, names, again_ok) in kills:
        (fl, cn, old, new), name, nth, pos, npts = kj
        evaluations += 1
        rep = {"kind": "crashpoint", "case": {"flavour": fl, "content": cn, "kill_at": "%s #%d (syscall %d of %d in the replacement)" % (name, nth, pos, npts)},
               "observed": {"killed": killed, "content_len": None if content is None else len(content), "dir": names}}
        if not killed:
            continue
        n_killed += 1
        nontrivial.add(("kill", fl, name, nth))
        if content == old:
            sides["old"] += 1
        elif content == new:
            sides["new"] += 1
        else:
            _report(ctx, "fs-kill-torn:" + fl, "after SIGKILL at %s #%d the file holds neither the complete old nor the complete new content" % (name, nth), rep)
        bad = [n for n in names if n != "Hookaidofile" and not re.match(r"^\.Hookaidofile\.tmp-\d+$", n)]
        if bad or len(names) > 2:
            _report(ctx, "fs-stray-temp:" + fl, "after SIGKILL the directory holds %s (a leftover must be one hidden .<name>.tmp-* file)" % names, rep)
        if not again_ok:
            _report(ctx, "fs-kill-blocks-next:" + fl, "after SIGKILL at %s #%d the next replacement of the file fails" % (name, nth), rep)
    if kill_jobs and n_killed < 0.8 * len(kill_jobs):
        raise RuntimeError("kill injection hit only %d of %d points" % (n_killed, len(kill_jobs)))
    if not (sides["old"] and sides["new"]):
        raise RuntimeError("kill points did not cover both sides of the rename: %s" % sides)
    dist.update({"fs_traces": len(trace_info), "fs_traces_accepted_by_replace_ok": n_accept, "kill_points": len(kill_jobs),
                 "kill_points_hit": n_killed, "kill_side": sides})

    # ------------------------------------------------------------------ (d)
    mcases, mres, mmcases, mmres = run_mutations(ctx, hbin, rng)
    for c, r in zip(mcases, mres):
        evaluations += 1
        judge_app_mutation(ctx, c, r, nontrivial)
    for c, r in zip(mmcases, mmres):
        evaluations += 1
        judge_mcp_mutation(ctx, c, r, nontrivial)
    dist.update({"app_mutation_cases": len(mcases), "mcp_mutation_cases": len(mmcases)})
    samples.append({"part": "d", "case": mcases[1]["name"], "observed": {k: mres[1][k] for k in ("err", "applied", "file_same", "mid_seen", "mid_compiles")}})

    # ------------------------------------------------------------------ (e) a refused reload and what the authenticators REMEMBER
    mem = refused_reload_keeps_memory(ctx, hbin, rng)
    dist["refused_reload_memory"] = mem
    evaluations += mem["requests"]

    # ------------------------------------------------------------------ lint / model freshness
    if lint:
        if ctx.violations:
            ctx.notes.append("source no longer matches what Model/Reload.v says: %s" % lint)
        else:
            _report(ctx, "model-stale", "run.go/http.go no longer match what Model/Reload.v encodes: " + "; ".join(lint),
                     {"kind": "obligation", "no_failing_input_found": True, "discrepancies": lint,
                      "note": "failed-reload cases, visibility scenarios, file traces and mutations were run on the implementation and showed no unlisted property failure"})
    # a reload must not be reported as applied while the push dispatcher keeps values it was built from at start-up (lib/restartclass.py)
    from lib import restartclass
    dist.update(restartclass.run(ctx, info))
    cov.update({
        "evaluations": evaluations,
        "distinct_nontrivial": len(nontrivial),
        "rule": "distinct (a) failure-injection cases that reached their failure exit with a reloadable delta present, (b) (mixture key, config pair) with an outcome that is neither all-old nor all-new, (c) syscall traces accepted by replace_ok and kill points that hit, (d) mutation cases that wrote the file or were refused for a property-relevant reason",
        "samples": samples[:10],
        "traces_validated_against_impl": n_mixed + len(trace_info) + len(res_a) + len(mres) + len(mmres),
        "exhaustive": "part (b): all ordered pairs of 17 route variants (absent | auth x max_body x rate_limit) x every reload position x credential/body variants; plus 20 admission-settings scenarios (lenient<->strict x 5 route pairs x 2 backlogs) at the sync points",
        "input_distribution": dist,
        "source_lint": lint,
    })
    return C.conclude(ctx, info, cov, assumptions,
                      searched_note="failed-reload cases, visibility scenarios, file traces and mutations were run on the implementation")


# ---------------------------------------------------------------------------
# (d)
# ---------------------------------------------------------------------------

MUT_BASE = """# operator's file: comments and odd spacing must come back byte for byte on roll-back
ingress {
    listen   ":18080"
}
pull_api {
  listen ":19443"
  auth token "raw:pt-global"
}
admin_api { listen "__ADMIN__" }

"/m1" {
  application "app1"
  endpoint_name "ep1"
  pull { path /pull/m1 }
}
"/m2" {
  pull { path /pull/m2 }
}
"/m3" {
  publish { enabled off }
  pull { path /pull/m3 }
}
"""


def refused_reload_keeps_memory(ctx, hbin, rng):
    """A reload that is refused (a later route's secret cannot be loaded) would have raised the tolerance of an earlier HMAC route.
    "Exactly as before" includes what the running authenticator remembers: a nonce re-used legitimately after the OLD window is
    accepted, a replay inside it refused - the statuses a process that never saw the refused file gives (real ingress server,
    runtimeState and reloadConfig over loopback; clock injected)."""
    from lib import authgen as G
    SEC = 10 ** 9
    DUR = {"1s": SEC, "2s": 2 * SEC, "5m": 300 * SEC, "10m": 600 * SEC}
    ts = 1_700_000_000 + rng.randrange(0, 100000)
    t = ts * SEC

    def text(tol, unloadable):
        s = G.PRELUDE + G.route_block("/hooks", G.hmac_block(secrets=["raw:k1"], tolerance=tol)) + G.route_block("/other")
        if unloadable:
            s += G.route_block("/zlate", G.hmac_block(secrets=["env:VERIF_C18_UNSET_SECRET"], tolerance="5m"))
        return s

    def request(tsv, nonce):
        body = b'{"a":1}'
        hs = [("X-Signature", G.sign(b"k1", str(tsv), "POST", "/hooks", body)), ("X-Timestamp", str(tsv)), ("X-Nonce", nonce)]
        return G.b64(G.wire("POST", "/hooks", hs, body))
    scen, wants = [], []
    for k, (old_tol, new_tol) in enumerate((("1s", "5m"), ("2s", "10m"), ("5m", "10m"))):
        late = DUR[old_tol] + SEC
        r1, r2 = request(ts, "mem-%d" % k), request(ts + late // SEC, "mem-%d" % k)

        def rq(now, w):
            return {"op": "req", "now": now, "wire": w, "half": False, "fwd": "", "fail_at": 0}
        for variant in ("refused", "control"):
            steps = [{"op": "load", "cfg": 0}, rq(t, r1), rq(t + 1, r1)]
            if variant == "refused":
                steps += [{"op": "load", "cfg": 1}, {"op": "load", "cfg": 1}]
            steps += [rq(t + DUR[old_tol], r1), rq(t + late, r2), rq(t + late + 1, r2)]
            scen.append({"name": "mem-%s-%d" % (variant, k), "configs": [text(old_tol, False), text(new_tol, True)], "env": {}, "steps": steps})
            wants.append((variant, old_tol, new_tol))
    rc, out, err = C.harness_run(hbin, ["auth-run"], {"dir": os.path.join(ctx.scratch, "c18mem"), "scenarios": scen}, timeout=300)
    if rc != 0:
        raise RuntimeError("auth-run (refused reload memory) failed: " + err[-1500:])
    res = json.loads(out)
    stats = {"scenarios": len(scen), "requests": 0, "refused_reloads": 0}
    control = {}
    for s, (variant, old_tol, new_tol), im in zip(scen, wants, res):
        if im.get("err"):
            raise RuntimeError("scenario %s: %s" % (s["name"], im["err"]))
        statuses = [io["status"] for st, io in zip(s["steps"], im["steps"]) if st["op"] == "req"]
        stats["requests"] += len(statuses)
        loads = [io["load_ok"] for st, io in zip(s["steps"], im["steps"]) if st["op"] == "load"]
        if variant == "control":
            control[(old_tol, new_tol)] = statuses
            continue
        stats["refused_reloads"] += sum(1 for x in loads[1:] if not x)
        rep = {"kind": "fault_sequence", "case": {"old_tolerance": old_tol, "refused_file_tolerance": new_tol, "steps": [dict(st, wire="...") for st in s["steps"]],
                                                "refused_file": s["configs"][1]}, "observed": {"statuses": statuses, "reloads_ok": loads}}
        if any(loads[1:]):
            _report(ctx, "reload-failed-but-applied:unloadable-secret", "a file whose later route names an unloadable secret was accepted by reloadConfig", rep)
        wants_s = control.get((old_tol, new_tol))
    # compare after all controls are known
    for s, (variant, old_tol, new_tol), im in zip(scen, wants, res):
        if variant != "refused":
            continue
        statuses = [io["status"] for st, io in zip(s["steps"], im["steps"]) if st["op"] == "req"]
        want = control[(old_tol, new_tol)]
        if statuses != want or want != [202, 401, 401, 202, 401]:
            _report(ctx, "reload-failed-but-changed:authenticator-memory",
                    "tolerance %s, refused file would have set %s: the requests (accepted, replay, replay at the window edge, same nonce under a fresh "
                    "timestamp after the window, its replay) are answered %s after two refused reloads; a process that never saw the refused file answers %s "
                    "(and the window semantics give [202, 401, 401, 202, 401])" % (old_tol, new_tol, statuses, want),
                    {"kind": "fault_sequence", "case": {"old_tolerance": old_tol, "refused_file_tolerance": new_tol, "refused_file": s["configs"][1],
                                                        "steps": [dict(st, wire="...") for st in s["steps"]]},
                     "observed": {"statuses": statuses}, "expected": {"statuses": want}})
    return stats


def run_mutations(ctx, hbin, rng):
    base = MUT_BASE.replace("__ADMIN__", "127.0.0.1:19444")
    base_env = base.replace('auth token "raw:pt-global"', 'auth token "env:VERIF_C18_M1"')
    probes = {"ingress": [{"method": "POST", "path": p, "body_len": 3} for p in ("/m1", "/m2", "/m3")],
              "pull": [{"path": p, "token": "pt-global"} for p in ("/pull/m1", "/pull/m2")],
              "admin": [{"method": "GET", "path": "/management/model", "token": ""},
                        {"method": "POST", "path": "/applications/app1/endpoints/ep1/messages/publish", "token": "", "body": json.dumps({"items": [{"id": "m1", "payload_b64": "eA=="}]})},
                        {"method": "POST", "path": "/applications/app2/endpoints/ep2/messages/publish", "token": "", "body": json.dumps({"items": [{"id": "m2", "payload_b64": "eA=="}]})}],
              "worker": [], "seed_routes": ["/m1", "/m2"]}

    def mc(name, expect, config=base, **kw):
        m = {"kind": kw.pop("kind", "upsert"), "application": kw.pop("application", "app2"), "endpoint_name": kw.pop("endpoint_name", "ep2"),
             "route": kw.pop("route", "/m2")}
        for k in ("set_ingress_listen", "break_route", "post_write_fail"):
            if k in kw:
                m[k] = kw.pop(k)
        c = {"name": name, "expect": expect, "config": config, "mutation": m, "probes": probes}
        c.update(kw)
        return c
    cases = [
        mc("upsert-new-endpoint", "applied"),
        mc("move-endpoint", "applied", application="app1", endpoint_name="ep1", route="/m2"),
        mc("delete-endpoint", "applied", kind="delete", application="app1", endpoint_name="ep1"),
        mc("noop-upsert", "unchanged", application="app1", endpoint_name="ep1", route="/m1"),
        mc("upsert-unknown-route", "unchanged", route="/nope"),
        mc("upsert-publish-disabled", "unchanged", route="/m3"),
        mc("delete-unknown", "unchanged", kind="delete", application="zz", endpoint_name="zz"),
        mc("move-with-backlog", "unchanged", application="app1", endpoint_name="ep1", route="/m2", backlog_routes=["/m1"]),
        mc("candidate-does-not-compile", "unchanged", kind="custom", break_route="/m2"),
        mc("post-write-validation-fails", "rolled-back", post_write_fail=True),
        mc("post-write-validation-fails-on-move", "rolled-back", application="app1", endpoint_name="ep1", route="/m2", post_write_fail=True),
        mc("reload-needs-restart", "rolled-back", kind="custom", set_ingress_listen=":18099"),
        # the operator staged a restart-only edit (its reload was refused: the running configuration is still `base`); a management
        # mutation on top of the staged file still needs the restart and must not bring the staged content into force
        mc("mutation-on-staged-restart-only-edit", "rolled-back", staged_file=base.replace('listen   ":18080"', 'listen   ":18097"')),
        mc("delete-on-staged-restart-only-edit", "rolled-back", kind="delete", application="app1", endpoint_name="ep1",
           staged_file=base.replace('listen   ":18080"', 'listen   ":18097"')),
        # the operator's file has CRLF line endings (or a lone CR): valid input; a failed mutation puts THOSE bytes back
        mc("crlf-post-write-validation-fails", "rolled-back", config=base.replace("\n", "\r\n"), post_write_fail=True),
        mc("crlf-reload-needs-restart", "rolled-back", kind="custom", config=base.replace("\n", "\r\n"), set_ingress_listen=":18099"),
        mc("crlf-move-post-write-validation-fails", "rolled-back", config=base.replace("\n", "\r\n"), application="app1", endpoint_name="ep1", route="/m2", post_write_fail=True),
        mc("lone-cr-post-write-validation-fails", "rolled-back", config=base.replace("ingress {\n", "ingress {\r", 1), post_write_fail=True),
        mc("crlf-upsert-new-endpoint", "applied", config=base.replace("\n", "\r\n")),
        mc("reload-secret-missing", "rolled-back", config=base_env, env_set={"VERIF_C18_M1": "pt-global"}, env_unset=["VERIF_C18_M1"]),
        mc("delete-reload-secret-missing", "rolled-back", kind="delete", application="app1", endpoint_name="ep1", config=base_env,
           env_set={"VERIF_C18_M1": "pt-global"}, env_unset=["VERIF_C18_M1"]),
    ]
    rc, out, err = C.harness_run(hbin, ["reload-mutate"], {"dir": ctx.scratch, "cases": cases})
    if rc != 0:
        raise RuntimeError("reload-mutate: " + err[-2000:])
    res = json.loads(out)

    new_content = MUT_BASE.replace('"/m2" {', '"/m2" {\n  application "app9"\n  endpoint_name "ep9"')
    bad_parse = MUT_BASE + "{{{\n"
    bad_compile = MUT_BASE + MUT_BASE[MUT_BASE.index('"/m3"'):]
    up = {"application": "app2", "endpoint_name": "ep2", "route": "/m2", "reason": "verif"}
    dl = {"application": "app1", "endpoint_name": "ep1", "reason": "verif"}

    def mm(name, tool, expect, initial=MUT_BASE, health="ok", **args):
        return {"name": name, "tool": tool, "expect": expect, "initial": initial, "health": health, "args": args,
                "env_set": args.pop("env_set", None) or {}}
    mcases = [
        mm("apply-write-only", "config_apply", "applied", content=new_content, mode="write_only"),
        mm("apply-preview", "config_apply", "unchanged", content=new_content, mode="preview_only"),
        mm("apply-parse-error", "config_apply", "unchanged", content=bad_parse, mode="write_only"),
        mm("apply-compile-error", "config_apply", "unchanged", content=bad_compile, mode="write_only"),
        mm("apply-compile-error-reload", "config_apply", "unchanged", content=bad_compile, mode="write_and_reload", reload_timeout="300ms"),
        mm("apply-reload-ok", "config_apply", "applied", content=new_content, mode="write_and_reload", reload_timeout="2s"),
        mm("apply-reload-health-503", "config_apply", "rolled-back", health="503", content=new_content, mode="write_and_reload", reload_timeout="300ms"),
        mm("apply-reload-health-closed", "config_apply", "rolled-back", health="closed", content=new_content, mode="write_and_reload", reload_timeout="300ms"),
        mm("apply-reload-token-missing", "config_apply", "rolled-back", content=new_content.replace('listen "__ADMIN__" }', 'listen "__ADMIN__"\n  auth token "env:VERIF_C18_MISSING"\n}'),
           mode="write_and_reload", reload_timeout="300ms"),
        mm("apply-reload-new-file-health-closed", "config_apply", "rolled-back", initial=None, health="closed", content=new_content, mode="write_and_reload", reload_timeout="300ms"),
        mm("apply-write-only-new-file", "config_apply", "applied", initial=None, content=new_content, mode="write_only"),
        mm("upsert-write-only", "management_endpoint_upsert", "applied", mode="write_only", **up),
        mm("upsert-reload-ok", "management_endpoint_upsert", "applied", mode="write_and_reload", reload_timeout="2s", **up),
        mm("upsert-reload-health-closed", "management_endpoint_upsert", "rolled-back", health="closed", mode="write_and_reload", reload_timeout="300ms", **up),
        mm("upsert-reload-health-503", "management_endpoint_upsert", "rolled-back", health="503", mode="write_and_reload", reload_timeout="300ms", **up),
        mm("upsert-unknown-route", "management_endpoint_upsert", "unchanged", mode="write_only", application="app2", endpoint_name="ep2", route="/nope", reason="verif"),
        mm("delete-write-only", "management_endpoint_delete", "applied", mode="write_only", **dl),
        mm("delete-reload-health-closed", "management_endpoint_delete", "rolled-back", health="closed", mode="write_and_reload", reload_timeout="300ms", **dl),
        mm("delete-unknown", "management_endpoint_delete", "unchanged", mode="write_only", application="zz", endpoint_name="zz", reason="verif"),
    ]
    os.makedirs(os.path.join(ctx.scratch, "mm"), exist_ok=True)
    half = (len(mcases) + 1) // 2
    parts = [mcases[i::4] for i in range(4)]

    def run_part(i):
        d = os.path.join(ctx.scratch, "mm", str(i))
        os.makedirs(d, exist_ok=True)
        rc, out, err = C.harness_run(hbin, ["mcp-mutate"], {"dir": d, "cases": parts[i]})
        if rc != 0:
            raise RuntimeError("mcp-mutate: " + err[-2000:])
        return json.loads(out)
    with concurrent.futures.ThreadPoolExecutor(4) as ex:
        outs = list(ex.map(run_part, range(4)))
    flat_cases, flat_res = [], []
    for i in range(4):
        flat_cases += parts[i]
        flat_res += outs[i]
    return cases, res, flat_cases, flat_res


def judge_app_mutation(ctx, c, r, nontrivial):
    if r["setup_error"]:
        raise RuntimeError("mutation case %s: %s" % (c["name"], r["setup_error"]))
    rep = {"kind": "fault_sequence", "case": {k: v for k, v in c.items() if k != "probes"}, "observed": r}
    exp = c["expect"]
    key = None
    problems = []
    if r["mid_seen"] and not r["mid_compiles"]:
        problems.append("the bytes written to the file do not compile")
        key = "mutation-unvalidated-write:app"
    if not r["file_compiles"]:
        problems.append("the file does not compile afterwards")
        key = key or "mutation-unvalidated-write:app"
    if exp == "applied":
        if r["err"] or not r["applied"]:
            problems.append("a valid mutation was not applied: %s" % r["err"])
            key = key or "mutation-refused:app"
        elif r["file_same"] or not r["fp_equals_fresh_file"] or r["returned_running"]:
            problems.append("applied, but file changed=%s, state decides like the new file=%s, running config updated=%s"
                            % (not r["file_same"], r["fp_equals_fresh_file"], not r["returned_running"]))
            key = key or "mutation-incomplete:app"
        nontrivial.add(("mut", c["name"]))
    else:
        if not r["file_same"]:
            problems.append("the file is not byte-identical to the previous content after a mutation that was not applied")
            key = key or ("mutation-rollback:app" if exp == "rolled-back" else "mutation-failed-but-wrote:app")
        if not r["fp_same"] or not r["returned_running"]:
            problems.append("running behaviour changed although the mutation failed: %s" % r["fp_diff"][:4])
            key = key or "mutation-failed-but-reloaded:app"
        if exp == "rolled-back":
            if not r["mid_seen"] and c["mutation"].get("post_write_fail"):
                problems.append("post-write validation was never reached")
            if not r["err"]:
                problems.append("no error reported")
                key = key or "mutation-rollback:app"
            nontrivial.add(("mut", c["name"]))
        if exp == "unchanged" and r["mid_seen"] and c["name"] == "candidate-does-not-compile":
            problems.append("the file was written although the candidate does not compile")
            key = key or "mutation-unvalidated-write:app"
    if r["stray_files"]:
        problems.append("stray files %s" % r["stray_files"])
        key = key or "fs-stray-temp:app"
    if problems:
        _report(ctx, "%s:%s" % (key or "mutation:app", c["name"]), "; ".join(problems), rep)


def judge_mcp_mutation(ctx, c, r, nontrivial):
    rep = {"kind": "fault_sequence", "case": c, "observed": r}
    exp = c["expect"]
    problems, key = [], None
    if r["exists_after"] and not r["file_compiles"]:
        problems.append("the file does not compile afterwards")
        key = "mutation-unvalidated-write:mcp"
    if any(not x for x in r["mid_compiles"] or []):
        problems.append("the file seen by the reload verification does not compile")
        key = key or "mutation-unvalidated-write:mcp"
    if exp == "applied":
        if r["is_error"] or r["applied"] is not True or r["file_same"]:
            problems.append("a valid change was not applied (is_error=%s applied=%s): %s" % (r["is_error"], r["applied"], r["text"][:160]))
            key = key or "mutation-refused:mcp"
        nontrivial.add(("mcp", c["name"]))
    else:
        if not r["file_same"]:
            problems.append("the file is not what it was (byte for byte / still absent) after a change that was not applied")
            key = key or ("mutation-rollback:mcp" if exp == "rolled-back" else "mutation-failed-but-wrote:mcp")
        if r["applied"] is True or r["ok"] is True and exp == "rolled-back":
            problems.append("reported ok=%s applied=%s" % (r["ok"], r["applied"]))
            key = key or "mutation-rollback:mcp"
        if exp == "rolled-back":
            if r["rolled_back"] is not True:
                problems.append("rolled_back=%s" % r["rolled_back"])
                key = key or "mutation-rollback:mcp"
            if c["health"] == "503" and not r["health_hits"]:
                problems.append("the reload verification never ran")
            nontrivial.add(("mcp", c["name"]))
    if r["stray_files"]:
        problems.append("stray files %s" % r["stray_files"])
        key = key or "fs-stray-temp:mcp"
    if problems:
        _report(ctx, "%s:%s" % (key or "mutation:mcp", c["name"]), "; ".join(problems), rep)
