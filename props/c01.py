"""C01 - an acknowledged message is durable: no loss after 202/200.

The REAL binary (cmd/hookaido, built from /repo's working tree) is run on loopback ports with a
SQLite database; crash points are inserted by translate/crashpoints.go (go/ast) before and after every
statement that talks to the database, calls a Store method or writes a response, in copies of the
source files mounted with -overlay.  For a workload and every crash point n the process kills itself
(SIGKILL) at its n-th crash point, is restarted on the same database, and the recovered queue is
judged against the acknowledgements the client actually received (P_C01) and against the states the
Coq queue model computes for the acknowledged operations (with / without the in-flight one)."""
import base64
import concurrent.futures
import hashlib
import http.client
import json
import os
import random
import re
import shutil
import signal
import sqlite3
import subprocess
import time

from lib import common as C
from lib import queuecheck as Q

PTOK = "ptok-c01"
ATOK = "atok-c01"
FAN_TARGETS = ["http://127.0.0.1:1/a", "http://127.0.0.1:1/b", "http://127.0.0.1:1/c"]
# a route behind forward auth whose callout sees only the first 64 bytes of a body (body_limit): what is stored is the whole body
FWD_TARGETS = ["http://127.0.0.1:1/f1", "http://127.0.0.1:1/f2"]
ROUTE_TARGETS = {"pull": ["pull"], "fan": FAN_TARGETS, "fwd": FWD_TARGETS}
FWD_PORT = [0]


def start_forward_auth():
    """a forward-auth endpoint that approves every request (one per check run, loopback)"""
    import http.server
    import threading

    class H(http.server.BaseHTTPRequestHandler):
        def do_POST(self):
            n = int(self.headers.get("Content-Length") or 0)
            if n:
                self.rfile.read(n)
            self.send_response(200)
            self.send_header("Content-Length", "0")
            self.end_headers()
        do_GET = do_POST

        def log_message(self, *a):
            pass
    srv = http.server.ThreadingHTTPServer(("127.0.0.1", 0), H)
    srv.daemon_threads = True
    threading.Thread(target=srv.serve_forever, daemon=True).start()
    FWD_PORT[0] = srv.server_address[1]
    return srv


# retention as an operator would tighten it: a DLQ of at most two messages, pruned every second (age rules at their defaults)
RETENTION = 'queue_retention {\n  prune_interval 1s\n}\ndlq_retention {\n  max_depth 2\n}\n'


def hookaidofile(base, extra=RETENTION):
    t = "\n".join('  deliver "%s" {\n    retry exponential max 3 base 1h cap 1h jitter 0\n    timeout 1s\n  }' % u for u in FAN_TARGETS)
    tf = "\n".join('  deliver "%s" {\n    retry exponential max 3 base 1h cap 1h jitter 0\n    timeout 1s\n  }' % u for u in FWD_TARGETS)
    fwd = ('/hooks/fwd {\n  auth forward "http://127.0.0.1:%d/check" {\n    timeout 2s\n    body_limit 64\n  }\n%s\n}\n' % (FWD_PORT[0], tf)) if FWD_PORT[0] else ""
    return extra + fwd + ('ingress {\n  listen "127.0.0.1:%d"\n}\npull_api {\n  listen "127.0.0.1:%d"\n  auth token "raw:%s"\n}\n'
            'admin_api {\n  listen "127.0.0.1:%d"\n  auth token "raw:%s"\n}\n'
            'defaults {\n  egress {\n    https_only off\n    dns_rebind_protection off\n  }\n}\n'
            '/hooks/pull {\n  max_body 1kb\n  pull { path /pull/p }\n}\n/hooks/fan {\n%s\n}\n') % (base, base + 1, PTOK, base + 2, ATOK, t)


def body_for(marker):
    # markers starting with "B" carry a body of about 3 KB: more than the pull route's max_body (1 KB)
    n = 3000 if marker.startswith("B") else 200
    core = ("%s|" % marker).encode() + bytes((i * 37 + len(marker)) % 256 for i in range(n))
    return core + hashlib.sha256(core).hexdigest().encode()


def chunked(marker):
    """markers starting with "B" or "c" are sent without a Content-Length (Transfer-Encoding: chunked, several chunks)"""
    return marker.startswith(("B", "c"))


def body_ok(b):
    return len(b) > 64 and hashlib.sha256(b[:-64]).hexdigest().encode() == b[-64:]


def gen_workload(rng):
    steps = []
    n = rng.randint(6, 12)
    leases = 0
    ctr = 0
    for i in range(n):
        r = rng.random()
        ctr += 1
        if r < 0.06:
            # a streamed body (no Content-Length): within the route's max_body, or three times over it (answered 413, nothing stored;
            # whatever is acknowledged with 202 must be stored whole)
            steps.append({"op": "ingress", "route": "pull", "marker": "%s%d" % (rng.choice(["B", "c"]), ctr)})
        elif r < 0.22:
            steps.append({"op": "ingress", "route": "pull", "marker": "m%d" % ctr})
        elif r < 0.40:
            steps.append({"op": "ingress", "route": rng.choice(["fan", "fan", "fwd"]), "marker": "m%d" % ctr})
        elif r < 0.55:
            k = rng.choice([1, 2, 3])
            steps.append({"op": "publish", "items": [{"id": "pub-%d-%d" % (ctr, j), "marker": "m%d_%d" % (ctr, j)} for j in range(k)]})
        elif r < 0.75:
            steps.append({"op": "dequeue", "batch": rng.choice([1, 2, 3])})
            leases += 1
        elif r < 0.82:
            # a lease batch in which no lease is live (a consumer answering after its leases were given to someone else)
            steps.append({"op": "stalebatch", "kind": rng.choice(["ack", "nack", "dead"])})
        elif leases > 0:
            steps.append({"op": rng.choice(["ack", "ack", "nack", "dead", "extend"]), "ref": [rng.randrange(leases), rng.choice([0, 0, 1])]})
        else:
            steps.append({"op": "ingress", "route": "pull", "marker": "m%d" % ctr})
    if not any(s["op"] == "ingress" and s["route"] == "fan" for s in steps):
        steps.insert(rng.randrange(len(steps) + 1), {"op": "ingress", "route": "fan", "marker": "mf"})
    return steps


# ---------------------------------------------------------------------------
# one run of the real binary

class Proc:
    def __init__(self, hk, d, base, crash_at=0, crash_log=None, scoped=False):
        env = dict(os.environ)
        env.pop("VERIF_CRASH_AT", None)
        env.pop("VERIF_CRASH_LOG", None)
        env["VERIF_CRASH_SCOPE"] = "1" if scoped else "0"
        if crash_at:
            env["VERIF_CRASH_AT"] = str(crash_at)
        if crash_log:
            env["VERIF_CRASH_LOG"] = crash_log
        self.base = base
        self.log = open(os.path.join(d, "hk.log"), "ab")
        self.p = subprocess.Popen([hk, "run", "--config", os.path.join(d, "Hookaidofile"), "--db", os.path.join(d, "q.db"), "--log-level", "error"],
                                  stdout=self.log, stderr=self.log, env=env, cwd=d)

    def alive(self):
        return self.p.poll() is None

    def wait_ready(self, timeout=8.0):
        t0 = time.time()
        while time.time() - t0 < timeout:
            if not self.alive():
                return False
            try:
                st, _ = http_req(self.base + 2, "GET", "/healthz", None, {"Authorization": "Bearer " + ATOK}, timeout=0.5)
                if st == 200:
                    return True
            except OSError:
                pass
            time.sleep(0.02)
        return False

    def stop(self):
        if self.alive():
            self.p.send_signal(signal.SIGTERM)
            try:
                self.p.wait(timeout=5)
            except subprocess.TimeoutExpired:
                self.p.kill()
                self.p.wait()
        self.log.close()


def http_req(port, method, path, body, headers, timeout=3.0, stream=False):
    c = http.client.HTTPConnection("127.0.0.1", port, timeout=timeout)
    try:
        if stream:
            parts = [body[i:i + 700] for i in range(0, len(body), 700)] or [b""]
            c.request(method, path, body=iter(parts), headers=dict(headers or {}, **{"Transfer-Encoding": "chunked"}), encode_chunked=True)
        else:
            c.request(method, path, body=body, headers=headers or {})
        r = c.getresponse()
        # the acknowledgement is the status line: a body that never completes (process killed) does not take it back
        try:
            data = r.read()
        except (OSError, http.client.HTTPException) as e:
            data = getattr(e, "partial", b"") or b""
        return r.status, data
    finally:
        c.close()


def do_step(base, st, deq_results):
    """returns (status or None when the connection died, parsed json or None)"""
    try:
        if st["op"] == "sleep":
            time.sleep(st["seconds"])
            return 200, None
        if st["op"] == "ingress":
            s, d = http_req(base, "POST", "/hooks/" + st["route"], body_for(st["marker"]),
                            {"Content-Type": "application/octet-stream", "X-Marker": st["marker"], "Cookie": "secret=1"}, stream=chunked(st["marker"]))
            return s, None
        if st["op"] == "publish":
            items = [{"id": it["id"], "route": "/hooks/pull", "payload_b64": base64.b64encode(body_for(it["marker"])).decode(),
                      "headers": {"X-Marker": it["marker"]}} for it in st["items"]]
            s, d = http_req(base + 2, "POST", "/messages/publish", json.dumps({"items": items}),
                            {"Authorization": "Bearer " + ATOK, "Content-Type": "application/json", "X-Hookaido-Audit-Reason": "verif"})
            return s, _js(d)
        if st["op"] == "dequeue":
            s, d = http_req(base + 1, "POST", "/pull/p/dequeue", json.dumps({"batch": st["batch"], "lease_ttl": "1500ms"}),
                            {"Authorization": "Bearer " + PTOK, "Content-Type": "application/json"})
            return s, _js(d)
        if st["op"] == "stalebatch":
            body = {"lease_ids": ["lease_00000000000000a1", "lease_00000000000000a2"]}
            if st["kind"] == "dead":
                body.update({"dead": True, "reason": "boom"})
            s, d = http_req(base + 1, "POST", "/pull/p/" + ("ack" if st["kind"] == "ack" else "nack"), json.dumps(body),
                            {"Authorization": "Bearer " + PTOK, "Content-Type": "application/json"})
            return s, _js(d)
        # lease ops
        if "by_marker" in st:
            # the latest lease handed out for the message with this marker
            lease = "lease_0000000000000000"
            for items in deq_results:
                for it in items:
                    if (it.get("headers") or {}).get("X-Marker") == st["by_marker"]:
                        lease = it["lease_id"]
        else:
            ref = st["ref"]
            items = deq_results[ref[0]] if ref[0] < len(deq_results) else []
            if ref[1] >= len(items):
                lease = "lease_0000000000000000"
            else:
                lease = items[ref[1]]["lease_id"]
        st["_lease"] = lease
        if st["op"] == "ack":
            path, body = "/pull/p/ack", {"lease_id": lease}
        elif st["op"] == "nack":
            path, body = "/pull/p/nack", {"lease_id": lease, "delay": "0s"}
        elif st["op"] == "dead":
            path, body = "/pull/p/nack", {"lease_id": lease, "dead": True, "reason": "boom"}
        else:
            path, body = "/pull/p/extend", {"lease_id": lease, "extend_by": "1s"}
        s, d = http_req(base + 1, "POST", path, json.dumps(body), {"Authorization": "Bearer " + PTOK, "Content-Type": "application/json"})
        return s, _js(d)
    except (OSError, http.client.HTTPException):
        return None, None


def _js(d):
    try:
        return json.loads(d.decode()) if d else None
    except ValueError:
        return None


def run_case(hk, root, idx, base, workload, crash_at, scoped=True):
    """run the workload on a fresh database with the process killing itself at its crash_at-th crash point"""
    d = os.path.join(root, "c%d" % idx)
    shutil.rmtree(d, ignore_errors=True)
    os.makedirs(d)
    open(os.path.join(d, "Hookaidofile"), "w").write(hookaidofile(base))
    clog = os.path.join(d, "crash.log")
    out = {"crash_at": crash_at, "steps": [], "killed": False, "startup_kill": False, "problems": []}
    p = Proc(hk, d, base, crash_at=crash_at, crash_log=clog, scoped=scoped)
    ready = p.wait_ready()
    deq_results = []
    if not ready:
        out["startup_kill"] = True
    else:
        out["startup_hits"] = _count_hits(clog)
        for st in workload:
            st = dict(st)
            s, js = do_step(base, st, deq_results)
            rec = {"op": st["op"], "status": s}
            if st["op"] == "dequeue":
                items = (js or {}).get("items") or [] if s == 200 else []
                deq_results.append(items)
                rec["items"] = [{"id": it["id"], "lease_id": it["lease_id"], "attempt": it["attempt"],
                                 "marker": (it.get("headers") or {}).get("X-Marker", "")} for it in items]
            if "_lease" in st:
                rec["lease"] = st["_lease"]
            if st["op"] == "publish":
                rec["published"] = (js or {}).get("published") if js else None
            out["steps"].append(rec)
            if s is None:
                break
    time.sleep(0.02)
    out["killed"] = not p.alive()
    out["total_hits"] = _count_hits(clog)
    out["kill_label"] = _kill_label(clog)
    p.stop()
    # ---- restart on the same database
    p2 = Proc(hk, d, base)
    if not p2.wait_ready():
        out["problems"].append("the queue refuses to open after the crash: " + _tail(os.path.join(d, "hk.log")))
        p2.stop()
        return out
    try:
        s, data = http_req(base + 2, "GET", "/messages?limit=1000&include_payload=1&include_headers=1", None, {"Authorization": "Bearer " + ATOK})
        listing = (_js(data) or {}).get("items") or []
        if s != 200:
            out["problems"].append("GET /messages after restart: status %s" % s)
        out["listing"] = [{"id": m["id"], "route": m["route"], "target": m.get("target", ""), "state": m["state"], "attempt": m.get("attempt", 0),
                           "payload": base64.b64decode(m.get("payload_b64") or ""), "headers": m.get("headers") or {}} for m in listing]
        # offered again: leases of the dead process expire, then everything not settled must come out of a dequeue
        # (a lease extended just before the kill lasts up to a second longer than the others, so the
        # dequeues are repeated until every stored pull-route message has come out or 5 s have passed)
        time.sleep(1.6)
        got = []
        expect = {m["id"] for m in listing if m["route"] == "/hooks/pull" and m["state"] in ("queued", "leased")}
        t_end = time.time() + 3.4
        while True:
            for _ in range(4):
                s, data = http_req(base + 1, "POST", "/pull/p/dequeue", json.dumps({"batch": 100, "lease_ttl": "30s"}),
                                   {"Authorization": "Bearer " + PTOK, "Content-Type": "application/json"})
                items = (_js(data) or {}).get("items") or []
                got.extend(items)
                if not items:
                    break
            if expect <= {it["id"] for it in got} or time.time() > t_end:
                break
            time.sleep(0.3)
        out["redelivered"] = [{"id": it["id"], "payload": base64.b64decode(it.get("payload_b64") or "")} for it in got]
    except (OSError, http.client.HTTPException) as e:
        out["problems"].append("restarted process does not answer: %r" % (e,))
    p2.stop()
    try:
        con = sqlite3.connect(os.path.join(d, "q.db"))
        r = con.execute("PRAGMA integrity_check").fetchall()
        con.close()
        if r != [("ok",)]:
            out["problems"].append("PRAGMA integrity_check: %r" % (r[:3],))
    except sqlite3.Error as e:
        out["problems"].append("database cannot be opened: %r" % (e,))
    shutil.rmtree(d, ignore_errors=True)
    return out


def _count_hits(path):
    try:
        return sum(1 for line in open(path) if line[:1].isdigit())
    except OSError:
        return 0


def _kill_label(path):
    try:
        for line in open(path):
            if line.startswith("KILL "):
                return line.strip()[5:]
    except OSError:
        pass
    return ""


def _tail(path):
    try:
        return open(path, errors="replace").read()[-400:]
    except OSError:
        return ""


# ---------------------------------------------------------------------------
# concurrent admission: fan-out requests against a nearly full queue while an operator frees slots

def concurrent_fanout(hk, root, base, seconds=1.2):
    """Two clients post to the 3-target fan-out route of a queue limited to max_depth 5 (reject) while a third keeps
    cancelling queued messages, so that individual per-target enqueues of one request fail and later ones succeed.
    Every request answered 202 must have stored one message per target; a refused one (503) a prefix of the targets."""
    import threading
    d = os.path.join(root, "conc")
    shutil.rmtree(d, ignore_errors=True)
    os.makedirs(d)
    open(os.path.join(d, "Hookaidofile"), "w").write(hookaidofile(base, "queue_limits {\n  max_depth 5\n  drop_policy reject\n}\n"))
    p = Proc(hk, d, base)
    res = {"requests": 0, "accepted": 0, "refused": 0, "problems": []}
    if not p.wait_ready():
        p.stop()
        res["problems"].append(("restart", "binary does not start with queue_limits configured"))
        return res
    stop = time.time() + seconds
    answers = {}
    lock = threading.Lock()

    def poster(k):
        i = 0
        while time.time() < stop:
            i += 1
            mk = "c%d_%d" % (k, i)
            try:
                s_, _ = http_req(base, "POST", "/hooks/fan", body_for(mk), {"X-Marker": mk})
            except (OSError, http.client.HTTPException):
                s_ = None
            with lock:
                answers[mk] = s_

    def canceller():
        while time.time() < stop:
            try:
                http_req(base + 2, "POST", "/messages/cancel_by_filter", json.dumps({"route": "/hooks/fan", "limit": 2}),
                         {"Authorization": "Bearer " + ATOK, "Content-Type": "application/json", "X-Hookaido-Audit-Reason": "verif"})
            except (OSError, http.client.HTTPException):
                pass
    ts = [threading.Thread(target=poster, args=(k,)) for k in range(2)] + [threading.Thread(target=canceller)]
    for t in ts:
        t.start()
    for t in ts:
        t.join()
    p.stop()
    stored = {}
    try:
        con = sqlite3.connect(os.path.join(d, "q.db"))
        for route, target, payload in con.execute("SELECT route, target, payload FROM queue_items"):
            pl = bytes(payload or b"")
            if b"|" in pl:
                stored.setdefault(pl.split(b"|", 1)[0].decode(errors="replace"), []).append(target)
        con.close()
    except sqlite3.Error as e:
        res["problems"].append(("restart", "database cannot be read after the concurrent run: %r" % (e,)))
    for mk, st in answers.items():
        res["requests"] += 1
        have = stored.get(mk, [])
        if len(have) != len(set(have)):
            res["problems"].append(("duplicate", "concurrent fan-out %s: a target holds two copies: %r" % (mk, have)))
        if st == 202:
            res["accepted"] += 1
            if set(have) != set(FAN_TARGETS):
                res["problems"].append(("acked-lost:ingress-fanout-partial-failure",
                                        "ingress answered 202 for %s while an enqueue for one of its targets had been refused: stored targets %r, want all of %r"
                                        % (mk, sorted(have), FAN_TARGETS)))
        elif st == 503:
            res["refused"] += 1
            if sorted(have) != FAN_TARGETS[:len(have)]:
                res["problems"].append(("refused-not-prefix", "refused fan-out %s stored %r, which is not a prefix of the targets in order" % (mk, sorted(have))))
    shutil.rmtree(d, ignore_errors=True)
    return res


# ---------------------------------------------------------------------------
# judging a recovered queue (P_C01)

def judge(workload, out):
    """returns list of (key, message)"""
    probs = [("restart", x) for x in out["problems"]]
    if "listing" not in out:
        return probs
    listing = out["listing"]
    sent = {}        # marker -> (route, [targets])
    for st in workload:
        if st["op"] == "ingress":
            sent[st["marker"]] = ("/hooks/" + st["route"], ROUTE_TARGETS[st["route"]])
        elif st["op"] == "publish":
            for it in st["items"]:
                sent[it["marker"]] = ("/hooks/pull", ["pull"])
    by_marker = {}
    for m in listing:
        pl = m["payload"]
        mk = pl.split(b"|", 1)[0].decode(errors="replace") if b"|" in pl else None
        if mk is None or mk not in sent:
            probs.append(("invented", "a message nobody sent is stored: id=%s route=%s payload[:20]=%r" % (m["id"], m["route"], pl[:20])))
            continue
        if pl != body_for(mk) or not body_ok(pl):
            probs.append(("half-written", "stored payload of %s differs from the body that was sent" % mk))
        if m["headers"].get("X-Marker") != mk:
            probs.append(("half-written", "stored headers of %s lack the header that was sent: %r" % (mk, m["headers"])))
        if any(k.lower() in ("cookie", "authorization") for k in m["headers"]):
            probs.append(("half-written", "a stripped header was persisted: %r" % (m["headers"],)))
        if m["route"] != sent[mk][0] or m["target"] not in sent[mk][1]:
            probs.append(("invented", "message %s stored under route/target nobody addressed: %s %s" % (mk, m["route"], m["target"])))
        by_marker.setdefault(mk, []).append(m)
    for mk, ms in by_marker.items():
        tg = [m["target"] for m in ms]
        if len(tg) != len(set(tg)):
            probs.append(("duplicate", "message %s is stored more than once for one target: %r" % (mk, tg)))
    # ---- what the acknowledged steps promise; model of the pull route
    state = {}      # marker -> queued | leased | dead | gone    (pull route)
    lease_of = {}   # lease id -> marker
    inflight = None
    steps = out["steps"]
    for k, (st, rec) in enumerate(zip(workload, steps)):
        s = rec["status"]
        if s is None:
            inflight = (k, st, rec)
            break
        if st["op"] == "ingress":
            if s == 202:
                if st["route"] == "pull":
                    state[st["marker"]] = "queued"
                else:
                    have = set(m["target"] for m in by_marker.get(st["marker"], []))
                    if have != set(ROUTE_TARGETS[st["route"]]):
                        probs.append(("acked-lost:ingress-fanout", "ingress answered 202 for %s but after the crash only targets %r are stored (want all of %r)"
                                      % (st["marker"], sorted(have), ROUTE_TARGETS[st["route"]])))
        elif st["op"] == "publish":
            if s == 200:
                for it in st["items"]:
                    state[it["marker"]] = "queued"
        elif st["op"] == "dequeue":
            if s == 200:
                for it in rec["items"]:
                    state[it["marker"]] = "leased"
                    lease_of[it["lease_id"]] = it["marker"]
        else:
            mk = lease_of.get(rec.get("lease", ""))
            if s in (200, 204) and mk is not None:
                if st["op"] == "ack":
                    state[mk] = "gone"
                elif st["op"] == "nack":
                    state[mk] = "queued"
                elif st["op"] == "dead":
                    state[mk] = "dead"
    # candidates for the in-flight step
    alt = {}
    if inflight is not None:
        k, st, rec = inflight
        if st["op"] == "ingress" and st["route"] == "pull":
            alt[st["marker"]] = {"absent", "queued"}
        elif st["op"] == "publish":
            got = [it["marker"] in by_marker for it in st["items"]]
            if any(got) and not all(got):
                probs.append(("partial-batch", "an unacknowledged publish batch is partly stored: %r" % got))
            for it in st["items"]:
                alt[it["marker"]] = {"absent", "queued"}
        elif st["op"] == "dequeue":
            for mk, v in state.items():
                if v == "queued":
                    alt[mk] = {"queued", "leased"}
        elif st["op"] in ("ack", "nack", "dead", "extend"):
            mk = lease_of.get(rec.get("lease", ""))
            if mk is not None and state.get(mk) == "leased":
                alt[mk] = {"leased", {"ack": "absent", "nack": "queued", "dead": "dead", "extend": "leased"}[st["op"]]}
    for mk, (route, _) in sent.items():
        if route != "/hooks/pull":
            continue
        want = state.get(mk)
        ms = by_marker.get(mk, [])
        obs = "absent" if not ms else ms[0]["state"]
        allowed = set()
        if want is None:
            allowed.add("absent")
        elif want == "gone":
            allowed.add("absent")
        else:
            allowed.add(want)
        allowed |= alt.get(mk, set())
        # dlq_retention max_depth 2: the oldest dead messages beyond the cap are removed by the prune.  A dead-letter call that was in flight
        # when the process died may have taken effect without being acknowledged: it counts towards the cap
        maybe_dead = 1 if (inflight is not None and inflight[1]["op"] in ("dead", "stalebatch")) else 0
        if want == "dead" and sum(1 for v in state.values() if v == "dead") + maybe_dead > 2:
            allowed.add("absent")
        if "leased" in allowed:
            allowed.add("queued")      # a lease that expired before the listing is back in the queue: same promise
        if obs not in allowed:
            kind = "acked-lost" if (want in ("queued", "leased", "dead") and obs == "absent") else \
                   "acked-undone" if want in ("gone", "dead", "queued") else "unsent-stored"
            probs.append(("%s:%s" % (kind, _last_op(workload, steps, mk, lease_of)),
                          "pull-route message %s is %s after the crash; the acknowledgements received promise %s" % (mk, obs, sorted(allowed))))
    # ---- offered again
    if "redelivered" in out:
        red = set()
        for it in out["redelivered"]:
            pl = it["payload"]
            if b"|" in pl:
                red.add(pl.split(b"|", 1)[0].decode(errors="replace"))
        for mk, ms in by_marker.items():
            if sent[mk][0] == "/hooks/pull" and ms[0]["state"] in ("queued", "leased") and mk not in red:
                probs.append(("not-offered-again", "message %s is %s after the restart but no dequeue returns it once its lease has expired" % (mk, ms[0]["state"])))
    return probs


def _last_op(workload, steps, mk, lease_of):
    last = "enqueue"
    for st, rec in zip(workload, steps):
        if rec["status"] is None:
            break
        if st["op"] in ("ack", "nack", "dead", "extend") and lease_of.get(rec.get("lease", "")) == mk and rec["status"] in (200, 204):
            last = st["op"]
        if st["op"] == "publish" and any(it["marker"] == mk for it in st["items"]) and rec["status"] == 200:
            last = "publish"
    return last


# ---------------------------------------------------------------------------
# the Coq queue model on the acknowledged operations of the pull route

def model_states(ctx, cases):
    """cases: list of (workload, steps).  For each: the model's final state per marker after the acknowledged pull-route
    operations (Sql flavour), as {marker: state}.  One coqc call."""
    lines = [Q.HEADER]
    index = []
    for ci, (workload, steps) in enumerate(cases):
        ids = {}
        leases = {}
        ops = []
        now = 1000

        def idn(mk):
            if mk not in ids:
                ids[mk] = len(ids) + 1
            return ids[mk]
        for st, rec in zip(workload, steps):
            s = rec["status"]
            if s is None:
                break
            now += 10
            o = "(mkOracle [] [] [] [])"
            if st["op"] == "ingress" and st["route"] == "pull" and s == 202:
                ops.append("(Enqueue %d (mkEnq (Some %s) 1%%N 1%%N None None 1%%N 0%%N 0%%N), %s)" % (now, Q.cN(idn(st["marker"])), o))
            elif st["op"] == "publish" and s == 200:
                es = "; ".join("(mkEnq (Some %s) 1%%N 1%%N None None 1%%N 0%%N 0%%N)" % Q.cN(idn(it["marker"])) for it in st["items"])
                ops.append("(EnqueueBatch %d [%s], %s)" % (now, es, o))
            elif st["op"] == "dequeue" and s == 200:
                picks = []
                for it in rec["items"]:
                    leases[it["lease_id"]] = len(leases) + 1
                    picks.append("(%s, %s)" % (Q.cN(idn(it["marker"])), Q.cN(leases[it["lease_id"]])))
                ops.append("(Dequeue %d (Some 1%%N) None %d 1500000000, mkOracle [%s] [] [] [])" % (now, st["batch"], "; ".join(picks)))
            elif st["op"] == "stalebatch" and s is not None:
                kind = {"ack": "KAck", "nack": "(KNack 0)", "dead": "(KDead 4%N)"}[st["kind"]]
                ops.append("(LeaseBatch %d %s [LUnknown; LUnknown], %s)" % (now, kind, o))
            elif st["op"] in ("ack", "nack", "dead", "extend") and s is not None:
                l = leases.get(rec.get("lease", ""))
                lref = "(LKnown %s false)" % Q.cN(l) if l else "LUnknown"
                kind = {"ack": "KAck", "nack": "(KNack 0)", "dead": "(KDead 4%N)", "extend": "(KExtend 1000000000)"}[st["op"]]
                ops.append("(LeaseOp %d %s %s, %s)" % (now, kind, lref, o))
        lines.append("Definition h%d : list (op * oracle) := [%s]." % (ci, ";\n ".join(ops)))
        lines.append("Definition r%d := Eval vm_compute in (map (fun m => (m_id m, st_code (m_st m))) (msgs (snd (run Sql (mkCfg 0 false 0 0 0 0 0 0) init h%d))), "
                     "map (fun e => match ev_res e with RErr _ => 0%%Z | RBadOracle => 2%%Z | _ => 1%%Z end) (model_trace Sql (mkCfg 0 false 0 0 0 0 0 0) h%d))." % (ci, ci, ci))
        lines.append("Print r%d." % ci)
        index.append(dict((v, k) for k, v in ids.items()))
    rc, out = C.coq_eval_cases(ctx, "c01model", "\n".join(lines) + "\n")
    res = []
    flat = " ".join(out.split())
    names = {1: "queued", 2: "leased", 3: "delivered", 4: "dead", 5: "canceled"}
    for ci, inv in enumerate(index):
        m = re.search(r"r%d = \((\[.*?\]), (\[.*?\])\) :" % ci, flat)
        if rc != 0 or not m:
            res.append(None)
            continue
        pairs = re.findall(r"\((\d+)%N, (\d+)\)", m.group(1))
        oks = [int(x) for x in re.findall(r"\d+", m.group(2))]
        res.append(({inv[int(a)]: names[int(b)] for a, b in pairs}, oks))
    return res


# ---------------------------------------------------------------------------

def build_binary(ctx, tr):
    d = os.path.join(ctx.scratch, "crash")
    rc, out = C.run([tr, "crashpoints", C.REPO, d])
    if rc != 0:
        return None, "crash-point rewriter failed: " + out
    ov = json.load(open(os.path.join(d, "crash_overlay.json")))
    json.dump({"Replace": ov["Replace"]}, open(os.path.join(d, "ov.json"), "w"))
    hk = os.path.join(ctx.scratch, "hk")
    rc, log = C.run(["go", "build", "-overlay", os.path.join(d, "ov.json"), "-o", hk, "./cmd/hookaido"], cwd=C.REPO, env=C.GOENV, timeout=1200)
    if rc != 0:
        return None, "build of the real binary with crash points failed: " + log[-2000:]
    return (hk, ov["points"]), ""


def main(ctx, replay):
    rng = random.Random(ctx.seed * 7919 + 1)
    info = C.prologue(ctx, need_go=False)
    tr, log = C.go_build_translators(ctx)
    built, err = build_binary(ctx, tr)
    if built is None:
        C.report(ctx, "crashpoints", err, {"kind": "obligation", "no_failing_input_found": True, "names": "crash-point rewriter / build", "detail": err})
        return C.conclude(ctx, info, C.proof_coverage(info, "C01"), [])
    hk, points = built
    fwd_srv = start_forward_auth()
    root = os.path.join(ctx.scratch, "runs")
    os.makedirs(root, exist_ok=True)
    n_workloads = 3 if ctx.tier == "quick" else 16
    per_workload = 80 if ctx.tier == "quick" else 600
    workloads = [gen_workload(rng) for _ in range(n_workloads)]
    # a fixed workload: traffic acknowledged after a lease batch that names no live lease
    workloads.append([{"op": "ingress", "route": "pull", "marker": "s1"}, {"op": "dequeue", "batch": 1},
                      {"op": "stalebatch", "kind": "ack"}, {"op": "ingress", "route": "pull", "marker": "s2"},
                      {"op": "stalebatch", "kind": "nack"}, {"op": "publish", "items": [{"id": "pub-s-0", "marker": "s3_0"}, {"id": "pub-s-1", "marker": "s3_1"}]},
                      {"op": "ingress", "route": "fan", "marker": "s4"}, {"op": "ack", "ref": [0, 0]}, {"op": "ingress", "route": "pull", "marker": "s5"}])
    # a fixed workload: Admin publish batches of more than a hundred items (the API takes up to 1000): a 200 promises every item
    workloads.append([{"op": "publish", "items": [{"id": "pb-a-%d" % j, "marker": "pa_%d" % j} for j in range(130)]},
                      {"op": "ingress", "route": "pull", "marker": "pb1"}, {"op": "dequeue", "batch": 3},
                      {"op": "publish", "items": [{"id": "pb-b-%d" % j, "marker": "pbb_%d" % j} for j in range(101)]}, {"op": "ack", "ref": [0, 0]}])
    # a fixed workload: a route behind forward auth with a body_limit far below the bodies it receives, between ordinary traffic
    workloads.append([{"op": "ingress", "route": "fwd", "marker": "f1"}, {"op": "ingress", "route": "pull", "marker": "f2"},
                      {"op": "ingress", "route": "fwd", "marker": "c3"}, {"op": "dequeue", "batch": 1}, {"op": "ingress", "route": "fwd", "marker": "f4"},
                      {"op": "ack", "ref": [0, 0]}, {"op": "ingress", "route": "fan", "marker": "f5"}])
    # a fixed workload: streamed bodies (no Content-Length) within and over the route's max_body between ordinary traffic
    workloads.append([{"op": "ingress", "route": "pull", "marker": "c1"}, {"op": "ingress", "route": "pull", "marker": "B2"},
                      {"op": "ingress", "route": "pull", "marker": "t3"}, {"op": "dequeue", "batch": 3}, {"op": "ingress", "route": "pull", "marker": "B4"},
                      {"op": "ack", "ref": [0, 0]}, {"op": "ingress", "route": "pull", "marker": "c5"}])
    # a fixed workload: the DLQ grows over its depth cap while an older acknowledged message is still queued; after the prune interval
    # the trim must take dead messages only
    workloads.append([{"op": "ingress", "route": "pull", "marker": "keep1"}, {"op": "ingress", "route": "pull", "marker": "dd1"},
                      {"op": "ingress", "route": "pull", "marker": "dd2"}, {"op": "ingress", "route": "pull", "marker": "dd3"},
                      {"op": "dequeue", "batch": 3}, {"op": "nack", "by_marker": "keep1"}, {"op": "dequeue", "batch": 3},
                      {"op": "dead", "by_marker": "dd1"}, {"op": "dead", "by_marker": "dd2"}, {"op": "dead", "by_marker": "dd3"},
                      {"op": "sleep", "seconds": 1.3}, {"op": "ingress", "route": "pull", "marker": "keep2"}, {"op": "dequeue", "batch": 1}])
    port0 = 12000 + (os.getpid() % 18) * 1000       # below the ephemeral port range
    evaluations = 0
    nontrivial = set()
    kill_labels = {}
    samples = []
    jobs = []
    # counting runs: how many crash points does each workload pass while a request is being served (scoped) and in all (unscoped)?
    with concurrent.futures.ThreadPoolExecutor(max_workers=16) as ex:
        counts = list(ex.map(lambda a: run_case(hk, root, a[0], port0 + a[0] * 4, a[1], 0, True), enumerate(workloads)))
        counts_all = list(ex.map(lambda a: run_case(hk, root, 50 + a[0], port0 + 200 + a[0] * 4, a[1], 0, False), enumerate(workloads[:2])))
    for wi, (w, c) in enumerate(zip(workloads, counts)):
        for key, msg in judge(w, c):
            C.report(ctx, "nocrash:" + key, "without any crash: " + msg, {"kind": "crashpoint", "workload": w, "crash_at": 0, "observed": _ser(c)})
        total = c.get("total_hits", 0)
        pts = list(range(1, total + 3))
        if len(pts) > per_workload:
            pts = sorted(rng.sample(pts, per_workload))
        for n in pts:
            jobs.append((wi, n, True))
    # start-up (migrations) and background (dispatcher polling) crash points: unscoped numbering
    for wi, c in enumerate(counts_all):
        startup, total = c.get("startup_hits", 0), c.get("total_hits", 0)
        n_extra = 12 if ctx.tier == "quick" else 120
        pts = set(rng.sample(range(1, max(2, startup + 1)), min(n_extra // 2, max(1, startup)))) | \
            set(rng.sample(range(startup + 1, max(startup + 2, total + 1)), min(n_extra // 2, max(1, total - startup))))
        for n in sorted(pts):
            jobs.append((wi, n, False))
    results = []
    with concurrent.futures.ThreadPoolExecutor(max_workers=16) as ex:
        futs = {ex.submit(run_case, hk, root, 100 + j, port0 + 300 + (j % 64) * 4 + 300 * (j // 64 % 2), workloads[wi], n, sc): (wi, n)
                for j, (wi, n, sc) in enumerate(jobs)}
        # ports: 64 slots x 2 banks so that a slot is reused only after its previous user has long finished
        for f in concurrent.futures.as_completed(futs):
            wi, n = futs[f]
            try:
                results.append((wi, n, f.result()))
            except Exception as e:      # machinery failure of one run: count, do not judge
                ctx.notes.append("run failed: workload %d n=%d: %r" % (wi, n, e))
    # the Coq model on the acknowledged operations of every run
    mres = model_states(ctx, [(workloads[wi], out["steps"]) for wi, n, out in results])
    model_checked = 0
    for (wi, n, out), mr in zip(results, mres):
        evaluations += 1
        w = workloads[wi]
        probs = judge(w, out)
        if out.get("killed"):
            lab = re.sub(r"^\d+ ", "", out.get("kill_label", ""))
            kill_labels[lab] = kill_labels.get(lab, 0) + 1
            nontrivial.add((wi, out.get("kill_label", "")))
        if mr is not None and "listing" in out:
            model_checked += 1
            mstate, oks = mr
            if any(x == 2 for x in oks):
                probs.append(("model-oracle", "the queue model rejects a dequeue answer the implementation gave"))
            # acknowledged-only model state must be reachable: every message the model says is stored must be stored, unless the in-flight step may have removed it
            inflight = next(((st, rec) for st, rec in zip(w, out["steps"]) if rec["status"] is None), None)
            obs = {}
            for m in out["listing"]:
                if m["route"] == "/hooks/pull" and b"|" in m["payload"]:
                    obs[m["payload"].split(b"|", 1)[0].decode(errors="replace")] = m["state"]
            for mk, stt in mstate.items():
                o = obs.get(mk, "absent")
                ok = (o == stt) or (stt == "leased" and o == "queued")
                maybe_dead = 1 if (inflight is not None and inflight[0]["op"] in ("dead", "stalebatch")) else 0
                if not ok and stt == "dead" and o == "absent" and sum(1 for v in mstate.values() if v == "dead") + maybe_dead > 2:
                    ok = True          # dlq_retention max_depth 2 (the model run has no retention): the oldest dead messages beyond the cap are pruned;
                    #                    an unacknowledged dead-letter call in flight at the crash may have taken effect and counts towards the cap
                if not ok and inflight is not None:
                    ist = inflight[0]["op"]
                    ok = (ist == "dequeue" and stt == "queued" and o == "leased") or \
                         (ist in ("ack", "nack", "dead", "extend") and stt == "leased" and o in ("absent", "queued", "dead", "leased"))
                if not ok:
                    probs.append(("model-state", "Model/Queue.v (Sql) computes %s for message %s from the acknowledged operations; the recovered queue has %s" % (stt, mk, o)))
        for key, msg in probs:
            C.report(ctx, key, msg + "  [crash point %d: %s]" % (n, out.get("kill_label", "")),
                     {"kind": "crashpoint", "workload": w, "crash_at": n, "kill_label": out.get("kill_label", ""), "observed": _ser(out),
                      "how_to_replay": "./check C01 --replay <this file>"})
        if len(samples) < 3 and out.get("killed") and not probs:
            samples.append({"workload": w, "crash_at": n, "kill_label": out.get("kill_label", ""),
                            "responses": [r["status"] for r in out["steps"]], "recovered": [(m["route"], m["state"]) for m in out.get("listing", [])]})
    # acknowledged = stored also when the store is busy: an enqueue arriving while another process holds the write lock either fails or is
    # in the queue afterwards (white-box, lib/twostores.py two-stores-busy; the real binary cannot be made to meet a lock deterministically)
    hbin, hlog = C.go_build_harness(ctx)
    if hbin is None:
        raise C.HarnessBuildFailed(hlog)
    from lib import twostores
    busy_cov = twostores.run_busy(ctx, {"hbin": hbin})
    conc = concurrent_fanout(hk, root, port0 + 960, seconds=1.2 if ctx.tier == "quick" else 8.0)
    for key, msg in conc["problems"][:20]:
        C.report(ctx, key, msg, {"kind": "schedule", "scenario": "two clients posting to the 3-target fan-out route, max_depth 5 reject, one client cancelling queued messages",
                                 "how_to_replay": "./check C01 --replay <this file> (the interleaving is chosen by the scheduler; the run is repeated)"})
    evaluations += conc["requests"]
    cov = C.proof_coverage(info, "C01")
    cov["concurrent_fanout"] = {k: conc[k] for k in ("requests", "accepted", "refused")}
    cov.update(busy_cov)
    cov.update({
        "evaluations": evaluations,
        "distinct_nontrivial": len(nontrivial),
        "rule": "workloads of 6-12 requests (ingress on a pull route and on a 3-target fan-out route, admin publish batches, pull dequeue/ack/nack/dead/extend) "
                "generated from the seed; for each workload the real binary kills itself (SIGKILL) at crash point n for the enumerated n (every point when there are "
                "at most %d, else a seeded sample that always contains the first points after start-up and the last ones), is restarted on the same SQLite file, and "
                "the recovered queue is judged against the responses the client received. Distinct non-trivial = distinct (workload, source position of the crash point) "
                "pairs at which the process really died." % per_workload,
        "samples": samples or [{"note": "no clean sample"}],
        "traces_validated_against_impl": model_checked,
        "crash_points_in_source": points,
        "kills_by_source_position": dict(sorted(kill_labels.items(), key=lambda kv: -kv[1])[:40]),
        "workloads": n_workloads,
        "input_distribution": {"steps_per_workload": [len(w) for w in workloads],
                               "op_histogram": {k: sum(1 for w in workloads for s in w if s["op"] == k) for k in ("ingress", "publish", "dequeue", "ack", "nack", "dead", "extend", "stalebatch")}},
    })
    assumptions = [
        "a crash is the death of the process (SIGKILL at a crash point inserted before/after every DB statement, Store call and response write); power-loss durability of a "
        "returned COMMIT under WAL + synchronous=FULL is SQLite's contract and is trusted",
        "crash points are inserted by translate/crashpoints.go into overlay copies of sqlite.go, ingress/http.go, admin/http.go, pullapi/http.go, pullapi/ops.go; "
        "the copies differ from the source only by the inserted calls (self-tested on every run)",
        "the workload client is sequential (one request in flight at the kill); concurrent clients are exercised in the thorough tier only through the store-level theorems",
    ]
    return C.conclude(ctx, info, cov, assumptions, searched_note="every enumerated crash point of the generated workloads was executed on the real binary")


def _ser(out):
    o = dict(out)
    for k in ("listing", "redelivered"):
        if k in o:
            o[k] = [{kk: (vv[:24].decode(errors="replace") if isinstance(vv, bytes) else vv) for kk, vv in m.items()} for m in o[k]]
    return o
