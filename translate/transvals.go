package main

// Abstract values of the state-machine extractor (see transitions.go).

import (
	"go/ast"
	"go/token"
	"reflect"
)

type sset uint8

const sAll sset = 0x1f

var coqState = [5]string{"Queued", "Leased", "Delivered", "Dead", "Canceled"}
var stateStrings = map[string]int{"queued": 0, "leased": 1, "delivered": 2, "dead": 3, "canceled": 4}

// filled by loadStates from internal/queue/queue.go: Go constant name -> index
var stateConst = map[string]int{}

type aval interface{}

// a stored message under inspection: memory alias (*Envelope into s.items) or a scanned SQL row
type avMsg struct {
	st  sset
	key string // rendered key expression the alias was loaded with ("" if none)
}

// a variable that holds a column of a message registered under name
type avRef struct {
	name string
	role string // "id" "state" "until"
}
type avID struct{ st sset } // id (or a struct carrying the id) of a message known to be in st
type avColl struct {        // slice / map of ids or message pointers (shared, flow-insensitive)
	st        sset
	untracked bool
	ptrs      bool // elements are *Envelope pointers into the store (memory backend)
}
type avState struct{ idx int }     // string(StateX) / StateX
type avStateList struct{ st sset } // []State{...} / []string{string(StateX)...}
type avTime struct {
	kind string // now nowPlusDelay newUntil oldUntil oldUntilPlusBy nowPlusBy cutoff
	knob string
}
type avNewLease struct{}
type avReason struct{}
type avExtendBy struct{}
type avZero struct{}            // "" / time.Time{} / var x any (nil)
type avCol struct{ col string } // received_at / next_run_at of an alias: "recv" "next"
type avStruct struct{ fields map[string]aval }
type avClosure struct {
	lit *ast.FuncLit
	sc  *scope
}
type avRows struct { // result set of a SELECT on queue_items
	cols []string
	st   sset
}
type avPH struct{ of aval } // "?,?,?" for a collection

type tpiece struct {
	lit  string
	pos  token.Pos
	ph   aval // kind placeholder-list
	isPH bool
	opt  []tpiece // optional (conditionally appended) pieces
	unk  bool     // text the extractor could not reconstruct
}
type avTmpl struct{ pieces []tpiece }

type argItem struct {
	expr   ast.Expr
	val    aval
	spread bool      // one argument per element of val (a collection / state list)
	opt    []argItem // optional group
}
type avArgs struct{ items []argItem }

type scope struct {
	vars      map[string]aval
	tags      []string
	valueEnvs map[string]bool // names known to hold an Envelope by value (not a pointer into the store)
}

func newScope() *scope {
	return &scope{vars: map[string]aval{}, valueEnvs: map[string]bool{}}
}

func (s *scope) clone() *scope {
	n := newScope()
	for k, v := range s.vars {
		n.vars[k] = v
	}
	for k, v := range s.valueEnvs {
		n.valueEnvs[k] = v
	}
	n.tags = append([]string(nil), s.tags...)
	return n
}

func (s *scope) hasTag(t string) bool {
	for _, x := range s.tags {
		if x == t {
			return true
		}
	}
	return false
}

func (s *scope) addTag(t string) {
	if !s.hasTag(t) {
		s.tags = append(s.tags, t)
	}
}

func tmplPrefix(a, b []tpiece) bool {
	if len(a) > len(b) {
		return false
	}
	for i := range a {
		if !reflect.DeepEqual(a[i], b[i]) {
			return false
		}
	}
	return true
}

func argsPrefix(a, b []argItem) bool {
	if len(a) > len(b) {
		return false
	}
	for i := range a {
		if a[i].expr != b[i].expr || a[i].spread != b[i].spread || len(a[i].opt) != len(b[i].opt) {
			return false
		}
	}
	return true
}

// joinVal merges the values a variable has on two control-flow paths.  ok=false means the
// two values cannot be merged into something the extractor understands.
func joinVal(a, b aval) (aval, bool) {
	if reflect.DeepEqual(a, b) {
		return a, true
	}
	// now+ttl, saturated at the int64 horizon on one path: still "the new lease end"
	if ta, ok := a.(avTime); ok {
		if tb, ok := b.(avTime); ok {
			if ta.kind == "newUntil" && tb.kind == "horizon" {
				return ta, true
			}
			if ta.kind == "horizon" && tb.kind == "newUntil" {
				return tb, true
			}
		}
	}
	switch x := a.(type) {
	case avMsg:
		if y, ok := b.(avMsg); ok {
			k := x.key
			if y.key != k {
				k = ""
			}
			return avMsg{x.st | y.st, k}, true
		}
	case avID:
		switch y := b.(type) {
		case avID:
			return avID{x.st | y.st}, true
		case avZero:
			return x, true
		case nil:
			return avID{sAll}, true
		}
	case avZero:
		if b != nil {
			return b, true
		}
		return nil, true
	case nil:
		if y, ok := b.(avID); ok {
			_ = y
			return avID{sAll}, true
		}
		if _, ok := b.(avZero); ok {
			return nil, true
		}
		if y, ok := b.(avTmpl); ok {
			return avTmpl{append([]tpiece{{unk: true}}, y.pieces...)}, true
		}
		return nil, true
	case avTmpl:
		if y, ok := b.(avTmpl); ok {
			if tmplPrefix(x.pieces, y.pieces) {
				rest := append([]tpiece(nil), y.pieces[len(x.pieces):]...)
				return avTmpl{append(append([]tpiece(nil), x.pieces...), tpiece{opt: rest})}, true
			}
			if tmplPrefix(y.pieces, x.pieces) {
				rest := append([]tpiece(nil), x.pieces[len(y.pieces):]...)
				return avTmpl{append(append([]tpiece(nil), y.pieces...), tpiece{opt: rest})}, true
			}
			return avTmpl{append(append(append([]tpiece(nil), x.pieces...), tpiece{unk: true}), y.pieces...)}, true
		}
		return avTmpl{append(append([]tpiece(nil), x.pieces...), tpiece{unk: true})}, true
	case avArgs:
		if y, ok := b.(avArgs); ok {
			if argsPrefix(x.items, y.items) {
				rest := append([]argItem(nil), y.items[len(x.items):]...)
				return avArgs{append(append([]argItem(nil), x.items...), argItem{opt: rest})}, true
			}
			if argsPrefix(y.items, x.items) {
				rest := append([]argItem(nil), x.items[len(y.items):]...)
				return avArgs{append(append([]argItem(nil), y.items...), argItem{opt: rest})}, true
			}
		}
		return nil, true
	case avTime:
		if _, ok := b.(avTime); ok {
			return nil, true
		}
	}
	if _, ok := b.(avZero); ok {
		return a, true
	}
	if _, ok := b.(avID); ok {
		return joinVal(b, a)
	}
	if y, ok := b.(avTmpl); ok {
		return avTmpl{append([]tpiece{{unk: true}}, y.pieces...)}, true
	}
	return nil, true
}

// idGuard: the set of states the message(s) named by v are known to be in
func idGuard(v aval) (sset, bool) {
	switch x := v.(type) {
	case avID:
		return x.st, true
	case avMsg:
		return x.st, true
	case *avColl:
		if x.untracked {
			return sAll, false
		}
		return x.st, true
	case avStruct:
		for _, name := range []string{"id", "ID", "IDs"} {
			if f, ok := x.fields[name]; ok {
				if g, ok := idGuard(f); ok {
					return g, true
				}
			}
		}
	}
	return sAll, false
}
