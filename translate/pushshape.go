package main

import (
	"fmt"
	"go/ast"
	"go/parser"
	"go/printer"
	"go/token"
	"path/filepath"
	"strings"
)

// genPushShape reads the shape of PushDispatcher.runRoute (internal/dispatcher/push.go) that Model/PushLoop.v encodes: the
// missing-target back-off, when lease actions are batched, when they are flushed, and - the defect repaired by b30c35c - what the
// stop branch does before it returns.  Proofs/PushShapeProofs.v proves that these facts are the ones the model was written for.
// A source that is not understood yields ps_shape_ok := false with the reason: only that proof stops checking (owned by C06).
func genPushShape(repo string) (string, error) {
	fset := token.NewFileSet()
	path := filepath.Join(repo, "internal", "dispatcher", "push.go")
	f, err := parser.ParseFile(fset, path, nil, 0)
	if err != nil {
		return "", err
	}
	var notes []string
	bad := func(format string, a ...any) { notes = append(notes, fmt.Sprintf(format, a...)) }
	src := func(n ast.Node) string {
		var sb strings.Builder
		_ = printer.Fprint(&sb, fset, n)
		return strings.Join(strings.Fields(sb.String()), " ")
	}
	var fn *ast.FuncDecl
	for _, d := range f.Decls {
		if fd, ok := d.(*ast.FuncDecl); ok && fd.Name.Name == "runRoute" {
			fn = fd
		}
	}
	backoffNs := int64(0)
	useBatch := ""
	flushCond := ""
	var stopCalls, missingCalls []string
	missingDelay, missingTolerate := "", ""
	finalFlush := false
	var stopReturns bool
	callsOf := func(stmts []ast.Stmt) []string {
		var out []string
		for _, st := range stmts {
			if es, ok := st.(*ast.ExprStmt); ok {
				if ce, ok := es.X.(*ast.CallExpr); ok {
					if se, ok := ce.Fun.(*ast.SelectorExpr); ok {
						if id, ok := se.X.(*ast.Ident); ok && id.Name == "logger" {
							continue
						}
						out = append(out, se.Sel.Name)
					} else if id, ok := ce.Fun.(*ast.Ident); ok {
						out = append(out, id.Name)
					}
				}
			}
		}
		return out
	}
	if fn == nil || fn.Body == nil {
		bad("runRoute not found")
	} else {
		var itemLoop *ast.RangeStmt
		ast.Inspect(fn.Body, func(n ast.Node) bool {
			switch x := n.(type) {
			case *ast.GenDecl:
				if x.Tok == token.CONST {
					for _, sp := range x.Specs {
						vs := sp.(*ast.ValueSpec)
						for i, nm := range vs.Names {
							if nm.Name == "missingTargetBackoff" && i < len(vs.Values) {
								switch src(vs.Values[i]) {
								case "time.Second":
									backoffNs = 1000000000
								default:
									bad("missingTargetBackoff = %s is not understood", src(vs.Values[i]))
								}
							}
						}
					}
				}
			case *ast.AssignStmt:
				if len(x.Lhs) == 1 && len(x.Rhs) == 1 {
					if id, ok := x.Lhs[0].(*ast.Ident); ok && id.Name == "useBatchMutations" {
						useBatch = src(x.Rhs[0])
					}
				}
			case *ast.RangeStmt:
				if src(x.X) == "resp.Items" {
					itemLoop = x
				}
			}
			return true
		})
		if itemLoop == nil {
			bad("the loop over resp.Items was not found")
		} else {
			for _, st := range itemLoop.Body.List {
				switch x := st.(type) {
				case *ast.SelectStmt:
					for _, cl := range x.Body.List {
						cc := cl.(*ast.CommClause)
						if cc.Comm != nil && strings.Contains(src(cc.Comm), "d.stopCh") {
							stopCalls = callsOf(cc.Body)
							if n := len(cc.Body); n > 0 {
								_, stopReturns = cc.Body[n-1].(*ast.ReturnStmt)
							}
						}
					}
				case *ast.IfStmt:
					c := src(x.Cond)
					switch {
					case c == "!ok":
						missingCalls = callsOf(x.Body.List)
						ast.Inspect(x.Body, func(n ast.Node) bool {
							if kv, ok := n.(*ast.KeyValueExpr); ok {
								switch src(kv.Key) {
								case "delay":
									missingDelay = src(kv.Value)
								case "tolerateNotFound":
									missingTolerate = src(kv.Value)
								case "kind":
									if src(kv.Value) != "leaseActionNack" {
										bad("the missing-target action is %s", src(kv.Value))
									}
								}
							}
							return true
						})
					case strings.HasPrefix(c, "len(actions)") && strings.Contains(c, "mutationBatch"):
						flushCond = c
						if got := callsOf(x.Body.List); len(got) == 0 || got[0] != "applyLeaseActions" {
							bad("the flush inside the loop calls %v", got)
						}
					}
				}
			}
			// after the loop: if useBatchMutations && len(actions) > 0 { d.applyLeaseActions(...) }
			found := false
			for _, st := range fn.Body.List {
				if fs, ok := st.(*ast.ForStmt); ok {
					for i, inner := range fs.Body.List {
						if inner == ast.Stmt(itemLoop) && i+1 < len(fs.Body.List) {
							if is, ok := fs.Body.List[i+1].(*ast.IfStmt); ok && src(is.Cond) == "useBatchMutations && len(actions) > 0" {
								if got := callsOf(is.Body.List); len(got) == 1 && got[0] == "applyLeaseActions" {
									found = true
								}
							}
						}
					}
				}
			}
			finalFlush = found
		}
	}
	if useBatch != "len(targetsByURL) == 1" {
		bad("useBatchMutations := %s", useBatch)
	}
	if flushCond != "len(actions) >= mutationBatch" {
		bad("flush condition inside the loop: %q", flushCond)
	}
	if missingDelay != "missingTargetBackoff" || missingTolerate != "true" {
		bad("missing-target action: delay %s, tolerateNotFound %s", missingDelay, missingTolerate)
	}
	if len(missingCalls) != 1 || missingCalls[0] != "applyLeaseAction" {
		bad("missing-target branch calls %v", missingCalls)
	}
	if !stopReturns {
		bad("the stop branch does not end in return")
	}
	if !finalFlush {
		bad("no flush of the pending actions after the loop")
	}
	var sb strings.Builder
	sb.WriteString("(* GENERATED by translate/pushshape.go from internal/dispatcher/push.go (runRoute) - do not edit *)\n")
	sb.WriteString("From Coq Require Import ZArith List String Bool.\nImport ListNotations.\nOpen Scope string_scope.\n\n")
	fmt.Fprintf(&sb, "Definition ps_shape_ok : bool := %v.\n", len(notes) == 0)
	fmt.Fprintf(&sb, "Definition ps_shape_note : string := \"%s\".\n", strings.ReplaceAll(strings.Join(notes, "; "), "\"", "'"))
	fmt.Fprintf(&sb, "Definition ps_missing_target_backoff_ns : Z := %d%%Z.\n", backoffNs)
	fmt.Fprintf(&sb, "Definition ps_batch_iff_single_target : bool := %v.\n", useBatch == "len(targetsByURL) == 1")
	fmt.Fprintf(&sb, "Definition ps_flush_when_ge_mutation_batch : bool := %v.\n", flushCond == "len(actions) >= mutationBatch")
	fmt.Fprintf(&sb, "Definition ps_final_flush : bool := %v.\n", finalFlush)
	fmt.Fprintf(&sb, "(* the calls of the stop branch, in order, before it returns *)\nDefinition ps_stop_branch_calls : list string := [%s].\n", quoteList(stopCalls))
	return sb.String(), nil
}

func quoteList(xs []string) string {
	q := make([]string, len(xs))
	for i, x := range xs {
		q[i] = "\"" + x + "\""
	}
	return strings.Join(q, "; ")
}
