package main

// Expression evaluation and calls of the state-machine extractor.

import (
	"go/ast"
	"go/token"
	"regexp"
	"strconv"
	"strings"
)

var phShape = regexp.MustCompile(`^strings\.TrimRight\(strings\.Repeat\("\?,", len\(([A-Za-z_][A-Za-z0-9_]*)\)\), ","\)$`)

var execNames = map[string]bool{"ExecContext": true, "QueryContext": true, "QueryRowContext": true}

func (in *interp) eval(e ast.Expr, sc *scope) aval {
	switch x := e.(type) {
	case nil:
		return nil
	case *ast.Ident:
		if x.Name == "nil" {
			return avZero{}
		}
		if i, ok := stateConst[x.Name]; ok {
			return avState{i}
		}
		v, ok := sc.vars[x.Name]
		if ok {
			if r, isRef := v.(avRef); isRef {
				switch r.role {
				case "id":
					if m, ok := sc.vars[r.name].(avMsg); ok {
						return avID{m.st}
					}
					return avID{sAll}
				case "until":
					return avTime{kind: "oldUntil"}
				}
			}
			if v != nil || (x.Name != "now" && x.Name != "pruneNow") {
				return v
			}
		}
		switch x.Name {
		case "now", "pruneNow":
			return avTime{kind: "now"}
		case "reason":
			return avReason{}
		}
		return nil
	case *ast.BasicLit:
		if x.Kind == token.STRING {
			s, err := strconv.Unquote(x.Value)
			if err != nil {
				in.fail(x.Pos(), "bad string literal")
			}
			if s == "" {
				return avZero{}
			}
			return avTmpl{[]tpiece{{lit: s, pos: x.Pos()}}}
		}
		return nil
	case *ast.ParenExpr:
		return in.eval(x.X, sc)
	case *ast.StarExpr:
		return in.eval(x.X, sc)
	case *ast.UnaryExpr:
		if x.Op == token.AND {
			return in.eval(x.X, sc)
		}
		if x.Op == token.SUB {
			return nil
		}
		in.eval(x.X, sc)
		return nil
	case *ast.BinaryExpr:
		a := in.eval(x.X, sc)
		b := in.eval(x.Y, sc)
		if x.Op == token.ADD {
			pa, oka := asPieces(a)
			pb, okb := asPieces(b)
			if oka && okb {
				return avTmpl{append(append([]tpiece(nil), pa...), pb...)}
			}
			if oka {
				return avTmpl{append(append([]tpiece(nil), pa...), tpiece{unk: true})}
			}
			if okb {
				return avTmpl{append([]tpiece{{unk: true}}, pb...)}
			}
		}
		return nil
	case *ast.CompositeLit:
		return in.evalComposite(x, sc)
	case *ast.SelectorExpr:
		return in.evalSelector(x, sc)
	case *ast.IndexExpr:
		base := in.render(x.X)
		if recv := in.curRecv(); recv != "" && base == recv+".items" && in.spec.sql == 0 {
			k := in.eval(x.Index, sc)
			st := sAll
			if g, ok := idGuard(k); ok {
				st = g
			}
			return avMsg{st, in.render(x.Index)}
		}
		in.eval(x.Index, sc)
		switch c := in.eval(x.X, sc).(type) {
		case *avColl:
			if c.untracked {
				return avID{sAll}
			}
			if c.ptrs && in.spec.sql == 0 {
				return avMsg{c.st, ""}
			}
			return avID{c.st}
		}
		return nil
	case *ast.SliceExpr:
		return in.eval(x.X, sc)
	case *ast.CallExpr:
		vals := in.evalCall(x, sc)
		in.lastMulti, in.lastMultiCall = vals, x
		if len(vals) > 0 {
			return vals[0]
		}
		return nil
	case *ast.FuncLit:
		return avClosure{x, sc}
	case *ast.TypeAssertExpr:
		return in.eval(x.X, sc)
	case *ast.KeyValueExpr:
		return in.eval(x.Value, sc)
	}
	return nil
}

func asPieces(v aval) ([]tpiece, bool) {
	switch x := v.(type) {
	case avTmpl:
		return x.pieces, true
	case avPH:
		return []tpiece{{isPH: true, ph: x.of}}, true
	}
	return nil, false
}

func (in *interp) evalComposite(x *ast.CompositeLit, sc *scope) aval {
	t := ""
	if x.Type != nil {
		t = in.render(x.Type)
	}
	switch t {
	case "time.Time":
		if len(x.Elts) == 0 {
			return avZero{}
		}
	case "[]State", "[]string":
		var st sset
		all := len(x.Elts) > 0
		for _, e := range x.Elts {
			i, ok := in.stateConstOf(e)
			if !ok {
				all = false
				break
			}
			st |= 1 << uint(i)
		}
		if all {
			return avStateList{st}
		}
		if t == "[]State" {
			in.fail(x.Pos(), "state list `%s` contains something that is not a State constant", in.render(x))
		}
		return &avColl{untracked: len(x.Elts) > 0}
	case "[]any", "[]interface{}":
		a := avArgs{}
		for _, e := range x.Elts {
			a.items = append(a.items, argItem{expr: e, val: in.eval(e, sc)})
		}
		return a
	}
	if strings.HasPrefix(t, "[]") || strings.HasPrefix(t, "map[") {
		c := &avColl{}
		for _, e := range x.Elts {
			in.collAdd(c, in.eval(e, sc))
		}
		return c
	}
	st := avStruct{fields: map[string]aval{}}
	for _, e := range x.Elts {
		if kv, ok := e.(*ast.KeyValueExpr); ok {
			if k, ok := kv.Key.(*ast.Ident); ok {
				st.fields[k.Name] = in.eval(kv.Value, sc)
			}
		}
	}
	return st
}

func (in *interp) evalSelector(x *ast.SelectorExpr, sc *scope) aval {
	if id, ok := x.X.(*ast.Ident); ok {
		if m, ok := sc.vars[id.Name].(avMsg); ok {
			switch x.Sel.Name {
			case "ID":
				return avID{m.st}
			case "ReceivedAt":
				return avCol{"recv"}
			case "NextRunAt":
				return avCol{"next"}
			case "LeaseUntil":
				return avTime{kind: "oldUntil"}
			}
			return nil
		}
	}
	switch v := in.eval(x.X, sc).(type) {
	case avStruct:
		return v.fields[x.Sel.Name]
	case avID:
		if x.Sel.Name == "id" || x.Sel.Name == "ID" {
			return v
		}
	case avTime:
		if x.Sel.Name == "Time" || x.Sel.Name == "Int64" {
			return v
		}
	}
	return nil
}

// ---------------------------------------------------------------------------

func (in *interp) evalCall(c *ast.CallExpr, sc *scope) []aval {
	switch f := c.Fun.(type) {
	case *ast.Ident:
		switch f.Name {
		case "append":
			return []aval{in.evalAppend(c, sc)}
		case "delete":
			in.evalDelete(c, sc)
			return nil
		case "make":
			if len(c.Args) > 0 {
				t := in.render(c.Args[0])
				if t == "[]any" || t == "[]interface{}" {
					return []aval{avArgs{}}
				}
				if strings.HasPrefix(t, "[]") || strings.HasPrefix(t, "map[") {
					return []aval{&avColl{}}
				}
			}
			return nil
		case "string":
			if len(c.Args) == 1 {
				if i, ok := in.stateConstOf(c.Args[0]); ok {
					return []aval{avState{i}}
				}
			}
			return nil
		case "len", "cap", "int", "int64", "float64", "min", "max", "panic", "close", "copy":
			return nil
		case "State":
			return nil
		case "newHexID":
			if len(c.Args) == 1 && in.render(c.Args[0]) == `"lease_"` {
				return []aval{avNewLease{}}
			}
			return nil
		case "normalizeUniqueIDs":
			if len(c.Args) == 1 {
				return []aval{in.eval(c.Args[0], sc)}
			}
		case "saturatingUnixNanoAfter":
			if len(c.Args) == 2 && in.render(c.Args[1]) == "delay" {
				if t, ok := in.eval(c.Args[0], sc).(avTime); ok && t.kind == "now" {
					return []aval{avTime{kind: "nowPlusDelay"}}
				}
			}
			in.fail(c.Pos(), "saturatingUnixNanoAfter called with unexpected arguments `%s`", in.render(c))
		}
		if cl, ok := sc.vars[f.Name].(avClosure); ok {
			return in.callClosure(cl, c, sc)
		}
		if fd, ok := in.funcs[f.Name]; ok && fd.Recv == nil {
			return in.callFunc(f.Name, fd, c, sc)
		}
		in.evalArgs(c, sc)
		return nil
	case *ast.SelectorExpr:
		name := f.Sel.Name
		if execNames[name] {
			return []aval{in.handleExec(c, 1, sc)}
		}
		if id, ok := f.X.(*ast.Ident); ok {
			if id.Name == in.curRecv() && id.Name != "" {
				switch name {
				case "now", "nowFn":
					return []aval{avTime{kind: "now"}}
				}
				if fd, ok := in.funcs[name]; ok && fd.Recv != nil {
					return in.callFunc(name, fd, c, sc)
				}
				in.evalArgs(c, sc)
				return nil
			}
			if t, ok := sc.vars[id.Name].(avTmpl); ok {
				switch name {
				case "WriteString":
					add, ok := asPieces(in.eval(c.Args[0], sc))
					if !ok {
						add = []tpiece{{unk: true}}
					}
					sc.vars[id.Name] = avTmpl{append(append([]tpiece(nil), t.pieces...), add...)}
					return nil
				case "String":
					return []aval{t}
				}
			}
			if id.Name == "strings" {
				r := in.render(c)
				if m := phShape.FindStringSubmatch(r); m != nil {
					return []aval{avPH{in.eval(&ast.Ident{Name: m[1]}, sc)}}
				}
				if name == "TrimSpace" && len(c.Args) == 1 {
					return []aval{in.eval(c.Args[0], sc)}
				}
				return nil
			}
			if id.Name == "time" && name == "Unix" && len(c.Args) == 2 && in.render(c.Args[0]) == "0" && in.render(c.Args[1]) == "math.MaxInt64" {
				// the largest instant an int64 nanosecond column can hold: what now+ttl saturates at
				return []aval{avTime{kind: "horizon"}}
			}
			if id.Name == "fmt" && name == "Sprintf" {
				for _, a := range c.Args {
					if _, ok := in.eval(a, sc).(avTmpl); ok && strings.Contains(strings.ToLower(in.render(a)), "queue_items") {
						in.fail(c.Pos(), "SQL on queue_items built with fmt.Sprintf")
					}
				}
				return nil
			}
		}
		switch name {
		case "Scan":
			in.handleScan(c, f, sc)
			return nil
		case "Add":
			if len(c.Args) == 1 {
				if t, ok := in.eval(f.X, sc).(avTime); ok {
					arg := in.render(c.Args[0])
					switch {
					case t.kind == "now" && arg == "leaseTTL":
						return []aval{avTime{kind: "newUntil"}}
					case t.kind == "now" && arg == "delay":
						return []aval{avTime{kind: "nowPlusDelay"}}
					case t.kind == "now" && arg == "extendBy":
						return []aval{avTime{kind: "nowPlusBy"}}
					case t.kind == "oldUntil" && arg == "extendBy":
						return []aval{avTime{kind: "oldUntilPlusBy"}}
					case t.kind == "now" && strings.HasPrefix(arg, "-"+in.curRecv()+"."):
						k := strings.TrimPrefix(arg, "-"+in.curRecv()+".")
						if _, ok := knobNames[k]; ok {
							return []aval{avTime{kind: "cutoff", knob: k}}
						}
					}
					return nil
				}
			}
		case "UnixNano", "UTC":
			if len(c.Args) == 0 {
				return []aval{in.eval(f.X, sc)}
			}
		case "In":
			if len(c.Args) == 1 {
				if t, ok := in.eval(f.X, sc).(avTime); ok {
					return []aval{t}
				}
			}
		case "Nanoseconds":
			if in.render(f.X) == "extendBy" {
				return []aval{avExtendBy{}}
			}
		}
		in.eval(f.X, sc)
		in.evalArgs(c, sc)
		return nil
	case *ast.FuncLit:
		return in.callClosure(avClosure{f, sc}, c, sc)
	case *ast.IndexExpr: // generic instantiation f[T](...)
		if id, ok := f.X.(*ast.Ident); ok {
			if fd, ok := in.funcs[id.Name]; ok {
				return in.callFunc(id.Name, fd, c, sc)
			}
		}
	}
	in.evalArgs(c, sc)
	return nil
}

func (in *interp) evalArgs(c *ast.CallExpr, sc *scope) {
	for _, a := range c.Args {
		if _, isLit := a.(*ast.FuncLit); isLit {
			continue
		}
		v := in.eval(a, sc)
		if in.spec.sql == 0 {
			if _, isMsg := v.(avMsg); isMsg {
				if _, isStar := a.(*ast.StarExpr); !isStar {
					if _, isSel := a.(*ast.SelectorExpr); !isSel {
						name := in.render(c.Fun)
						switch name {
						case "envelopeRetainedBytes":
						default:
							in.fail(c.Pos(), "a pointer to a stored message is passed to %s, which the extractor does not follow", name)
						}
					}
				}
			}
		}
	}
}

func (in *interp) evalAppend(c *ast.CallExpr, sc *scope) aval {
	if len(c.Args) == 0 {
		return nil
	}
	base := in.eval(c.Args[0], sc)
	switch b := base.(type) {
	case avArgs:
		out := avArgs{append([]argItem(nil), b.items...)}
		for i, a := range c.Args[1:] {
			v := in.eval(a, sc)
			if c.Ellipsis.IsValid() && i == len(c.Args)-2 {
				if more, ok := v.(avArgs); ok {
					out.items = append(out.items, more.items...)
				} else {
					out.items = append(out.items, argItem{expr: a, val: v, spread: true})
				}
				continue
			}
			out.items = append(out.items, argItem{expr: a, val: v})
		}
		return out
	case *avColl:
		for _, a := range c.Args[1:] {
			v := in.eval(a, sc)
			if _, isDeref := a.(*ast.StarExpr); isDeref {
				v = nil // a copy of the envelope, not the message itself
				b.untracked = true
				continue
			}
			in.collAdd(b, v)
		}
		return b
	case avStateList:
		return b
	}
	var out *avColl
	for _, a := range c.Args[1:] {
		v := in.eval(a, sc)
		if _, ok := idGuard(v); ok {
			if out == nil {
				out = &avColl{}
			}
			in.collAdd(out, v)
		}
	}
	if out != nil {
		return out
	}
	return nil
}

func (in *interp) evalDelete(c *ast.CallExpr, sc *scope) {
	if len(c.Args) != 2 {
		return
	}
	recv := in.curRecv()
	if in.spec.sql != 0 || recv == "" || in.render(c.Args[0]) != recv+".items" {
		return
	}
	key := in.render(c.Args[1])
	from := sAll
	found := false
	for name, v := range sc.vars {
		if m, ok := v.(avMsg); ok && m.key == key && key != "" {
			_ = name
			from, found = m.st, true
		}
	}
	if !found {
		if g, ok := idGuard(in.eval(c.Args[1], sc)); ok {
			from = g
		}
	}
	in.consumed[c.Pos()] = "delete"
	in.emit("delete", from, -2, nil, sc.tags, c.Pos())
}

// ---------------------------------------------------------------------------
// calls into the file

func (in *interp) paramNames(ft *ast.FuncType) ([]string, []string) {
	var names, types []string
	if ft.Params == nil {
		return nil, nil
	}
	for _, f := range ft.Params.List {
		t := in.render(f.Type)
		if len(f.Names) == 0 {
			names = append(names, "_")
			types = append(types, t)
		}
		for _, n := range f.Names {
			names = append(names, n.Name)
			types = append(types, t)
		}
	}
	return names, types
}

func (in *interp) bindParams(ft *ast.FuncType, c *ast.CallExpr, caller, callee *scope) {
	names, types := in.paramNames(ft)
	for i, n := range names {
		if n == "_" {
			continue
		}
		t := types[i]
		var v aval
		switch {
		case strings.HasPrefix(t, "..."):
			a := avArgs{}
			for j := i; j < len(c.Args); j++ {
				val := in.eval(c.Args[j], caller)
				if c.Ellipsis.IsValid() && j == len(c.Args)-1 {
					if more, ok := val.(avArgs); ok {
						a.items = append(a.items, more.items...)
						continue
					}
					a.items = append(a.items, argItem{expr: c.Args[j], val: val, spread: true})
					continue
				}
				a.items = append(a.items, argItem{expr: c.Args[j], val: val})
			}
			v = a
		case i < len(c.Args):
			v = in.eval(c.Args[i], caller)
		}
		delete(callee.valueEnvs, n)
		delete(callee.valueEnvs, "[]"+n)
		switch t {
		case "Envelope":
			callee.valueEnvs[n] = true
			v = nil
		case "[]Envelope":
			callee.valueEnvs["[]"+n] = true
		case "*Envelope":
			if _, ok := v.(avMsg); !ok && in.spec.sql == 0 {
				in.fail(c.Pos(), "a *Envelope of unknown provenance is passed as %s", n)
			}
		case "[]any", "[]interface{}":
			if _, isZ := v.(avZero); isZ || v == nil {
				v = avArgs{}
			}
		}
		callee.vars[n] = v
	}
}

func (in *interp) enter(name string) *frame {
	in.depth++
	if in.depth > 12 {
		panic(transErr{"call nesting too deep (recursion?) at " + name})
	}
	fr := &frame{name: name}
	in.frames = append(in.frames, fr)
	return fr
}

func (in *interp) leave() {
	in.depth--
	in.frames = in.frames[:len(in.frames)-1]
}

func (in *interp) callFunc(name string, fd *ast.FuncDecl, c *ast.CallExpr, sc *scope) []aval {
	if _, isSel := filterSelectors[name]; isSel {
		return in.callSelector(name, fd, c, sc)
	}
	if !in.relevant[name] || fd.Body == nil {
		in.evalArgs(c, sc)
		return nil
	}
	callee := newScope()
	callee.tags = append([]string(nil), sc.tags...)
	// closures and captured helpers are not visible inside another function; parameters are
	in.bindParams(fd.Type, c, sc, callee)
	fr := in.enter(name)
	defer in.leave()
	in.block(fd.Body.List, callee)
	return fr.results
}

func (in *interp) callClosure(cl avClosure, c *ast.CallExpr, sc *scope) []aval {
	callee := cl.sc.clone()
	for _, t := range sc.tags {
		callee.addTag(t)
	}
	in.bindParams(cl.lit.Type, c, sc, callee)
	// a closure is part of the function that contains it: same frame name
	name := "closure"
	if len(in.frames) > 0 {
		name = in.frames[len(in.frames)-1].name
	}
	if fn := in.enclosing(cl.lit.Pos()); fn != "" {
		name = fn
	}
	fr := in.enter(name)
	defer in.leave()
	in.block(cl.lit.Body.List, callee)
	return fr.results
}

// enclosing returns the name of the function declaration that contains pos
func (in *interp) enclosing(p token.Pos) string {
	for name, fd := range in.funcs {
		if fd.Pos() <= p && p < fd.End() {
			return name
		}
	}
	return ""
}
