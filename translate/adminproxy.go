package main

import (
	"fmt"
	"go/ast"
	"go/parser"
	"go/token"
	"path/filepath"
	"sort"
	"strconv"
	"strings"
)

// genAdminProxy reads the Admin-proxy transport of the MCP server (internal/mcp/server.go): the retry policy of
// callAdminJSON / shouldRetryAdminProxyCall and, per tool function, the HTTP method and endpoint path of every
// callAdminJSON call.  Model/ManageProxy.v is defined over these values; Properties/C14proxy.v proves its
// "at most one state-changing request per tool call" over them.  A source whose shape is not the one understood
// here does not make the translator fail (other properties do not depend on this file): the values found so far are
// written, ap_shape_ok becomes false with the reason in ap_shape_note, and only C14proxy stops checking.
func genAdminProxy(repo string) (string, error) {
	fset := token.NewFileSet()
	path := filepath.Join(repo, "internal", "mcp", "server.go")
	f, err := parser.ParseFile(fset, path, nil, 0)
	if err != nil {
		return "", err
	}
	env := collectConsts(f)
	funcs := map[string]*ast.FuncDecl{}
	for _, d := range f.Decls {
		if fd, ok := d.(*ast.FuncDecl); ok {
			funcs[fd.Name.Name] = fd
		}
	}
	var notes []string
	bad := func(format string, a ...any) { notes = append(notes, fmt.Sprintf(format, a...)) }
	constOr := func(name string, dflt int64) int64 {
		e, ok := env[name]
		if !ok {
			bad("constant %s not found", name)
			return dflt
		}
		v, err := evalConst(e, env, 0)
		if err != nil {
			bad("constant %s: %v", name, err)
			return dflt
		}
		return v
	}
	maxGet := constOr("adminProxyRetryMaxGET", 0)
	backoff := constOr("adminProxyRetryBackoff", 0)
	timeout := constOr("defaultAdminProxyTimeout", 0)

	// ---- callAdminJSON
	attemptsDefault, attemptsGet := int64(0), int64(0)
	onlyGetRaises, retriesGuarded := false, false
	if fd := funcs["callAdminJSON"]; fd == nil || fd.Body == nil {
		bad("callAdminJSON not found")
	} else {
		defs, raises, others := 0, 0, 0
		var loop *ast.ForStmt
		getAliases = map[string]bool{}
		ast.Inspect(fd.Body, func(x ast.Node) bool {
			if as, ok := x.(*ast.AssignStmt); ok && as.Tok == token.DEFINE && len(as.Lhs) == 1 && len(as.Rhs) == 1 {
				if id, ok := as.Lhs[0].(*ast.Ident); ok && isGetTest(as.Rhs[0]) {
					getAliases[id.Name] = true
				}
			}
			return true
		})
		// an alias must not be reassigned
		ast.Inspect(fd.Body, func(x ast.Node) bool {
			if as, ok := x.(*ast.AssignStmt); ok && as.Tok != token.DEFINE {
				for _, l := range as.Lhs {
					if id, ok := l.(*ast.Ident); ok && getAliases[id.Name] {
						delete(getAliases, id.Name)
					}
				}
			}
			return true
		})
		var walk func(n ast.Node, underGet bool)
		walk = func(n ast.Node, underGet bool) {
			ast.Inspect(n, func(x ast.Node) bool {
				switch s := x.(type) {
				case *ast.IfStmt:
					if s != n {
						g := underGet || (isGetTest(s.Cond) && s.Else == nil && s.Init == nil)
						if s.Init != nil {
							walk(s.Init, underGet)
						}
						walk(s.Body, g)
						if s.Else != nil {
							walk(s.Else, underGet)
						}
						return false
					}
				case *ast.ForStmt:
					if loop == nil && isAttemptLoop(s) {
						loop = s
					}
				case *ast.AssignStmt:
					for i, l := range s.Lhs {
						id, ok := l.(*ast.Ident)
						if !ok || id.Name != "maxAttempts" || i >= len(s.Rhs) {
							continue
						}
						v, err := evalConst(s.Rhs[i], env, 0)
						switch {
						case err != nil:
							others++
							bad("callAdminJSON: maxAttempts is assigned an expression that is not a constant")
						case s.Tok == token.DEFINE && !underGet:
							defs++
							attemptsDefault = v
						case s.Tok == token.ASSIGN && underGet:
							raises++
							attemptsGet = v
						default:
							others++
							bad("callAdminJSON: maxAttempts is assigned outside `if strings.EqualFold(method, http.MethodGet)` (value %d)", v)
						}
					}
				case *ast.IncDecStmt:
					if id, ok := s.X.(*ast.Ident); ok && id.Name == "maxAttempts" {
						others++
						bad("callAdminJSON: maxAttempts is incremented")
					}
				}
				return true
			})
		}
		walk(fd.Body, false)
		if defs != 1 {
			bad("callAdminJSON: %d definitions `maxAttempts := <const>` (want 1)", defs)
		}
		if raises != 1 {
			bad("callAdminJSON: %d assignments to maxAttempts under the GET test (want 1)", raises)
		}
		if raises == 0 {
			attemptsGet = attemptsDefault // no special case for GET: it gets what everything gets
		}
		onlyGetRaises = defs == 1 && raises == 1 && others == 0
		if loop == nil {
			bad("callAdminJSON: no loop `for attempt := 1; attempt <= maxAttempts; attempt++`")
		} else {
			retriesGuarded = true
			nCont := 0
			var inLoop func(n ast.Node, guarded bool)
			inLoop = func(n ast.Node, guarded bool) {
				ast.Inspect(n, func(x ast.Node) bool {
					switch s := x.(type) {
					case *ast.IfStmt:
						if s != n {
							g := isRetryGuard(s.Cond) && s.Init == nil
							inLoop(s.Body, g) // the guard must be the innermost test around the continue
							if s.Else != nil {
								inLoop(s.Else, false)
							}
							return false
						}
					case *ast.ForStmt, *ast.RangeStmt:
						if x != n {
							return false // a continue inside a nested loop (the header copy) is not a retry
						}
					case *ast.FuncLit:
						return false
					case *ast.BranchStmt:
						if s.Tok == token.CONTINUE {
							nCont++
							if !guarded {
								retriesGuarded = false
								bad("callAdminJSON: a `continue` of the attempt loop is not guarded by shouldRetryAdminProxyCall(attempt, maxAttempts, ...)")
							}
						}
						if s.Tok == token.GOTO {
							retriesGuarded = false
							bad("callAdminJSON: goto inside the attempt loop")
						}
					}
					return true
				})
			}
			inLoop(loop.Body, false)
			// nothing may send a request outside the loop
			nDo := 0
			ast.Inspect(fd.Body, func(x ast.Node) bool {
				if c, ok := x.(*ast.CallExpr); ok {
					if se, ok := c.Fun.(*ast.SelectorExpr); ok && (se.Sel.Name == "Do" || se.Sel.Name == "Post" || se.Sel.Name == "Get") {
						nDo++
						if !(loop.Body.Pos() <= c.Pos() && c.End() <= loop.Body.End()) {
							retriesGuarded = false
							bad("callAdminJSON: a request is sent outside the attempt loop")
						}
					}
					if id, ok := c.Fun.(*ast.Ident); ok && id.Name == "callAdminJSON" {
						retriesGuarded = false
						bad("callAdminJSON calls itself")
					}
					if se, ok := c.Fun.(*ast.SelectorExpr); ok && se.Sel.Name == "callAdminJSON" {
						retriesGuarded = false
						bad("callAdminJSON calls itself")
					}
				}
				return true
			})
			if nDo != 1 {
				retriesGuarded = false
				bad("callAdminJSON: %d request-sending calls in the attempt loop (want exactly one client.Do)", nDo)
			}
		}
	}

	// ---- shouldRetryAdminProxyCall
	lastFinal := false
	var statuses []int64
	if fd := funcs["shouldRetryAdminProxyCall"]; fd == nil || fd.Body == nil {
		bad("shouldRetryAdminProxyCall not found")
	} else {
		if len(fd.Body.List) > 0 {
			if ifs, ok := fd.Body.List[0].(*ast.IfStmt); ok && ifs.Init == nil && ifs.Else == nil && len(ifs.Body.List) == 1 {
				if be, ok := ifs.Cond.(*ast.BinaryExpr); ok && be.Op == token.GEQ && identIs(be.X, "attempt") && identIs(be.Y, "maxAttempts") {
					if rs, ok := ifs.Body.List[0].(*ast.ReturnStmt); ok && len(rs.Results) == 1 && identIs(rs.Results[0], "false") {
						lastFinal = true
					}
				}
			}
		}
		if !lastFinal {
			bad("shouldRetryAdminProxyCall does not start with `if attempt >= maxAttempts { return false }`")
		}
		sw := firstSwitch(fd.Body)
		if sw == nil {
			bad("shouldRetryAdminProxyCall: no switch on the status code")
		} else {
			for _, c := range sw.Body.List {
				cc := c.(*ast.CaseClause)
				ret := ""
				for _, st := range cc.Body {
					if rs, ok := st.(*ast.ReturnStmt); ok && len(rs.Results) == 1 {
						if id, ok := rs.Results[0].(*ast.Ident); ok {
							ret = id.Name
						}
					}
				}
				if cc.List == nil {
					if ret != "false" {
						bad("shouldRetryAdminProxyCall: the default case does not return false")
					}
					continue
				}
				if ret != "true" {
					continue
				}
				for _, e := range cc.List {
					v, ok := httpStatusValue(e)
					if !ok {
						bad("shouldRetryAdminProxyCall: a case value is not a net/http status constant or a number")
						continue
					}
					statuses = append(statuses, v)
				}
			}
		}
	}
	sort.Slice(statuses, func(i, j int) bool { return statuses[i] < statuses[j] })

	// ---- per tool function: method and path of every callAdminJSON call
	type call struct{ method, path string }
	tools := map[string][]call{}
	var names []string
	for name, fd := range funcs {
		if !strings.HasPrefix(name, "tool") || fd.Body == nil {
			continue
		}
		lits := map[string][]string{} // string literals assigned to a local variable
		ast.Inspect(fd.Body, func(x ast.Node) bool {
			if as, ok := x.(*ast.AssignStmt); ok && len(as.Lhs) == len(as.Rhs) {
				for i, l := range as.Lhs {
					id, ok := l.(*ast.Ident)
					if !ok {
						continue
					}
					if bl, ok := as.Rhs[i].(*ast.BasicLit); ok && bl.Kind == token.STRING {
						if s, err := strconv.Unquote(bl.Value); err == nil {
							lits[id.Name] = append(lits[id.Name], s)
						}
					} else if ce, ok := as.Rhs[i].(*ast.CallExpr); ok {
						if fn, ok := ce.Fun.(*ast.Ident); ok && strings.HasPrefix(fn.Name, "managedEndpoint") {
							tail := ""
							if n := len(ce.Args); n > 0 {
								if bl, ok := ce.Args[n-1].(*ast.BasicLit); ok && bl.Kind == token.STRING {
									tail, _ = strconv.Unquote(bl.Value)
								}
							}
							lits[id.Name] = append(lits[id.Name], fn.Name+"("+tail+")")
						}
					}
				}
			}
			return true
		})
		var cs []call
		ast.Inspect(fd.Body, func(x ast.Node) bool {
			ce, ok := x.(*ast.CallExpr)
			if !ok {
				return true
			}
			se, ok := ce.Fun.(*ast.SelectorExpr)
			if !ok || se.Sel.Name != "callAdminJSON" || len(ce.Args) < 3 {
				return true
			}
			method := "?"
			if ms, ok := ce.Args[1].(*ast.SelectorExpr); ok && identIs(ms.X, "http") && strings.HasPrefix(ms.Sel.Name, "Method") {
				method = strings.ToUpper(strings.TrimPrefix(ms.Sel.Name, "Method"))
			} else if bl, ok := ce.Args[1].(*ast.BasicLit); ok && bl.Kind == token.STRING {
				method, _ = strconv.Unquote(bl.Value)
				method = strings.ToUpper(method)
			}
			p := "?"
			switch a := ce.Args[2].(type) {
			case *ast.BasicLit:
				if a.Kind == token.STRING {
					p, _ = strconv.Unquote(a.Value)
				}
			case *ast.Ident:
				p = strings.Join(lits[a.Name], "|")
				if p == "" {
					p = "?"
				}
			case *ast.SelectorExpr:
				p = "." + a.Sel.Name
			}
			cs = append(cs, call{method, p})
			return true
		})
		if len(cs) > 0 {
			tools[name] = cs
			names = append(names, name)
		}
	}
	sort.Strings(names)
	for _, want := range []string{"toolMessagesCancel", "toolMessagesRequeue", "toolMessagesResume", "toolDLQRequeue", "toolDLQDelete",
		"toolMessagesCancelByFilter", "toolMessagesRequeueByFilter", "toolMessagesResumeByFilter"} {
		if len(tools[want]) == 0 {
			bad("%s has no callAdminJSON call", want)
		}
	}

	var b strings.Builder
	b.WriteString("(* GENERATED by /verif/translate from internal/mcp/server.go : callAdminJSON, shouldRetryAdminProxyCall, the tool functions -- do not edit *)\n")
	b.WriteString("From Coq Require Import ZArith List String.\nImport ListNotations.\nOpen Scope Z_scope.\nOpen Scope string_scope.\n\n")
	fmt.Fprintf(&b, "Definition ap_retry_max_get : Z := %d.          (* adminProxyRetryMaxGET *)\n", maxGet)
	fmt.Fprintf(&b, "Definition ap_retry_backoff_ns : Z := %d.\n", backoff)
	fmt.Fprintf(&b, "Definition ap_timeout_ns : Z := %d.\n", timeout)
	fmt.Fprintf(&b, "Definition ap_attempts_default : Z := %d.       (* callAdminJSON: maxAttempts := <this> *)\n", attemptsDefault)
	fmt.Fprintf(&b, "Definition ap_attempts_get : Z := %d.           (* ... if strings.EqualFold(method, http.MethodGet) { maxAttempts = <this> } *)\n", attemptsGet)
	fmt.Fprintf(&b, "Definition ap_only_get_raises : bool := %v.  (* no other assignment to maxAttempts *)\n", onlyGetRaises)
	fmt.Fprintf(&b, "Definition ap_retries_guarded : bool := %v.  (* one client.Do, inside `for attempt := 1; attempt <= maxAttempts; attempt++`; every continue directly under shouldRetryAdminProxyCall(attempt, maxAttempts, ..) *)\n", retriesGuarded)
	fmt.Fprintf(&b, "Definition ap_last_attempt_final : bool := %v. (* shouldRetryAdminProxyCall: if attempt >= maxAttempts { return false } comes first *)\n", lastFinal)
	var ss []string
	for _, v := range statuses {
		ss = append(ss, strconv.FormatInt(v, 10))
	}
	fmt.Fprintf(&b, "Definition ap_retry_statuses : list Z := [%s].\n", strings.Join(ss, "; "))
	b.WriteString("(* every callAdminJSON call of every tool function: (HTTP method, endpoint path or the values its path variable takes) *)\n")
	b.WriteString("Definition ap_tool_calls : list (string * list (string * string)) := [\n")
	for i, n := range names {
		var cs []string
		for _, c := range tools[n] {
			cs = append(cs, fmt.Sprintf("(%s, %s)", coqStr(c.method), coqStr(c.path)))
		}
		sep := ";"
		if i == len(names)-1 {
			sep = ""
		}
		fmt.Fprintf(&b, "  (%s, [%s])%s\n", coqStr(n), strings.Join(cs, "; "), sep)
	}
	b.WriteString("].\n")
	fmt.Fprintf(&b, "Definition ap_shape_ok : bool := %v.\n", len(notes) == 0)
	fmt.Fprintf(&b, "Definition ap_shape_note : string := %s.\n", coqStr(strings.Join(notes, "; ")))
	return b.String(), nil
}


func identIs(e ast.Expr, name string) bool {
	id, ok := e.(*ast.Ident)
	return ok && id.Name == name
}

// local booleans defined once as the GET test (isRead := strings.EqualFold(method, http.MethodGet))
var getAliases = map[string]bool{}

// strings.EqualFold(method, http.MethodGet)   (either argument order; also method == http.MethodGet, or such a local boolean)
func isGetTest(e ast.Expr) bool {
	if id, ok := e.(*ast.Ident); ok && getAliases[id.Name] {
		return true
	}
	isGet := func(x ast.Expr) bool {
		se, ok := x.(*ast.SelectorExpr)
		return ok && identIs(se.X, "http") && se.Sel.Name == "MethodGet"
	}
	switch c := e.(type) {
	case *ast.CallExpr:
		se, ok := c.Fun.(*ast.SelectorExpr)
		if !ok || !identIs(se.X, "strings") || se.Sel.Name != "EqualFold" || len(c.Args) != 2 {
			return false
		}
		return (identIs(c.Args[0], "method") && isGet(c.Args[1])) || (identIs(c.Args[1], "method") && isGet(c.Args[0]))
	case *ast.BinaryExpr:
		return c.Op == token.EQL && ((identIs(c.X, "method") && isGet(c.Y)) || (identIs(c.Y, "method") && isGet(c.X)))
	case *ast.ParenExpr:
		return isGetTest(c.X)
	}
	return false
}

// for attempt := 1; attempt <= maxAttempts; attempt++
func isAttemptLoop(s *ast.ForStmt) bool {
	as, ok := s.Init.(*ast.AssignStmt)
	if !ok || as.Tok != token.DEFINE || len(as.Lhs) != 1 || len(as.Rhs) != 1 || !identIs(as.Lhs[0], "attempt") {
		return false
	}
	if bl, ok := as.Rhs[0].(*ast.BasicLit); !ok || bl.Value != "1" {
		return false
	}
	be, ok := s.Cond.(*ast.BinaryExpr)
	if !ok || be.Op != token.LEQ || !identIs(be.X, "attempt") || !identIs(be.Y, "maxAttempts") {
		return false
	}
	inc, ok := s.Post.(*ast.IncDecStmt)
	return ok && inc.Tok == token.INC && identIs(inc.X, "attempt")
}

// shouldRetryAdminProxyCall(attempt, maxAttempts, ..., ...)
func isRetryGuard(e ast.Expr) bool {
	switch b := e.(type) {
	case *ast.ParenExpr:
		return isRetryGuard(b.X)
	case *ast.BinaryExpr:
		// a conjunction one of whose conjuncts is the guard still implies it
		if b.Op == token.LAND {
			return isRetryGuard(b.X) || isRetryGuard(b.Y)
		}
		return false
	}
	c, ok := e.(*ast.CallExpr)
	if !ok {
		return false
	}
	return identIs(c.Fun, "shouldRetryAdminProxyCall") && len(c.Args) == 4 && identIs(c.Args[0], "attempt") && identIs(c.Args[1], "maxAttempts")
}

var httpStatusNames = map[string]int64{
	"StatusContinue": 100, "StatusOK": 200, "StatusCreated": 201, "StatusAccepted": 202, "StatusNoContent": 204,
	"StatusMovedPermanently": 301, "StatusFound": 302, "StatusNotModified": 304, "StatusTemporaryRedirect": 307, "StatusPermanentRedirect": 308,
	"StatusBadRequest": 400, "StatusUnauthorized": 401, "StatusForbidden": 403, "StatusNotFound": 404, "StatusMethodNotAllowed": 405,
	"StatusRequestTimeout": 408, "StatusConflict": 409, "StatusGone": 410, "StatusRequestEntityTooLarge": 413, "StatusTooEarly": 425,
	"StatusUnprocessableEntity": 422, "StatusLocked": 423, "StatusTooManyRequests": 429,
	"StatusInternalServerError": 500, "StatusNotImplemented": 501, "StatusBadGateway": 502, "StatusServiceUnavailable": 503, "StatusGatewayTimeout": 504,
}

func httpStatusValue(e ast.Expr) (int64, bool) {
	switch x := e.(type) {
	case *ast.SelectorExpr:
		if identIs(x.X, "http") {
			v, ok := httpStatusNames[x.Sel.Name]
			return v, ok
		}
	case *ast.BasicLit:
		if x.Kind == token.INT {
			v, err := strconv.ParseInt(x.Value, 0, 64)
			return v, err == nil
		}
	}
	return 0, false
}
