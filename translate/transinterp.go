package main

// Statement walker of the state-machine extractor: a small abstract interpreter over the Go
// source of one store.  It follows every path of every relevant method, tracks which states a
// stored message under inspection may be in (from the explicit state checks), and records a
// row at every place where the store state is written (assignment to a field of a stored
// message, delete from / insert into s.items, UPDATE / DELETE / INSERT on queue_items).

import (
	"bytes"
	"fmt"
	"go/ast"
	"go/printer"
	"go/token"
	"strings"
)

type transErr struct{ msg string }

type rawRow struct {
	method string
	stack  []string
	kind   string // write delete insert
	from   sset
	to     int // state index, -1 keep, -2 deleted
	writes map[string]string
	tags   []string
	where  string
}

type writeGroup struct {
	name   string
	from   sset
	to     int
	writes map[string]string
	order  []string
	tags   []string
	pos    token.Pos
}

type frame struct {
	name    string
	results []aval
	nret    int
}

type interp struct {
	spec     backendSpec
	fset     *token.FileSet
	file     *ast.File
	funcs    map[string]*ast.FuncDecl
	relevant map[string]bool
	recvName map[string]string // function -> receiver identifier
	method   string
	frames   []*frame
	rows     []rawRow
	consumed map[token.Pos]string
	rowSeq   int
	selOK    map[string]bool
	depth    int

	lastMulti     []aval
	lastMultiCall *ast.CallExpr
}

func (in *interp) render(n ast.Node) string {
	var b bytes.Buffer
	printer.Fprint(&b, in.fset, n)
	return strings.Join(strings.Fields(b.String()), " ")
}

func (in *interp) posStr(p token.Pos) string {
	pp := in.fset.Position(p)
	return fmt.Sprintf("%s:%d", in.spec.base(), pp.Line)
}

func (in *interp) fail(p token.Pos, format string, args ...interface{}) {
	where := ""
	if len(in.frames) > 0 {
		where = " in " + in.frames[len(in.frames)-1].name
	}
	panic(transErr{fmt.Sprintf("%s: method %s%s: %s", in.posStr(p), in.method, where, fmt.Sprintf(format, args...))})
}

func (in *interp) stackNames() []string {
	var out []string
	for _, f := range in.frames {
		out = append(out, f.name)
	}
	return out
}

func (in *interp) emit(kind string, from sset, to int, writes map[string]string, tags []string, p token.Pos) {
	w := map[string]string{}
	for k, v := range writes {
		w[k] = v
	}
	in.rows = append(in.rows, rawRow{method: in.method, stack: in.stackNames(), kind: kind, from: from, to: to,
		writes: w, tags: append([]string(nil), tags...), where: in.posStr(p)})
}

// ---------------------------------------------------------------------------
// blocks and statements

func terminates(stmts []ast.Stmt) bool {
	if len(stmts) == 0 {
		return false
	}
	switch s := stmts[len(stmts)-1].(type) {
	case *ast.ReturnStmt:
		return true
	case *ast.BranchStmt:
		return s.Tok == token.CONTINUE || s.Tok == token.BREAK
	}
	return false
}

func (in *interp) flush(groups map[string]*writeGroup, order *[]string) {
	for _, name := range *order {
		g := groups[name]
		if g == nil {
			continue
		}
		in.emit("write", g.from, g.to, g.writes, g.tags, g.pos)
		delete(groups, name)
	}
	*order = nil
}

// block walks a statement list; returns true when control cannot fall out of its end.
func (in *interp) block(stmts []ast.Stmt, sc *scope) bool {
	groups := map[string]*writeGroup{}
	var order []string
	term := false
	for _, st := range stmts {
		if in.stmt(st, sc, groups, &order) {
			term = true
			break
		}
	}
	in.flush(groups, &order)
	return term
}

func (in *interp) mergeScopes(dst *scope, a, b *scope, p token.Pos) {
	for k, va := range a.vars {
		vb, ok := b.vars[k]
		if !ok {
			continue
		}
		if _, existed := dst.vars[k]; !existed {
			continue // declared inside the branches only
		}
		j, ok := joinVal(va, vb)
		if !ok {
			in.fail(p, "variable %s is built in a way the extractor cannot merge (query/argument construction differs between branches)", k)
		}
		dst.vars[k] = j
	}
	var common []string
	for _, t := range a.tags {
		if b.hasTag(t) {
			common = append(common, t)
		}
	}
	dst.tags = common
}

func (in *interp) stmt(st ast.Stmt, sc *scope, groups map[string]*writeGroup, order *[]string) bool {
	switch s := st.(type) {
	case nil:
		return false
	case *ast.ReturnStmt:
		fr := in.frames[len(in.frames)-1]
		vals := make([]aval, len(s.Results))
		for i, r := range s.Results {
			vals[i] = in.eval(r, sc)
		}
		if len(s.Results) == 1 {
			if c, ok := s.Results[0].(*ast.CallExpr); ok {
				if multi := in.lastMulti; multi != nil && in.lastMultiCall == c {
					vals = multi
				}
			}
		}
		if fr.nret == 0 {
			fr.results = vals
		} else {
			for i := range vals {
				if i < len(fr.results) {
					j, _ := joinVal(fr.results[i], vals[i])
					if c1, ok := fr.results[i].(*avColl); ok {
						if c2, ok := vals[i].(*avColl); ok && c1 != c2 {
							c1.st |= c2.st
							c1.untracked = c1.untracked || c2.untracked
							j = c1
						} else if vals[i] == nil {
							j = c1
						}
					} else if c2, ok := vals[i].(*avColl); ok && fr.results[i] == nil {
						j = c2
					}
					fr.results[i] = j
				}
			}
		}
		fr.nret++
		return true
	case *ast.BranchStmt:
		if s.Tok == token.GOTO || s.Label != nil {
			in.fail(s.Pos(), "goto / labelled branch")
		}
		return s.Tok == token.CONTINUE || s.Tok == token.BREAK
	case *ast.BlockStmt:
		return in.block(s.List, sc)
	case *ast.LabeledStmt:
		in.fail(s.Pos(), "labelled statement")
	case *ast.IfStmt:
		if s.Init != nil {
			in.stmt(s.Init, sc, groups, order)
		}
		t, f := in.cond(s.Cond, sc)
		scT, scF := sc.clone(), sc.clone()
		in.applyRefine(scT, t)
		in.applyRefine(scF, f)
		termT := in.block(s.Body.List, scT)
		termF := false
		switch e := s.Else.(type) {
		case nil:
		case *ast.BlockStmt:
			termF = in.block(e.List, scF)
		case *ast.IfStmt:
			g2 := map[string]*writeGroup{}
			var o2 []string
			termF = in.stmt(e, scF, g2, &o2)
		}
		switch {
		case termT && termF:
			return true
		case termT:
			sc.vars, sc.tags, sc.valueEnvs = scF.vars, scF.tags, scF.valueEnvs
		case termF:
			sc.vars, sc.tags, sc.valueEnvs = scT.vars, scT.tags, scT.valueEnvs
		default:
			in.mergeScopes(sc, scT, scF, s.Pos())
		}
		return false
	case *ast.ForStmt:
		if s.Init != nil {
			in.stmt(s.Init, sc, groups, order)
		}
		in.loop(func(b *scope) {
			if s.Cond != nil {
				in.eval(s.Cond, b)
			}
			in.block(s.Body.List, b)
		}, sc, s.Pos())
		return false
	case *ast.RangeStmt:
		src := in.eval(s.X, sc)
		// for _, x := range coll { args = append(args, x) }  ==  one argument per element
		if len(s.Body.List) == 1 {
			if as, ok := s.Body.List[0].(*ast.AssignStmt); ok && len(as.Lhs) == 1 && len(as.Rhs) == 1 {
				if l, ok := as.Lhs[0].(*ast.Ident); ok {
					if cur, ok := sc.vars[l.Name].(avArgs); ok {
						if c, ok := as.Rhs[0].(*ast.CallExpr); ok && in.render(c.Fun) == "append" && len(c.Args) == 2 && in.render(c.Args[0]) == l.Name {
							v, _ := s.Value.(*ast.Ident)
							a := in.render(c.Args[1])
							if v != nil && (a == v.Name || a == "string("+v.Name+")") {
								sc.vars[l.Name] = avArgs{append(append([]argItem(nil), cur.items...), argItem{expr: s.X, val: src, spread: true})}
								return false
							}
						}
					}
				}
			}
		}
		in.loop(func(b *scope) {
			in.bindRange(s, src, b)
			in.block(s.Body.List, b)
		}, sc, s.Pos())
		return false
	case *ast.SwitchStmt:
		if s.Init != nil {
			in.stmt(s.Init, sc, groups, order)
		}
		onState := s.Tag != nil && in.mentionsState(s.Tag, sc)
		before := len(in.rows)
		for _, c := range s.Body.List {
			cc := c.(*ast.CaseClause)
			for _, e := range cc.List {
				if in.mentionsState(e, sc) {
					onState = true
				}
			}
			in.block(cc.Body, sc.clone())
		}
		if onState && len(in.rows) != before {
			in.fail(s.Pos(), "the store is written inside a switch on the state of a stored message (the extractor only follows if-guards)")
		}
		return false
	case *ast.TypeSwitchStmt:
		for _, c := range s.Body.List {
			in.block(c.(*ast.CaseClause).Body, sc.clone())
		}
		return false
	case *ast.SelectStmt:
		for _, c := range s.Body.List {
			in.block(c.(*ast.CommClause).Body, sc.clone())
		}
		return false
	case *ast.DeclStmt:
		gd, ok := s.Decl.(*ast.GenDecl)
		if !ok || gd.Tok != token.VAR {
			return false
		}
		for _, sp := range gd.Specs {
			vs := sp.(*ast.ValueSpec)
			for i, n := range vs.Names {
				if i < len(vs.Values) {
					in.bind(n.Name, in.eval(vs.Values[i], sc), sc)
					continue
				}
				in.declare(n.Name, vs.Type, sc)
			}
		}
		return false
	case *ast.AssignStmt:
		in.assign(s, sc, groups, order)
		return false
	case *ast.IncDecStmt:
		if sel, ok := s.X.(*ast.SelectorExpr); ok {
			in.fieldWrite(sel, nil, s.Tok == token.INC, s.Pos(), sc, groups, order)
		}
		return false
	case *ast.ExprStmt:
		in.eval(s.X, sc)
		return false
	case *ast.DeferStmt, *ast.GoStmt, *ast.EmptyStmt, *ast.SendStmt:
		return false
	default:
		in.fail(st.Pos(), "statement of kind %T", st)
	}
	return false
}

// loop walks a loop body twice (second time with what the first pass assigned) and joins
// the outer variables with their values after the body.
func (in *interp) loop(body func(b *scope), sc *scope, p token.Pos) {
	for pass := 0; pass < 2; pass++ {
		b := sc.clone()
		body(b)
		for k, v := range sc.vars {
			nv, ok := b.vars[k]
			if !ok {
				continue
			}
			j, ok := joinVal(v, nv)
			if !ok {
				in.fail(p, "variable %s changes inside a loop in a way the extractor cannot follow", k)
			}
			sc.vars[k] = j
		}
	}
}

func (in *interp) bindRange(s *ast.RangeStmt, src aval, b *scope) {
	keyName, valName := "", ""
	if id, ok := s.Key.(*ast.Ident); ok && id.Name != "_" {
		keyName = id.Name
	}
	if id, ok := s.Value.(*ast.Ident); ok && id.Name != "_" {
		valName = id.Name
	}
	x := in.render(s.X)
	recv := in.curRecv()
	switch {
	case recv != "" && x == recv+".items" && in.spec.sql == 0:
		// for id, env := range s.items
		if valName != "" {
			b.vars[valName] = avMsg{sAll, keyName}
			delete(b.valueEnvs, valName)
			if keyName != "" {
				b.vars[keyName] = avRef{valName, "id"}
			}
		} else if keyName != "" {
			b.vars[keyName] = avID{sAll}
		}
		return
	}
	switch c := src.(type) {
	case *avColl:
		g := c.st
		if c.untracked {
			g = sAll
		}
		if valName != "" {
			if in.spec.sql == 0 && c.ptrs {
				b.vars[valName] = avMsg{g, ""}
			} else {
				b.vars[valName] = avID{g}
			}
		}
		if keyName != "" {
			b.vars[keyName] = nil
		}
		return
	case avStateList:
		if valName != "" {
			b.vars[valName] = nil
		}
	}
	if keyName != "" {
		b.vars[keyName] = nil
	}
	if valName != "" {
		b.vars[valName] = nil
		// for i := range items / for _, e := range items over a []Envelope parameter: values, not pointers
		if id, ok := s.X.(*ast.Ident); ok && b.valueEnvs["[]"+id.Name] {
			b.valueEnvs[valName] = true
		}
	}
}

func (in *interp) curRecv() string {
	for i := len(in.frames) - 1; i >= 0; i-- {
		if r, ok := in.recvName[in.frames[i].name]; ok {
			return r
		}
	}
	return ""
}

func (in *interp) bind(name string, v aval, sc *scope) {
	if name == "_" {
		return
	}
	sc.vars[name] = v
	if _, isMsg := v.(avMsg); isMsg {
		delete(sc.valueEnvs, name)
	}
}

func (in *interp) declare(name string, typ ast.Expr, sc *scope) {
	if name == "_" {
		return
	}
	t := ""
	if typ != nil {
		t = in.render(typ)
	}
	switch {
	case t == "Envelope":
		sc.vars[name] = nil
		sc.valueEnvs[name] = true
	case t == "[]Envelope":
		sc.vars[name] = &avColl{}
		sc.valueEnvs["[]"+name] = true
	case t == "strings.Builder":
		sc.vars[name] = avTmpl{}
	case t == "[]any" || t == "[]interface{}":
		sc.vars[name] = avArgs{}
	case strings.HasPrefix(t, "[]") || strings.HasPrefix(t, "map["):
		sc.vars[name] = &avColl{}
	case t == "any" || t == "interface{}":
		sc.vars[name] = avZero{}
	default:
		sc.vars[name] = nil
	}
}
