package main

// crashpoints: rewrite selected source files of /repo so that every statement that talks to
// the database, calls a Store method or writes an HTTP response is bracketed by
// verifcrash.Hit("<file>:<line>:<call>") calls.  The rewritten copies are mounted with
// `go build -overlay`; /repo itself is never touched.  New write paths introduced by a code
// change get crash points without anybody editing a hook list.

import (
	"encoding/json"
	"fmt"
	"go/ast"
	"go/parser"
	"go/token"
	"os"
	"path/filepath"
	"sort"
	"strconv"
	"strings"
)

var crashTargets = map[string]bool{
	// database/sql
	"ExecContext": true, "QueryRowContext": true, "QueryContext": true, "Exec": true, "QueryRow": true, "Query": true,
	"Commit": true, "BeginTx": true, "Begin": true, "PrepareContext": true,
	// sqlite.go helpers
	"commitTx": true, "beginImmediateWithRetry": true, "execRowsAffectedTx": true, "execByItemIDsTx": true,
	// Store interface
	"Enqueue": true, "EnqueueBatch": true, "Dequeue": true, "Ack": true, "Nack": true, "Extend": true, "MarkDead": true,
	"AckBatch": true, "NackBatch": true, "MarkDeadBatch": true, "AckSingle": true, "NackSingle": true, "ExtendSingle": true,
	// responses
	"WriteHeader": true, "writeJSON": true, "writeError": true,
}

var crashFiles = []string{
	"internal/queue/sqlite.go",
	"internal/ingress/http.go",
	"internal/admin/http.go",
	"internal/pullapi/http.go",
	"internal/pullapi/ops.go",
}

const crashPkg = "github.com/nuetzliches/hookaido/internal/verifcrash"

const crashPkgSrc = `// Package verifcrash is mounted by the /verif checks with go build -overlay (never committed).
package verifcrash

import (
	"fmt"
	"os"
	"strconv"
	"sync"
	"sync/atomic"
	"syscall"
)

var (
	n      int64
	at     int64
	active int64
	scoped bool
	logMu  sync.Mutex
	logF   *os.File
)

func init() {
	if v := os.Getenv("VERIF_CRASH_AT"); v != "" {
		at, _ = strconv.ParseInt(v, 10, 64)
	}
	scoped = os.Getenv("VERIF_CRASH_SCOPE") == "1"
	if p := os.Getenv("VERIF_CRASH_LOG"); p != "" {
		logF, _ = os.OpenFile(p, os.O_CREATE|os.O_WRONLY|os.O_APPEND, 0o644)
	}
}

// Enter/Leave bracket the HTTP handlers: with VERIF_CRASH_SCOPE=1 only crash points passed while at
// least one request is being served are counted (the push dispatcher polls the store all the time).
func Enter() { atomic.AddInt64(&active, 1) }
func Leave() { atomic.AddInt64(&active, -1) }

// Hit counts a crash point; the process kills itself (SIGKILL, no deferred functions, no
// flushing) when the configured hit number is reached.
func Hit(label string) {
	if scoped && atomic.LoadInt64(&active) <= 0 {
		return
	}
	c := atomic.AddInt64(&n, 1)
	if logF != nil {
		logMu.Lock()
		fmt.Fprintf(logF, "%d %s\n", c, label)
		logMu.Unlock()
	}
	if at > 0 && c == at {
		if logF != nil {
			logMu.Lock()
			fmt.Fprintf(logF, "KILL %d %s\n", c, label)
			logF.Sync()
			logMu.Unlock()
		}
		_ = syscall.Kill(syscall.Getpid(), syscall.SIGKILL)
		select {}
	}
}
`

// directCall returns the name of a target call that occurs in n without descending into
// nested blocks or function literals ("" if none).
func directCall(n ast.Node) string {
	found := ""
	ast.Inspect(n, func(x ast.Node) bool {
		if found != "" || x == nil {
			return false
		}
		switch v := x.(type) {
		case *ast.BlockStmt, *ast.FuncLit:
			if x != n {
				return false
			}
		case *ast.CallExpr:
			name := ""
			switch f := v.Fun.(type) {
			case *ast.SelectorExpr:
				name = f.Sel.Name
			case *ast.Ident:
				name = f.Name
			}
			if crashTargets[name] {
				found = name
				return false
			}
		}
		return true
	})
	return found
}

func stmtDirectCall(s ast.Stmt) string {
	switch v := s.(type) {
	case *ast.DeferStmt, *ast.GoStmt:
		return ""
	case *ast.LabeledStmt:
		return stmtDirectCall(v.Stmt)
	case *ast.IfStmt:
		if v.Init != nil {
			if c := directCall(v.Init); c != "" {
				return c
			}
		}
		return directCall(v.Cond)
	case *ast.ForStmt:
		if v.Init != nil {
			if c := directCall(v.Init); c != "" {
				return c
			}
		}
		return ""
	case *ast.RangeStmt:
		return directCall(v.X)
	case *ast.SwitchStmt:
		if v.Init != nil {
			if c := directCall(v.Init); c != "" {
				return c
			}
		}
		if v.Tag != nil {
			return directCall(v.Tag)
		}
		return ""
	case *ast.TypeSwitchStmt, *ast.SelectStmt, *ast.BlockStmt, *ast.CaseClause, *ast.CommClause:
		return ""
	default:
		return directCall(s)
	}
}

type insertion struct {
	off  int
	text string
	seq  int
}

type crashRewriter struct {
	fset  *token.FileSet
	file  string
	count int
	ins   []insertion
}

func (r *crashRewriter) list(in []ast.Stmt) {
	for _, s := range in {
		r.walk(s)
		c := stmtDirectCall(s)
		if c == "" {
			continue
		}
		pos := r.fset.Position(s.Pos())
		label := fmt.Sprintf("%s:%d:%s", r.file, pos.Line, c)
		r.ins = append(r.ins, insertion{off: pos.Offset, text: "verifcrash.Hit(" + strconv.Quote(label+":before") + "); ", seq: len(r.ins)})
		r.count++
		switch s.(type) {
		case *ast.ReturnStmt, *ast.BranchStmt:
		default:
			end := r.fset.Position(s.End())
			r.ins = append(r.ins, insertion{off: end.Offset, text: "; verifcrash.Hit(" + strconv.Quote(label+":after") + ")", seq: len(r.ins)})
			r.count++
		}
	}
}

func (r *crashRewriter) walk(n ast.Node) {
	ast.Inspect(n, func(x ast.Node) bool {
		switch v := x.(type) {
		case *ast.BlockStmt:
			if v != nil {
				r.list(v.List)
			}
			return false
		case *ast.CaseClause:
			r.list(v.Body)
			return false
		case *ast.CommClause:
			r.list(v.Body)
			return false
		}
		return true
	})
}

func genCrashOverlay(repo, outdir string) error {
	if err := os.MkdirAll(filepath.Join(outdir, "verifcrash"), 0o755); err != nil {
		return err
	}
	overlay := map[string]string{}
	pkgFile := filepath.Join(outdir, "verifcrash", "verifcrash.go")
	if err := os.WriteFile(pkgFile, []byte(crashPkgSrc), 0o644); err != nil {
		return err
	}
	overlay[filepath.Join(repo, "internal", "verifcrash", "verifcrash.go")] = pkgFile
	report := map[string]int{}
	for _, rel := range crashFiles {
		src := filepath.Join(repo, rel)
		data, err := os.ReadFile(src)
		if err != nil {
			return fmt.Errorf("crashpoints: %w", err)
		}
		fset := token.NewFileSet()
		f, err := parser.ParseFile(fset, src, data, parser.ParseComments)
		if err != nil {
			return fmt.Errorf("crashpoints: parse %s: %w", rel, err)
		}
		rw := &crashRewriter{fset: fset, file: filepath.Base(filepath.Dir(rel)) + "/" + filepath.Base(rel)}
		for _, d := range f.Decls {
			if fd, ok := d.(*ast.FuncDecl); ok && fd.Body != nil {
				rw.list(fd.Body.List)
				if fd.Name.Name == "ServeHTTP" && fd.Recv != nil {
					off := fset.Position(fd.Body.Lbrace).Offset + 1
					rw.ins = append(rw.ins, insertion{off: off, text: " verifcrash.Enter(); defer verifcrash.Leave(); ", seq: len(rw.ins)})
				}
			}
		}
		if rw.count == 0 {
			return fmt.Errorf("crashpoints: no crash point could be placed in %s (source shape changed)", rel)
		}
		// splice the insertions into the source text, last offset first (ties: later insertion first, so that
		// "after A" stays in front of "before B" when both land on the same offset)
		ins := rw.ins
		sort.Slice(ins, func(i, j int) bool {
			if ins[i].off != ins[j].off {
				return ins[i].off > ins[j].off
			}
			return ins[i].seq > ins[j].seq
		})
		txt := string(data)
		for _, in := range ins {
			txt = txt[:in.off] + in.text + txt[in.off:]
		}
		idx := strings.Index(txt, "import (")
		if idx < 0 {
			return fmt.Errorf("crashpoints: no import block in %s", rel)
		}
		txt = txt[:idx] + "import (\n\t\"" + crashPkg + "\"" + txt[idx+len("import ("):]
		// self-test: removing exactly the inserted texts gives back the source
		back := strings.Replace(txt, "import (\n\t\""+crashPkg+"\"", "import (", 1)
		for _, in := range ins {
			back = strings.Replace(back, in.text, "", 1)
		}
		if back != string(data) {
			return fmt.Errorf("crashpoints: self-test failed for %s: the rewritten file differs from the source by more than the inserted Hit calls", rel)
		}
		if _, err := parser.ParseFile(token.NewFileSet(), src, txt, 0); err != nil {
			return fmt.Errorf("crashpoints: rewritten %s does not parse: %w", rel, err)
		}
		out := filepath.Join(outdir, strings.ReplaceAll(rel, "/", "__"))
		if err := os.WriteFile(out, []byte(txt), 0o644); err != nil {
			return err
		}
		overlay[src] = out
		report[rel] = rw.count
	}
	js, _ := json.MarshalIndent(map[string]any{"Replace": overlay, "points": report}, "", " ")
	return os.WriteFile(filepath.Join(outdir, "crash_overlay.json"), js, 0o644)
}
