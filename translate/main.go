// Command translate regenerates the Coq files under coq/Gen from the Go source
// of /repo (go/ast, standard library only).  Usage: translate <repo> <outdir>
package main

import (
	"fmt"
	"os"
	"path/filepath"
)

func main() {
	if len(os.Args) < 3 {
		fmt.Fprintln(os.Stderr, "usage: translate <repo> <outdir>")
		os.Exit(2)
	}
	if os.Args[1] == "crashpoints" {
		if len(os.Args) < 4 {
			fmt.Fprintln(os.Stderr, "usage: translate crashpoints <repo> <outdir>")
			os.Exit(2)
		}
		if err := genCrashOverlay(os.Args[2], os.Args[3]); err != nil {
			fmt.Fprintln(os.Stderr, err)
			os.Exit(1)
		}
		return
	}
	if os.Args[1] == "pgtie" {
		// translate pgtie <repo>: print the generated PgTie.v (or the reasons it cannot be generated)
		txt, err := pgtieGenerate(os.Args[2])
		if err != nil {
			fmt.Fprintln(os.Stderr, err)
			os.Exit(1)
		}
		fmt.Print(txt)
		return
	}
	if os.Args[1] == "transitions" {
		// translate transitions <repo> [<outdir>]: only the state-machine tables; non-zero exit
		// and a message naming the method/statement when the source is not understood
		if len(os.Args) < 3 {
			fmt.Fprintln(os.Stderr, "usage: translate transitions <repo> [<outdir>]")
			os.Exit(2)
		}
		txt, err := genTransitionsOrStub(os.Args[2])
		if len(os.Args) > 3 {
			if werr := os.WriteFile(filepath.Join(os.Args[3], "Transitions.v"), []byte(txt), 0o644); werr != nil {
				fmt.Fprintln(os.Stderr, werr)
				os.Exit(2)
			}
		} else if err == nil {
			fmt.Print(txt)
		}
		if err != nil {
			fmt.Fprintf(os.Stderr, "translate Transitions.v: %v\n", err)
			os.Exit(1)
		}
		return
	}
	repo, out := os.Args[1], os.Args[2]
	gens := []struct {
		name string
		fn   func(repo string) (string, error)
	}{
		{"McpTables.v", genMcpTables},
		{"Consts.v", genConsts},
		{"PgTie.v", genPgTie},
		{"AdminProxy.v", genAdminProxy},
		{"PushShape.v", genPushShape},
	}
	failed := false
	for _, g := range gens {
		txt, err := g.fn(repo)
		if err != nil {
			fmt.Fprintf(os.Stderr, "translate %s: %v\n", g.name, err)
			failed = true
			continue
		}
		p := filepath.Join(out, g.name)
		old, _ := os.ReadFile(p)
		if string(old) == txt {
			continue
		}
		if err := os.WriteFile(p, []byte(txt), 0o644); err != nil {
			fmt.Fprintf(os.Stderr, "write %s: %v\n", p, err)
			failed = true
		}
	}
	// Transitions.v is isolated: when the state-machine extraction fails the file becomes a stub
	// with empty tables (only Proofs/TransitionsProofs.v and Properties/C02trans.v stop compiling),
	// the message goes to stderr and the exit code is 3 unless something else failed too.
	ttxt, terr := genTransitionsOrStub(repo)
	tp := filepath.Join(out, "Transitions.v")
	if old, _ := os.ReadFile(tp); string(old) != ttxt {
		if err := os.WriteFile(tp, []byte(ttxt), 0o644); err != nil {
			fmt.Fprintf(os.Stderr, "write %s: %v\n", tp, err)
			failed = true
		}
	}
	if terr != nil {
		fmt.Fprintf(os.Stderr, "translate Transitions.v: %v\n", terr)
	}
	if failed {
		os.Exit(1)
	}
	if terr != nil {
		os.Exit(3)
	}
}
