// pgtie: static tie between internal/queue/sqlite.go and internal/queue/postgres.go.
//
// The Postgres store cannot be executed in the sandbox, so the only tie it can get is a
// syntactic one: for every function of the two files this translator extracts a
// "skeleton" -- the SQL statements the function can execute (assembled from literals,
// fmt.Sprintf, strings.Builder, strings.Join, += under conditions; every placeholder
// bound to the Go expression passed for it), together with the control structure that
// matters for the store contract: transaction begin/commit/rollback points, calls to
// other store functions, returned sentinel errors, `if` blocks made of assignments only
// (defaults and clamps, constants resolved), loops and conditions around all of these.
// The skeletons are emitted as Coq data (token lists) into coq/Gen/PgTie.v; the dialect
// normaliser and the comparison live in Coq (Model/SqlNorm.v, Model/PgAllowedDiffs.v).
//
// What the translator cannot resolve is an error: the generated file then only carries
// `pgtie_error`, and the C13pg obligations fail.
package main

import (
	"bytes"
	"fmt"
	"go/ast"
	"go/parser"
	"go/printer"
	"go/token"
	"path/filepath"
	"regexp"
	"sort"
	"strconv"
	"strings"
)

// ---------------------------------------------------------------------------
// symbolic values

type part interface{}

type pLit struct{ s string }               // SQL text
type pPH struct{ n string; arg *argOne; list string; mode int } // placeholder ($n / computed); mode 1 = next append, 2 = bound
type pQ struct{ arg *argOne }              // a bound sqlite `?`
type pPHList struct{ over string; bound string } // strings.Repeat("?,", len(over)) trimmed
type pInt struct{ ref *argOne; txt string } // fmt.Sprintf("%d", x)
type pCond struct {
	cond      string
	then, els []part
}
type pJoin struct {
	elems []lelem
	sep   string
}
type pOpaque struct{ src string }

type lelem interface{}
type lOne struct{ parts []part }
type lCond struct {
	cond      string
	then, els []lelem
}

type aelem interface{}
type argOne struct{ txt string }
type argSpread struct{ over, txt string }
type argCond struct {
	cond      string
	then, els []aelem
}

type value interface{}
type vStr struct{ parts []part }
type vStrList struct{ elems []lelem }
type vArgs struct{ elems []aelem }
type vLen struct{ last *argOne; list string } // len(list) right after `last` was appended
type vFunc struct {
	lit *ast.FuncLit
	env *env
}
type vOpaque struct{ src string }

type env struct {
	vars       map[string]value
	pending    map[string][]*pPH
	funcParams map[string]bool
	terminated bool
}

func newEnv() *env {
	return &env{vars: map[string]value{}, pending: map[string][]*pPH{}, funcParams: map[string]bool{}}
}

func (e *env) copy() *env {
	c := newEnv()
	for k, v := range e.vars {
		c.vars[k] = v
	}
	for k, v := range e.pending {
		c.pending[k] = append([]*pPH(nil), v...)
	}
	for k, v := range e.funcParams {
		c.funcParams[k] = v
	}
	return c
}

// ---------------------------------------------------------------------------
// skeleton nodes

type node struct {
	kind     string // if for switch stmt tx call callparam ret assign field
	text     string
	toks     []string
	then     []node
	els      []node
	hasElse  bool
	cases    []caseNode
	closures [][]node
}

type caseNode struct {
	label string
	body  []node
}

// ---------------------------------------------------------------------------

type tieFile struct {
	path    string
	dialect string // sqlite | pg
	recv    string
	file    *ast.File
}

type tie struct {
	fset      *token.FileSet
	cur       *tieFile
	funcs     map[string]*ast.FuncDecl // "Recv.Name" / "Name" over the package files read
	funcFile  map[string]string
	intConsts map[string]string
	strConsts map[string]string // typed string constants of queue.go (StateQueued -> queued)
	rawConsts map[string]string // untyped string constants (schema texts)
	errVars   map[string]bool
	memo      map[string][]node
	busy      map[string]bool
	errs      []string
	fnStack   []string
}

func (t *tie) failf(format string, a ...interface{}) {
	where := ""
	if len(t.fnStack) > 0 {
		where = t.cur.dialect + ":" + strings.Join(t.fnStack, ">") + ": "
	}
	t.errs = append(t.errs, where+fmt.Sprintf(format, a...))
}

var wsRe = regexp.MustCompile(`\s+`)

func (t *tie) src(n ast.Node) string {
	var b bytes.Buffer
	_ = printer.Fprint(&b, t.fset, n)
	return strings.TrimSpace(wsRe.ReplaceAllString(b.String(), " "))
}

var stringConvRe = regexp.MustCompile(`\bstring\((\w+)\)`)
var identRe = regexp.MustCompile(`\b[A-Za-z_]\w*\b`)

// goText renders a Go expression as text with the constants of the two files resolved.
func (t *tie) goText(n ast.Node) string {
	s := t.src(n)
	s = identRe.ReplaceAllStringFunc(s, func(id string) string {
		if v, ok := t.intConsts[id]; ok {
			return v
		}
		return id
	})
	return s
}

// argText renders a bound SQL argument: state constants become SQL literals.
func (t *tie) argText(n ast.Expr) string {
	if cl, ok := n.(*ast.CompositeLit); ok {
		if at, ok := cl.Type.(*ast.ArrayType); ok && t.src(at.Elt) == "string" {
			var parts []string
			okAll := true
			for _, el := range cl.Elts {
				x := t.argText(el)
				if !strings.HasPrefix(x, "'") {
					okAll = false
				}
				parts = append(parts, x)
			}
			if okAll {
				return "[" + strings.Join(parts, ",") + "]"
			}
		}
	}
	s := t.goText(n)
	if m := stringConvRe.FindStringSubmatch(s); m != nil && m[0] == s {
		if v, ok := t.strConsts[m[1]]; ok {
			return "'" + v + "'"
		}
	}
	if id, ok := n.(*ast.Ident); ok {
		if v, ok := t.strConsts[id.Name]; ok {
			return "'" + v + "'"
		}
	}
	if bl, ok := n.(*ast.BasicLit); ok && bl.Kind == token.STRING {
		if u, err := strconv.Unquote(bl.Value); err == nil && !strings.ContainsAny(u, "'{}") {
			return "'" + u + "'"
		}
	}
	return s
}

// ---------------------------------------------------------------------------
// expression evaluation

func (t *tie) evalStr(e ast.Expr, en *env) ([]part, bool) {
	switch x := e.(type) {
	case *ast.BasicLit:
		if x.Kind == token.STRING {
			u, err := strconv.Unquote(x.Value)
			if err != nil {
				return nil, false
			}
			return []part{pLit{u}}, true
		}
	case *ast.ParenExpr:
		return t.evalStr(x.X, en)
	case *ast.Ident:
		if v, ok := en.vars[x.Name]; ok {
			if s, ok := v.(vStr); ok {
				return s.parts, true
			}
			return nil, false
		}
		if v, ok := t.rawConsts[x.Name]; ok {
			return []part{pLit{v}}, true
		}
	case *ast.BinaryExpr:
		if x.Op == token.ADD {
			a, oka := t.evalStr(x.X, en)
			b, okb := t.evalStr(x.Y, en)
			if oka && okb {
				return append(append([]part(nil), a...), b...), true
			}
			if oka || okb {
				if !oka {
					a = []part{pOpaque{t.src(x.X)}}
				}
				if !okb {
					b = []part{pOpaque{t.src(x.Y)}}
				}
				return append(append([]part(nil), a...), b...), true
			}
		}
	case *ast.CallExpr:
		fn := t.src(x.Fun)
		switch {
		case fn == "fmt.Sprintf" && len(x.Args) >= 1:
			return t.evalSprintf(x, en)
		case fn == "strings.Join" && len(x.Args) == 2:
			id, ok := x.Args[0].(*ast.Ident)
			if !ok {
				return nil, false
			}
			l, ok := en.vars[id.Name].(vStrList)
			if !ok {
				return nil, false
			}
			sep, ok := t.evalStr(x.Args[1], en)
			if !ok || len(sep) != 1 {
				return nil, false
			}
			return []part{pJoin{elems: l.elems, sep: sep[0].(pLit).s}}, true
		case fn == "strings.TrimRight" && len(x.Args) == 2:
			// strings.TrimRight(strings.Repeat("?,", len(X)), ",")
			if in, ok := x.Args[0].(*ast.CallExpr); ok && t.src(in.Fun) == "strings.Repeat" && len(in.Args) == 2 {
				if t.src(in.Args[0]) == `"?,"` && t.src(x.Args[1]) == `","` {
					if lc, ok := in.Args[1].(*ast.CallExpr); ok && t.src(lc.Fun) == "len" && len(lc.Args) == 1 {
						return []part{pPHList{over: t.src(lc.Args[0])}}, true
					}
				}
			}
			return nil, false
		case strings.HasSuffix(fn, ".String") && len(x.Args) == 0:
			if se, ok := x.Fun.(*ast.SelectorExpr); ok {
				if id, ok := se.X.(*ast.Ident); ok {
					if s, ok := en.vars[id.Name].(vStr); ok {
						return s.parts, true
					}
				}
			}
		}
	}
	return nil, false
}

func (t *tie) evalSprintf(c *ast.CallExpr, en *env) ([]part, bool) {
	fparts, ok := t.evalStr(c.Args[0], en)
	if !ok || len(fparts) != 1 {
		return nil, false
	}
	fl, ok := fparts[0].(pLit)
	if !ok {
		return nil, false
	}
	format := fl.s
	args := c.Args[1:]
	var out []part
	var lit strings.Builder
	ai := 0
	for i := 0; i < len(format); i++ {
		ch := format[i]
		if ch != '%' {
			lit.WriteByte(ch)
			continue
		}
		if i+1 >= len(format) {
			return nil, false
		}
		verb := format[i+1]
		i++
		if verb == '%' {
			lit.WriteByte('%')
			continue
		}
		if ai >= len(args) {
			return nil, false
		}
		a := args[ai]
		ai++
		switch verb {
		case 'd':
			cur := lit.String()
			if strings.HasSuffix(cur, "$") {
				lit.Reset()
				lit.WriteString(strings.TrimSuffix(cur, "$"))
				if lit.Len() > 0 {
					out = append(out, pLit{lit.String()})
					lit.Reset()
				}
				ph, ok := t.evalPlaceholderIndex(a, en)
				if !ok {
					t.failf("cannot resolve placeholder index %s", t.src(a))
					return nil, false
				}
				out = append(out, ph)
			} else {
				if lit.Len() > 0 {
					out = append(out, pLit{lit.String()})
					lit.Reset()
				}
				out = append(out, t.evalIntPart(a, en))
			}
		case 's':
			if lit.Len() > 0 {
				out = append(out, pLit{lit.String()})
				lit.Reset()
			}
			ps, ok := t.evalStr(a, en)
			if !ok {
				ps = []part{pOpaque{t.src(a)}}
			}
			out = append(out, ps...)
		default:
			if lit.Len() > 0 {
				out = append(out, pLit{lit.String()})
				lit.Reset()
			}
			out = append(out, pOpaque{"%" + string(verb) + ":" + t.src(a)})
		}
	}
	if lit.Len() > 0 {
		out = append(out, pLit{lit.String()})
	}
	return out, true
}

func (t *tie) evalIntPart(a ast.Expr, en *env) part {
	if id, ok := a.(*ast.Ident); ok {
		if l, ok := en.vars[id.Name].(vLen); ok {
			return pInt{ref: l.last, txt: id.Name}
		}
	}
	return pInt{txt: t.src(a)}
}

// evalPlaceholderIndex understands len(L), len(L)+1 and a variable holding len(L).
func (t *tie) evalPlaceholderIndex(a ast.Expr, en *env) (part, bool) {
	lenOf := func(e ast.Expr) (string, bool) {
		c, ok := e.(*ast.CallExpr)
		if !ok || t.src(c.Fun) != "len" || len(c.Args) != 1 {
			return "", false
		}
		id, ok := c.Args[0].(*ast.Ident)
		if !ok {
			return "", false
		}
		if _, ok := en.vars[id.Name].(vArgs); !ok {
			return "", false
		}
		return id.Name, true
	}
	if l, ok := lenOf(a); ok {
		last := lastArg(en.vars[l].(vArgs).elems)
		if last == nil {
			return nil, false
		}
		return &pPH{n: "*", arg: last, mode: 2}, true
	}
	if be, ok := a.(*ast.BinaryExpr); ok && be.Op == token.ADD && t.src(be.Y) == "1" {
		if l, ok := lenOf(be.X); ok {
			ph := &pPH{n: "*", list: l, mode: 1}
			en.pending[l] = append(en.pending[l], ph)
			return ph, true
		}
	}
	if id, ok := a.(*ast.Ident); ok {
		if l, ok := en.vars[id.Name].(vLen); ok && l.last != nil {
			return &pPH{n: "*", arg: l.last, mode: 2}, true
		}
	}
	return nil, false
}

func lastArg(els []aelem) *argOne {
	if len(els) == 0 {
		return nil
	}
	if a, ok := els[len(els)-1].(*argOne); ok {
		return a
	}
	return nil
}

func (t *tie) evalValue(e ast.Expr, en *env) value {
	if ps, ok := t.evalStr(e, en); ok {
		return vStr{ps}
	}
	switch x := e.(type) {
	case *ast.FuncLit:
		return vFunc{lit: x, env: en}
	case *ast.Ident:
		if v, ok := en.vars[x.Name]; ok {
			return v
		}
		if x.Name == "nil" {
			return vArgs{} // a nil []any argument list
		}
	case *ast.CompositeLit:
		ty := t.src(x.Type)
		if ty == "[]any" || ty == "[]interface{}" {
			var els []aelem
			for _, el := range x.Elts {
				els = append(els, &argOne{t.argText(el)})
			}
			return vArgs{els}
		}
		if ty == "[]string" && len(x.Elts) == 0 {
			return vStrList{}
		}
	case *ast.CallExpr:
		fn := t.src(x.Fun)
		if fn == "make" && len(x.Args) >= 1 {
			ty := t.src(x.Args[0])
			if ty == "[]any" || ty == "[]interface{}" {
				return vArgs{}
			}
			if ty == "[]string" {
				// only a list that is later joined into SQL matters; others stay opaque through use
				return vStrList{}
			}
		}
		if fn == "len" && len(x.Args) == 1 {
			if id, ok := x.Args[0].(*ast.Ident); ok {
				if a, ok := en.vars[id.Name].(vArgs); ok {
					return vLen{last: lastArg(a.elems), list: id.Name}
				}
			}
		}
		if fn == "append" && len(x.Args) >= 1 {
			if id, ok := x.Args[0].(*ast.Ident); ok {
				switch base := en.vars[id.Name].(type) {
				case vArgs:
					els := append([]aelem(nil), base.elems...)
					var first *argOne
					if x.Ellipsis.IsValid() && len(x.Args) == 2 {
						if sid, ok := x.Args[1].(*ast.Ident); ok {
							if sv, ok := en.vars[sid.Name].(vArgs); ok {
								els = append(els, sv.elems...)
								return vArgs{els}
							}
						}
						els = append(els, &argSpread{over: t.src(x.Args[1]), txt: t.src(x.Args[1])})
						return vArgs{els}
					}
					for _, a := range x.Args[1:] {
						o := &argOne{t.argText(a)}
						if first == nil {
							first = o
						}
						els = append(els, o)
					}
					if first != nil {
						for _, ph := range en.pending[id.Name] {
							ph.arg = first
							ph.mode = 2
						}
						delete(en.pending, id.Name)
					}
					return vArgs{els}
				case vStrList:
					els := append([]lelem(nil), base.elems...)
					for _, a := range x.Args[1:] {
						ps, ok := t.evalStr(a, en)
						if !ok {
							ps = []part{pOpaque{t.src(a)}}
						}
						els = append(els, lOne{ps})
					}
					return vStrList{els}
				}
			}
		}
	}
	return vOpaque{t.src(e)}
}

// ---------------------------------------------------------------------------
// merging values at control-flow joins

func partsEq(a, b part) bool {
	switch x := a.(type) {
	case pLit:
		y, ok := b.(pLit)
		return ok && x == y
	case *pPH:
		y, ok := b.(*pPH)
		return ok && x == y
	case pPHList:
		y, ok := b.(pPHList)
		return ok && x == y
	case pInt:
		y, ok := b.(pInt)
		return ok && x == y
	case pOpaque:
		y, ok := b.(pOpaque)
		return ok && x == y
	case pCond:
		y, ok := b.(pCond)
		return ok && x.cond == y.cond && partsListEq(x.then, y.then) && partsListEq(x.els, y.els)
	case pJoin:
		y, ok := b.(pJoin)
		if !ok || x.sep != y.sep || len(x.elems) != len(y.elems) {
			return false
		}
		for i := range x.elems {
			if !lelemEq(x.elems[i], y.elems[i]) {
				return false
			}
		}
		return true
	}
	return false
}

func partsListEq(a, b []part) bool {
	if len(a) != len(b) {
		return false
	}
	for i := range a {
		if !partsEq(a[i], b[i]) {
			return false
		}
	}
	return true
}

func lelemEq(a, b lelem) bool {
	switch x := a.(type) {
	case lOne:
		y, ok := b.(lOne)
		return ok && partsListEq(x.parts, y.parts)
	case lCond:
		y, ok := b.(lCond)
		if !ok || x.cond != y.cond || len(x.then) != len(y.then) || len(x.els) != len(y.els) {
			return false
		}
		for i := range x.then {
			if !lelemEq(x.then[i], y.then[i]) {
				return false
			}
		}
		for i := range x.els {
			if !lelemEq(x.els[i], y.els[i]) {
				return false
			}
		}
		return true
	}
	return false
}

func aelemEq(a, b aelem) bool {
	switch x := a.(type) {
	case *argOne:
		y, ok := b.(*argOne)
		return ok && x == y
	case *argSpread:
		y, ok := b.(*argSpread)
		return ok && (x == y || *x == *y)
	case *argCond:
		y, ok := b.(*argCond)
		return ok && x == y
	}
	return false
}

func mergeValue(cond string, a, b value) (value, bool) {
	switch x := a.(type) {
	case vStr:
		y, ok := b.(vStr)
		if !ok {
			return nil, false
		}
		i := 0
		for i < len(x.parts) && i < len(y.parts) && partsEq(x.parts[i], y.parts[i]) {
			i++
		}
		if i == len(x.parts) && i == len(y.parts) {
			return x, true
		}
		out := append([]part(nil), x.parts[:i]...)
		out = append(out, pCond{cond: cond, then: x.parts[i:], els: y.parts[i:]})
		return vStr{out}, true
	case vArgs:
		y, ok := b.(vArgs)
		if !ok {
			return nil, false
		}
		i := 0
		for i < len(x.elems) && i < len(y.elems) && aelemEq(x.elems[i], y.elems[i]) {
			i++
		}
		if i == len(x.elems) && i == len(y.elems) {
			return x, true
		}
		out := append([]aelem(nil), x.elems[:i]...)
		out = append(out, &argCond{cond: cond, then: x.elems[i:], els: y.elems[i:]})
		return vArgs{out}, true
	case vStrList:
		y, ok := b.(vStrList)
		if !ok {
			return nil, false
		}
		i := 0
		for i < len(x.elems) && i < len(y.elems) && lelemEq(x.elems[i], y.elems[i]) {
			i++
		}
		if i == len(x.elems) && i == len(y.elems) {
			return x, true
		}
		out := append([]lelem(nil), x.elems[:i]...)
		out = append(out, lCond{cond: cond, then: x.elems[i:], els: y.elems[i:]})
		return vStrList{out}, true
	case vLen:
		y, ok := b.(vLen)
		if ok && x == y {
			return x, true
		}
		return vOpaque{"len"}, true
	case vFunc:
		return x, true
	case vOpaque:
		return x, true
	}
	return nil, false
}

// mergeEnvs joins the environments of the two arms of a conditional into dst.
func (t *tie) mergeEnvs(dst *env, cond string, a, b *env) {
	if a.terminated && b.terminated {
		dst.terminated = true
		return
	}
	if a.terminated {
		dst.vars, dst.pending = b.vars, b.pending
		return
	}
	if b.terminated {
		dst.vars, dst.pending = a.vars, a.pending
		return
	}
	out := map[string]value{}
	for k, va := range a.vars {
		vb, ok := b.vars[k]
		if !ok {
			continue
		}
		m, ok := mergeValue(cond, va, vb)
		if !ok {
			m = vOpaque{k}
		}
		out[k] = m
	}
	dst.vars = out
	// a placeholder waiting for "the next append" must have been bound inside its own arm
	for k := range a.pending {
		if len(a.pending[k]) != len(dst.pending[k]) {
			t.failf("placeholder $%%d = len(%s)+1 not followed by an append in the same branch", k)
		}
	}
	for k := range b.pending {
		if len(b.pending[k]) != len(dst.pending[k]) {
			t.failf("placeholder $%%d = len(%s)+1 not followed by an append in the same branch", k)
		}
	}
}

// ---------------------------------------------------------------------------
// statements

func isSimpleAssign(s ast.Stmt) bool {
	switch x := s.(type) {
	case *ast.AssignStmt:
		if x.Tok != token.ASSIGN || len(x.Lhs) != 1 || len(x.Rhs) != 1 {
			return false
		}
		switch x.Lhs[0].(type) {
		case *ast.Ident, *ast.SelectorExpr:
			return true
		}
	}
	return false
}

func (t *tie) execBlock(stmts []ast.Stmt, en *env) []node {
	var out []node
	onlyAssign := len(stmts) > 0
	for _, s := range stmts {
		if !isSimpleAssign(s) {
			onlyAssign = false
		}
	}
	for _, s := range stmts {
		ns := t.execStmt(s, en)
		if !onlyAssign {
			ns = dropKind(ns, "assign")
		}
		out = append(out, ns...)
	}
	return out
}

var nullDecodeRe = regexp.MustCompile(`^\w+(\.\w+)*\.Valid$`)

func onlyKind(ns []node, kind string) bool {
	for _, n := range ns {
		if n.kind != kind {
			return false
		}
	}
	return true
}

func dropKind(ns []node, kind string) []node {
	var out []node
	for _, n := range ns {
		if n.kind != kind {
			out = append(out, n)
		}
	}
	return out
}

func (t *tie) execStmt(s ast.Stmt, en *env) []node {
	switch x := s.(type) {
	case *ast.BlockStmt:
		return t.execBlock(x.List, en)
	case *ast.LabeledStmt:
		return t.execStmt(x.Stmt, en)
	case *ast.EmptyStmt, *ast.IncDecStmt:
		return nil
	case *ast.DeclStmt:
		gd, ok := x.Decl.(*ast.GenDecl)
		if !ok || gd.Tok != token.VAR {
			return nil
		}
		var out []node
		for _, sp := range gd.Specs {
			vs := sp.(*ast.ValueSpec)
			for i, nm := range vs.Names {
				if i < len(vs.Values) {
					out = append(out, t.scanCalls(vs.Values[i], en)...)
					en.vars[nm.Name] = t.evalValue(vs.Values[i], en)
					continue
				}
				ty := ""
				if vs.Type != nil {
					ty = t.src(vs.Type)
				}
				switch ty {
				case "strings.Builder":
					en.vars[nm.Name] = vStr{}
				case "[]string":
					en.vars[nm.Name] = vStrList{}
				case "[]any", "[]interface{}":
					en.vars[nm.Name] = vArgs{}
				case "string":
					en.vars[nm.Name] = vStr{}
				default:
					delete(en.vars, nm.Name)
				}
			}
		}
		return out
	case *ast.ExprStmt:
		if c, ok := x.X.(*ast.CallExpr); ok {
			if se, ok := c.Fun.(*ast.SelectorExpr); ok && se.Sel.Name == "WriteString" && len(c.Args) == 1 {
				if id, ok := se.X.(*ast.Ident); ok {
					if cur, ok := en.vars[id.Name].(vStr); ok {
						ps, ok := t.evalStr(c.Args[0], en)
						if !ok {
							ps = []part{pOpaque{t.src(c.Args[0])}}
						}
						en.vars[id.Name] = vStr{append(append([]part(nil), cur.parts...), ps...)}
						return nil
					}
				}
			}
		}
		return t.scanCalls(x.X, en)
	case *ast.AssignStmt:
		return t.execAssign(x, en)
	case *ast.IfStmt:
		return t.execIf(x, en)
	case *ast.ForStmt:
		var out []node
		if x.Init != nil {
			out = append(out, t.execStmt(x.Init, en)...)
		}
		over := ""
		if x.Cond != nil {
			over = t.goText(x.Cond)
		}
		return append(out, t.execLoop(over, x.Body, en, nil)...)
	case *ast.RangeStmt:
		return t.execLoop("range "+t.goText(x.X), x.Body, en, x)
	case *ast.SwitchStmt:
		return t.execSwitch(x, en)
	case *ast.ReturnStmt:
		return t.execReturn(x, en)
	case *ast.DeferStmt:
		if fl, ok := x.Call.Fun.(*ast.FuncLit); ok {
			rollback := false
			ast.Inspect(fl.Body, func(n ast.Node) bool {
				if c, ok := n.(*ast.CallExpr); ok {
					if se, ok := c.Fun.(*ast.SelectorExpr); ok && (se.Sel.Name == "Rollback" || se.Sel.Name == "rollbackTx") {
						rollback = true
					}
				}
				return true
			})
			if rollback {
				return []node{{kind: "tx", text: "defer-rollback"}}
			}
			t.ensureNoDB(fl.Body, "deferred closure")
		}
		return nil
	case *ast.BranchStmt:
		if x.Tok == token.CONTINUE || x.Tok == token.BREAK {
			en.terminated = true
		}
		return nil
	case *ast.GoStmt:
		if fl, ok := x.Call.Fun.(*ast.FuncLit); ok {
			e := en.copy()
			return []node{{kind: "go", then: dropRetOK(t.execBlock(fl.Body.List, e))}}
		}
		t.ensureNoDB(x.Call, "go statement")
		return nil
	case *ast.SelectStmt:
		sw := node{kind: "switch", text: "select"}
		for _, c := range x.Body.List {
			cc := c.(*ast.CommClause)
			e := en.copy()
			label := "default"
			if cc.Comm != nil {
				label = t.goText(cc.Comm)
			}
			sw.cases = append(sw.cases, caseNode{label: label, body: t.execBlock(cc.Body, e)})
		}
		return []node{sw}
	case *ast.TypeSwitchStmt:
		t.ensureNoDB(x.Body, "type switch")
		return nil
	}
	t.failf("unsupported statement %T", s)
	return nil
}

var dbMethods = map[string]string{
	"ExecContext": "exec", "QueryContext": "query", "QueryRowContext": "row",
	"Exec": "exec", "Query": "query", "QueryRow": "row",
}

func (t *tie) ensureNoDB(n ast.Node, where string) {
	ast.Inspect(n, func(m ast.Node) bool {
		if c, ok := m.(*ast.CallExpr); ok {
			if se, ok := c.Fun.(*ast.SelectorExpr); ok {
				if _, ok := dbMethods[se.Sel.Name]; ok {
					t.failf("database call inside a %s is not supported", where)
				}
				if id, ok := se.X.(*ast.Ident); ok && id.Name == "s" {
					if fd, ok := t.funcs[t.cur.recv+"."+se.Sel.Name]; ok && relevant(t.skeleton(t.cur.recv+"."+se.Sel.Name, fd)) {
						t.failf("call of %s inside a %s is not supported", se.Sel.Name, where)
					}
				}
			}
		}
		return true
	})
}

func (t *tie) execAssign(x *ast.AssignStmt, en *env) []node {
	var out []node
	for _, r := range x.Rhs {
		if _, ok := r.(*ast.FuncLit); ok {
			continue
		}
		out = append(out, t.scanCalls(r, en)...)
	}
	if x.Tok == token.ADD_ASSIGN && len(x.Lhs) == 1 {
		if id, ok := x.Lhs[0].(*ast.Ident); ok {
			if cur, ok := en.vars[id.Name].(vStr); ok {
				ps, ok := t.evalStr(x.Rhs[0], en)
				if !ok {
					ps = []part{pOpaque{t.src(x.Rhs[0])}}
				}
				en.vars[id.Name] = vStr{append(append([]part(nil), cur.parts...), ps...)}
			}
		}
		return out
	}
	if len(x.Lhs) == len(x.Rhs) {
		vals := make([]value, len(x.Rhs))
		for i, r := range x.Rhs {
			vals[i] = t.evalValue(r, en)
		}
		for i, l := range x.Lhs {
			if id, ok := l.(*ast.Ident); ok && id.Name != "_" {
				en.vars[id.Name] = vals[i]
			}
		}
	} else {
		for _, l := range x.Lhs {
			if id, ok := l.(*ast.Ident); ok && id.Name != "_" {
				en.vars[id.Name] = vOpaque{id.Name}
			}
		}
	}
	if isSimpleAssign(x) {
		track := false
		if id, ok := x.Lhs[0].(*ast.Ident); ok {
			switch en.vars[id.Name].(type) {
			case vStr, vArgs, vStrList, vLen:
				track = true
			}
			if id.Name == "err" || id.Name == "_" {
				track = true
			}
		}
		if !track {
			out = append(out, node{kind: "assign", text: t.goText(x.Lhs[0]) + " = " + t.goText(x.Rhs[0])})
		}
	}
	return out
}

func (t *tie) execIf(x *ast.IfStmt, en *env) []node {
	var out []node
	if x.Init != nil {
		out = append(out, t.execStmt(x.Init, en)...)
	}
	out = append(out, t.scanCalls(x.Cond, en)...)
	cond := t.goText(x.Cond)
	ea := en.copy()
	na := t.execBlock(x.Body.List, ea)
	eb := en.copy()
	var nb []node
	if x.Else != nil {
		switch e := x.Else.(type) {
		case *ast.BlockStmt:
			nb = t.execBlock(e.List, eb)
		case *ast.IfStmt:
			nb = t.execIf(e, eb)
		}
	}
	t.mergeEnvs(en, cond, ea, eb)
	if nullDecodeRe.MatchString(cond) && x.Else == nil && onlyKind(na, "assign") {
		// `if col.Valid { field = col.String }`: decoding of a NULLable column, not part of the skeleton
		return out
	}
	out = append(out, node{kind: "if", text: cond, then: na, els: nb, hasElse: x.Else != nil})
	return out
}

func (t *tie) execSwitch(x *ast.SwitchStmt, en *env) []node {
	var out []node
	if x.Init != nil {
		out = append(out, t.execStmt(x.Init, en)...)
	}
	tag := ""
	if x.Tag != nil {
		out = append(out, t.scanCalls(x.Tag, en)...)
		tag = t.goText(x.Tag)
	}
	sw := node{kind: "switch", text: tag}
	type arm struct {
		label string
		e     *env
	}
	var arms []arm
	hasDefault := false
	for _, c := range x.Body.List {
		cc := c.(*ast.CaseClause)
		label := "default"
		if cc.List != nil {
			var ls []string
			for _, l := range cc.List {
				ls = append(ls, t.goText(l))
			}
			label = strings.Join(ls, ", ")
		} else {
			hasDefault = true
		}
		e := en.copy()
		body := t.execBlock(cc.Body, e)
		sw.cases = append(sw.cases, caseNode{label: label, body: body})
		arms = append(arms, arm{label, e})
	}
	if !hasDefault {
		arms = append(arms, arm{"default", en.copy()})
	}
	// fold the arms right-to-left into nested conditionals
	acc := arms[len(arms)-1].e
	for i := len(arms) - 2; i >= 0; i-- {
		dst := en.copy()
		t.mergeEnvs(dst, "switch "+tag+" case "+arms[i].label, arms[i].e, acc)
		acc = dst
	}
	en.vars, en.pending, en.terminated = acc.vars, acc.pending, acc.terminated
	out = append(out, sw)
	return out
}

func (t *tie) execLoop(over string, body *ast.BlockStmt, en *env, rs *ast.RangeStmt) []node {
	// the one loop shape that changes a tracked value: for _, v := range xs { L = append(L, f(v)) }
	if rs != nil && len(body.List) == 1 {
		if as, ok := body.List[0].(*ast.AssignStmt); ok && len(as.Lhs) == 1 && len(as.Rhs) == 1 {
			if lid, ok := as.Lhs[0].(*ast.Ident); ok {
				if c, ok := as.Rhs[0].(*ast.CallExpr); ok && t.src(c.Fun) == "append" && len(c.Args) == 2 && t.src(c.Args[0]) == lid.Name {
					if base, ok := en.vars[lid.Name].(vArgs); ok {
						els := append([]aelem(nil), base.elems...)
						els = append(els, &argSpread{over: t.src(rs.X), txt: t.goText(c.Args[1])})
						en.vars[lid.Name] = vArgs{els}
						return nil
					}
				}
			}
		}
	}
	before := en.copy()
	e := en.copy()
	if rs != nil {
		for _, k := range []ast.Expr{rs.Key, rs.Value} {
			if id, ok := k.(*ast.Ident); ok && id.Name != "_" {
				e.vars[id.Name] = vOpaque{id.Name}
			}
		}
	}
	nodes := t.execBlock(body.List, e)
	for k, v := range before.vars {
		switch v.(type) {
		case vStr, vArgs, vStrList:
			nv, ok := e.vars[k]
			if !ok {
				continue
			}
			same := false
			switch a := nv.(type) {
			case vStr:
				if b, ok := v.(vStr); ok {
					same = partsListEq(a.parts, b.parts)
				}
			case vArgs:
				if b, ok := v.(vArgs); ok {
					same = len(a.elems) == len(b.elems)
				}
			case vStrList:
				if b, ok := v.(vStrList); ok {
					same = len(a.elems) == len(b.elems)
				}
			}
			if !same {
				// modified inside a loop in a way not understood: unusable from here on (a database call
				// that needs it will fail loudly)
				en.vars[k] = vOpaque{k}
			}
		}
	}
	return []node{{kind: "for", text: over, then: nodes}}
}

func (t *tie) execReturn(x *ast.ReturnStmt, en *env) []node {
	var out []node
	en.terminated = true
	for _, r := range x.Results {
		if fl, ok := r.(*ast.FuncLit); ok {
			// a function returning a closure (option constructors): the closure body is the effect
			e := en.copy()
			out = append(out, t.execBlock(fl.Body.List, e)...)
			return out
		}
		out = append(out, t.scanCalls(r, en)...)
	}
	if len(x.Results) == 0 {
		return append(out, node{kind: "ret", text: "ok"})
	}
	last := x.Results[len(x.Results)-1]
	switch l := last.(type) {
	case *ast.Ident:
		if l.Name == "nil" {
			return append(out, node{kind: "ret", text: "ok"})
		}
		if t.errVars[l.Name] {
			return append(out, node{kind: "ret", text: l.Name})
		}
		if l.Name == "true" || l.Name == "false" {
			return append(out, node{kind: "ret", text: l.Name})
		}
	case *ast.CallExpr:
		fn := t.src(l.Fun)
		if fn == "errors.New" || fn == "fmt.Errorf" {
			txt := t.src(l.Args[0])
			if strings.Contains(txt, "%w") {
				return out // wraps a lower-level error: plumbing
			}
			return append(out, node{kind: "ret", text: "new{" + strings.Trim(txt, "\"`") + "}"})
		}
	}
	return out
}

// ---------------------------------------------------------------------------
// calls

// scanCalls walks an expression in evaluation order and emits the nodes of the calls in it.
func (t *tie) scanCalls(e ast.Expr, en *env) []node {
	var out []node
	var walk func(n ast.Node)
	walk = func(n ast.Node) {
		switch x := n.(type) {
		case nil:
			return
		case *ast.FuncLit:
			return
		case *ast.CallExpr:
			// receiver chain and arguments first
			if se, ok := x.Fun.(*ast.SelectorExpr); ok {
				walk(se.X)
			}
			closureArg := false
			for _, a := range x.Args {
				if _, ok := a.(*ast.FuncLit); ok {
					closureArg = true
					continue
				}
				walk(a)
			}
			ns, handled := t.handleCall(x, en)
			out = append(out, ns...)
			if !handled && closureArg {
				for _, a := range x.Args {
					if fl, ok := a.(*ast.FuncLit); ok {
						t.ensureNoDB(fl.Body, "closure passed to "+t.src(x.Fun))
					}
				}
			}
			return
		}
		// generic descent over expression children
		switch x := n.(type) {
		case *ast.BinaryExpr:
			walk(x.X)
			walk(x.Y)
		case *ast.UnaryExpr:
			walk(x.X)
		case *ast.ParenExpr:
			walk(x.X)
		case *ast.SelectorExpr:
			walk(x.X)
		case *ast.IndexExpr:
			walk(x.X)
			walk(x.Index)
		case *ast.SliceExpr:
			walk(x.X)
		case *ast.StarExpr:
			walk(x.X)
		case *ast.TypeAssertExpr:
			walk(x.X)
		case *ast.KeyValueExpr:
			walk(x.Value)
		case *ast.CompositeLit:
			for _, el := range x.Elts {
				walk(el)
			}
		}
	}
	walk(e)
	return out
}

func (t *tie) handleCall(c *ast.CallExpr, en *env) ([]node, bool) {
	switch f := c.Fun.(type) {
	case *ast.SelectorExpr:
		name := f.Sel.Name
		recvIsStore := false
		if id, ok := f.X.(*ast.Ident); ok && id.Name == "s" {
			recvIsStore = true
		}
		if how, ok := dbMethods[name]; ok && !recvIsStore {
			return t.dbCall(how, c, en), true
		}
		if !recvIsStore {
			switch name {
			case "BeginTx", "Begin":
				return []node{{kind: "tx", text: "begin"}}, true
			case "Commit":
				if len(c.Args) == 0 {
					return []node{{kind: "tx", text: "commit"}}, true
				}
			case "Rollback":
				if len(c.Args) == 0 {
					return []node{{kind: "tx", text: "rollback"}}, true
				}
			}
			return nil, false
		}
		key := t.cur.recv + "." + name
		if fd, ok := t.funcs[key]; ok {
			return t.localCall(key, name, fd, c, en), true
		}
		return nil, false
	case *ast.Ident:
		if en.funcParams[f.Name] {
			if fv, ok := en.vars[f.Name].(vFunc); ok {
				return t.execClosure(fv, c, en), true
			}
			return []node{{kind: "callparam", text: f.Name}}, true
		}
		if fv, ok := en.vars[f.Name].(vFunc); ok {
			return t.execClosure(fv, c, en), true
		}
		if fd, ok := t.funcs[f.Name]; ok {
			return t.localCall(f.Name, f.Name, fd, c, en), true
		}
	}
	return nil, false
}

func (t *tie) execClosure(fv vFunc, c *ast.CallExpr, en *env) []node {
	e := fv.env.copy()
	// symbolic actuals that matter (argument lists) are passed through by name
	if fv.lit.Type.Params != nil {
		i := 0
		for _, fld := range fv.lit.Type.Params.List {
			for _, nm := range fld.Names {
				if i < len(c.Args) {
					e.vars[nm.Name] = vOpaque{nm.Name}
				}
				i++
			}
		}
	}
	ns := t.execBlock(fv.lit.Body.List, e)
	return dropRetOK(ns)
}

func takesArgList(fd *ast.FuncDecl) bool {
	for _, fld := range fd.Type.Params.List {
		switch ty := fld.Type.(type) {
		case *ast.Ellipsis:
			if id, ok := ty.Elt.(*ast.Ident); ok && id.Name == "any" {
				return true
			}
			if _, ok := ty.Elt.(*ast.InterfaceType); ok {
				return true
			}
		case *ast.ArrayType:
			if id, ok := ty.Elt.(*ast.Ident); ok && id.Name == "any" && ty.Len == nil {
				return true
			}
		}
	}
	return false
}

func (t *tie) localCall(key, name string, fd *ast.FuncDecl, c *ast.CallExpr, en *env) []node {
	if fd.Body == nil {
		return nil
	}
	if t.funcFile[key] != t.cur.path && t.funcFile[key] != "" {
		// a helper living in the other file (normalizeUniqueIDs, newHexID, clampSliceCap ...): must not touch the database
		t.ensureNoDB(fd.Body, "helper "+name+" defined in the other file")
		return nil
	}
	if takesArgList(fd) {
		return t.inlineCall(name, fd, c, en)
	}
	sk := t.skeleton(key, fd)
	var closures []*ast.FuncLit
	for _, a := range c.Args {
		if fl, ok := a.(*ast.FuncLit); ok {
			closures = append(closures, fl)
		}
	}
	if !relevant(sk) {
		for _, fl := range closures {
			t.ensureNoDB(fl.Body, "closure passed to "+name+" (which never calls it)")
		}
		return nil
	}
	var cl [][]node
	for _, fl := range closures {
		e := en.copy()
		if fl.Type.Params != nil {
			for _, fld := range fl.Type.Params.List {
				for _, nm := range fld.Names {
					e.vars[nm.Name] = vOpaque{nm.Name}
				}
			}
		}
		cl = append(cl, stripTrailingOK(prune(t.execBlock(fl.Body.List, e))))
	}
	// a pure wrapper (metrics, timing): the closure body takes its place
	if len(sk) == 1 && sk[0].kind == "callparam" && len(cl) == 1 {
		return cl[0]
	}
	return []node{{kind: "call", text: name, closures: cl}}
}

func (t *tie) inlineCall(name string, fd *ast.FuncDecl, c *ast.CallExpr, en *env) []node {
	if t.busy["inline:"+name] {
		t.failf("recursive inlining of %s", name)
		return nil
	}
	t.busy["inline:"+name] = true
	defer delete(t.busy, "inline:"+name)
	e := newEnv()
	i := 0
	for _, fld := range fd.Type.Params.List {
		for _, nm := range fld.Names {
			if _, ok := fld.Type.(*ast.Ellipsis); ok {
				if c.Ellipsis.IsValid() {
					e.vars[nm.Name] = t.evalValue(c.Args[i], en)
				} else {
					var els []aelem
					for _, a := range c.Args[i:] {
						els = append(els, &argOne{t.argText(a)})
					}
					e.vars[nm.Name] = vArgs{els}
				}
				i = len(c.Args)
				continue
			}
			if i < len(c.Args) {
				e.vars[nm.Name] = t.evalValue(c.Args[i], en)
				if _, ok := fld.Type.(*ast.FuncType); ok {
					e.funcParams[nm.Name] = true
				}
			}
			i++
		}
	}
	t.fnStack = append(t.fnStack, name+"(inlined)")
	ns := t.execBlock(fd.Body.List, e)
	t.fnStack = t.fnStack[:len(t.fnStack)-1]
	return dropRetOK(prune(ns))
}

func dropRetOK(ns []node) []node {
	var out []node
	for _, n := range ns {
		if n.kind == "ret" && (n.text == "ok" || n.text == "true" || n.text == "false") {
			continue
		}
		n.then = dropRetOK(n.then)
		n.els = dropRetOK(n.els)
		out = append(out, n)
	}
	return prune(out)
}

// skeleton computes (memoised) the skeleton of a function of the current file.
func (t *tie) skeleton(key string, fd *ast.FuncDecl) []node {
	if sk, ok := t.memo[key]; ok {
		return sk
	}
	if t.busy[key] {
		t.failf("recursive call cycle through %s", key)
		return nil
	}
	t.busy[key] = true
	defer delete(t.busy, key)
	e := newEnv()
	if fd.Type.Params != nil {
		for _, fld := range fd.Type.Params.List {
			for _, nm := range fld.Names {
				if _, ok := fld.Type.(*ast.FuncType); ok {
					e.funcParams[nm.Name] = true
				}
			}
		}
	}
	t.fnStack = append(t.fnStack, fd.Name.Name)
	var ns []node
	if fd.Body != nil {
		ns = prune(t.execBlock(fd.Body.List, e))
	}
	// a trailing plain success return carries no information
	ns = stripTrailingOK(ns)
	t.fnStack = t.fnStack[:len(t.fnStack)-1]
	t.memo[key] = ns
	return ns
}

// relevant: the skeleton touches the database, a transaction, a closure parameter, or returns a
// sentinel/new error (directly or through a call of a relevant function: only those are emitted as calls).
func relevant(ns []node) bool {
	for _, n := range ns {
		switch n.kind {
		case "stmt", "tx", "call", "callparam":
			return true
		case "ret":
			if n.text != "ok" && n.text != "true" && n.text != "false" {
				return true
			}
		}
		if relevant(n.then) || relevant(n.els) {
			return true
		}
		for _, c := range n.cases {
			if relevant(c.body) {
				return true
			}
		}
		for _, c := range n.closures {
			if relevant(c) {
				return true
			}
		}
	}
	return false
}

func stripTrailingOK(ns []node) []node {
	if len(ns) > 0 && ns[len(ns)-1].kind == "ret" && ns[len(ns)-1].text == "ok" {
		return ns[:len(ns)-1]
	}
	return ns
}

func prune(ns []node) []node {
	var out []node
	for _, n := range ns {
		switch n.kind {
		case "if":
			n.then = prune(n.then)
			n.els = prune(n.els)
			if len(n.then) == 0 && len(n.els) == 0 {
				continue
			}
		case "for", "go":
			n.then = prune(n.then)
			if len(n.then) == 0 {
				continue
			}
		case "switch":
			any := false
			for i := range n.cases {
				n.cases[i].body = prune(n.cases[i].body)
				if len(n.cases[i].body) > 0 {
					any = true
				}
			}
			if !any {
				continue
			}
		case "call":
			for i := range n.closures {
				n.closures[i] = prune(n.closures[i])
			}
		}
		out = append(out, n)
	}
	return out
}

// ---------------------------------------------------------------------------
// database calls: bind placeholders, render tokens

func (t *tie) dbCall(how string, c *ast.CallExpr, en *env) []node {
	args := c.Args
	if len(args) >= 1 && (strings.HasSuffix(t.src(c.Fun), "Context")) {
		args = args[1:] // ctx
	}
	if len(args) == 0 {
		t.failf("database call without a query")
		return nil
	}
	qparts, ok := t.evalStr(args[0], en)
	if !ok {
		t.failf("cannot resolve the SQL text of %s", t.src(args[0]))
		return nil
	}
	var actual []aelem
	rest := args[1:]
	if c.Ellipsis.IsValid() && len(rest) == 1 {
		id, ok := rest[0].(*ast.Ident)
		if !ok {
			t.failf("cannot resolve argument list %s", t.src(rest[0]))
			return nil
		}
		v, ok := en.vars[id.Name].(vArgs)
		if !ok {
			t.failf("cannot resolve argument list %s", id.Name)
			return nil
		}
		if len(en.pending[id.Name]) > 0 {
			t.failf("placeholder waiting for an append to %s at the database call", id.Name)
		}
		actual = v.elems
	} else {
		for _, a := range rest {
			actual = append(actual, &argOne{t.argText(a)})
		}
	}
	r := &renderer{t: t, dialect: t.cur.dialect}
	toks := r.render(qparts, actual)
	return []node{{kind: "stmt", text: how, toks: toks}}
}

type renderer struct {
	t       *tie
	dialect string
	used    map[*argOne]bool
}

// render turns the symbolic SQL text into tokens.  For sqlite the i-th `?` is bound to the i-th
// element of the argument structure (conditional pieces must line up); for postgres `$n` indexes the
// static argument list and computed `$%d` placeholders were bound when they were built.
func (r *renderer) render(parts []part, args []aelem) []string {
	r.used = map[*argOne]bool{}
	var toks []string
	if r.dialect == "sqlite" {
		cur := &argCursor{els: args}
		toks = r.renderSeq(parts, cur, args)
		if !cur.done() {
			r.t.failf("more bound arguments than `?` placeholders (next: %s)", cur.peekText())
		}
	} else {
		toks = r.renderSeq(parts, nil, args)
		// every argument of the call must be referenced by some placeholder
		var check func(els []aelem)
		check = func(els []aelem) {
			for _, e := range els {
				switch a := e.(type) {
				case *argOne:
					if !r.used[a] {
						r.t.failf("argument %s is not referenced by any placeholder", a.txt)
					}
				case *argCond:
					check(a.then)
					check(a.els)
				case *argSpread:
					r.t.failf("spread argument %s in a postgres statement", a.txt)
				}
			}
		}
		check(args)
	}
	return toks
}

type argCursor struct {
	els []aelem
	i   int
}

func (c *argCursor) done() bool { return c.i >= len(c.els) }
func (c *argCursor) peek() aelem {
	if c.done() {
		return nil
	}
	return c.els[c.i]
}
func (c *argCursor) peekText() string {
	switch a := c.peek().(type) {
	case *argOne:
		return a.txt
	case *argSpread:
		return a.txt + "..."
	case *argCond:
		return "if " + a.cond
	}
	return "<none>"
}

func hasPlaceholder(parts []part) bool {
	for _, p := range parts {
		switch x := p.(type) {
		case pLit:
			if strings.Contains(x.s, "?") {
				return true
			}
		case pPHList, *pPH:
			return true
		case pCond:
			if hasPlaceholder(x.then) || hasPlaceholder(x.els) {
				return true
			}
		case pJoin:
			return true
		}
	}
	return false
}

func (r *renderer) renderSeq(parts []part, cur *argCursor, all []aelem) []string {
	var toks []string
	var lit strings.Builder
	flush := func() {
		if lit.Len() > 0 {
			toks = append(toks, r.lex(lit.String(), cur, all)...)
			lit.Reset()
		}
	}
	for idx, p := range parts {
		switch x := p.(type) {
		case pLit:
			// "... LIMIT $" + fmt.Sprintf("%d", idx): keep the `$` for the next part
			lit.WriteString(x.s)
		case pInt:
			s := lit.String()
			if strings.HasSuffix(s, "$") && x.ref != nil {
				lit.Reset()
				lit.WriteString(strings.TrimSuffix(s, "$"))
				flush()
				r.used[x.ref] = true
				toks = append(toks, "$*{"+x.ref.txt+"}")
			} else {
				flush()
				r.t.failf("integer %s spliced into SQL text", x.txt)
			}
		case *pPH:
			flush()
			if x.arg == nil {
				r.t.failf("placeholder $%%d was never bound to an argument")
				continue
			}
			r.used[x.arg] = true
			toks = append(toks, "$"+x.n+"{"+x.arg.txt+"}")
		case pPHList:
			flush()
			if cur == nil {
				r.t.failf("`?` list in a postgres statement")
				continue
			}
			sp, ok := cur.peek().(*argSpread)
			if !ok || sp.over != x.over {
				r.t.failf("`?` list over %s is not matched by a spread of the same slice (next argument: %s)", x.over, cur.peekText())
				continue
			}
			cur.i++
			txt := sp.over
			if sp.txt != "" && !regexp.MustCompile(`^\w+$`).MatchString(sp.txt) {
				txt = sp.over + ":" + sp.txt
			}
			toks = append(toks, "?*{"+txt+"}")
		case pCond:
			flush()
			var sub *argCursor
			var subElse *argCursor
			if cur != nil && (hasPlaceholder(x.then) || hasPlaceholder(x.els)) {
				ac, ok := cur.peek().(*argCond)
				if !ok || ac.cond != x.cond {
					r.t.failf("conditional SQL piece (if %s) is not matched by a conditional argument (next argument: %s)", x.cond, cur.peekText())
					continue
				}
				cur.i++
				sub = &argCursor{els: ac.then}
				subElse = &argCursor{els: ac.els}
			} else if cur != nil {
				sub, subElse = &argCursor{}, &argCursor{}
			}
			toks = append(toks, "#opt", "go{"+x.cond+"}")
			toks = append(toks, r.renderSeq(x.then, sub, all)...)
			if sub != nil && !sub.done() {
				r.t.failf("conditional argument without placeholder (if %s: %s)", x.cond, sub.peekText())
			}
			if len(x.els) > 0 {
				toks = append(toks, "#optelse")
				toks = append(toks, r.renderSeq(x.els, subElse, all)...)
			}
			if subElse != nil && !subElse.done() {
				r.t.failf("conditional argument without placeholder (else of %s: %s)", x.cond, subElse.peekText())
			}
			toks = append(toks, "#endopt")
		case pJoin:
			flush()
			toks = append(toks, r.renderJoin(x.elems, x.sep, cur, all, idx)...)
		case pOpaque:
			flush()
			r.t.failf("SQL text contains a piece the translator cannot resolve: %s", x.src)
		}
	}
	flush()
	return toks
}

// renderJoin: strings.Join(list, sep) where the list was built by (conditional) appends.  The
// separator in front of an element is rendered inside the element's own condition; when nothing
// unconditional precedes the element the separator is the token #sep{..} ("separator unless first").
func (r *renderer) renderJoin(elems []lelem, sep string, cur *argCursor, all []aelem, _ int) []string {
	var toks []string
	septoks := r.lex(sep, nil, nil)
	sure := false // an unconditional element has been rendered
	var rec func(els []lelem, cur *argCursor)
	rec = func(els []lelem, cur *argCursor) {
		for _, e := range els {
			switch x := e.(type) {
			case lOne:
				if sure {
					toks = append(toks, septoks...)
				} else if len(toks) > 0 {
					toks = append(toks, "#sep{"+strings.Join(septoks, " ")+"}")
				}
				toks = append(toks, r.renderSeq(x.parts, cur, all)...)
			case lCond:
				var sub, subElse *argCursor
				if cur != nil {
					ac, ok := cur.peek().(*argCond)
					if !ok || ac.cond != x.cond {
						r.t.failf("conditional list element (if %s) is not matched by a conditional argument", x.cond)
						continue
					}
					cur.i++
					sub, subElse = &argCursor{els: ac.then}, &argCursor{els: ac.els}
				}
				toks = append(toks, "#opt", "go{"+x.cond+"}")
				wasSure := sure
				if !sure {
					// inside the condition the element may or may not be the first
					toks = append(toks, "#sep{"+strings.Join(septoks, " ")+"}")
					for _, y := range x.then {
						if o, ok := y.(lOne); ok {
							toks = append(toks, r.renderSeq(o.parts, sub, all)...)
						} else {
							r.t.failf("nested conditional list element")
						}
					}
				} else {
					rec(x.then, sub)
				}
				if len(x.els) > 0 {
					toks = append(toks, "#optelse")
					rec(x.els, subElse)
				}
				toks = append(toks, "#endopt")
				sure = wasSure
				continue
			}
			sure = true
		}
	}
	rec(elems, cur)
	return toks
}

// lex splits SQL text into tokens; `?` and `$n` placeholders are bound on the way.
func (r *renderer) lex(s string, cur *argCursor, all []aelem) []string {
	var toks []string
	i := 0
	isWord := func(b byte) bool {
		return b == '_' || (b >= 'a' && b <= 'z') || (b >= 'A' && b <= 'Z') || (b >= '0' && b <= '9')
	}
	for i < len(s) {
		ch := s[i]
		switch {
		case ch == ' ' || ch == '\n' || ch == '\t' || ch == '\r':
			i++
		case ch == '\'':
			j := i + 1
			for j < len(s) {
				if s[j] == '\'' {
					if j+1 < len(s) && s[j+1] == '\'' {
						j += 2
						continue
					}
					break
				}
				j++
			}
			if j >= len(s) {
				r.t.failf("unterminated string literal in SQL text")
				return toks
			}
			toks = append(toks, s[i:j+1])
			i = j + 1
		case ch == '"' || ch == '`':
			j := strings.IndexByte(s[i+1:], ch)
			if j < 0 {
				r.t.failf("unterminated quoted identifier in SQL text")
				return toks
			}
			toks = append(toks, s[i:i+j+2])
			i = i + j + 2
		case ch == '?':
			i++
			if r.dialect != "sqlite" || cur == nil {
				r.t.failf("`?` placeholder outside a sqlite statement")
				continue
			}
			a, ok := cur.peek().(*argOne)
			if !ok {
				r.t.failf("`?` placeholder without a plain bound argument (next: %s)", cur.peekText())
				continue
			}
			cur.i++
			toks = append(toks, "?{"+a.txt+"}")
		case ch == '$':
			j := i + 1
			for j < len(s) && s[j] >= '0' && s[j] <= '9' {
				j++
			}
			if j == i+1 {
				r.t.failf("`$` without an index in SQL text")
				i++
				continue
			}
			n, _ := strconv.Atoi(s[i+1 : j])
			i = j
			if r.dialect != "pg" {
				r.t.failf("`$%d` placeholder outside a postgres statement", n)
				continue
			}
			if n < 1 || n > len(all) {
				r.t.failf("placeholder $%d has no argument (%d given)", n, len(all))
				continue
			}
			a, ok := all[n-1].(*argOne)
			if !ok {
				r.t.failf("placeholder $%d indexes a conditional argument list", n)
				continue
			}
			r.used[a] = true
			toks = append(toks, "$"+strconv.Itoa(n)+"{"+a.txt+"}")
		case isWord(ch):
			j := i
			for j < len(s) && isWord(s[j]) {
				j++
			}
			toks = append(toks, s[i:j])
			i = j
		default:
			two := ""
			if i+1 < len(s) {
				two = s[i : i+2]
			}
			switch two {
			case "<=", ">=", "<>", "!=", "||", "::":
				toks = append(toks, two)
				i += 2
				continue
			}
			if ch == '-' && i+1 < len(s) && s[i+1] >= '0' && s[i+1] <= '9' {
				prev := ""
				if len(toks) > 0 {
					prev = toks[len(toks)-1]
				}
				if prev == "" || prev == "(" || prev == "," || regexp.MustCompile(`^[A-Z]+$`).MatchString(prev) {
					j := i + 1
					for j < len(s) && s[j] >= '0' && s[j] <= '9' {
						j++
					}
					toks = append(toks, s[i:j])
					i = j
					continue
				}
			}
			toks = append(toks, string(ch))
			i++
		}
	}
	return toks
}

// ---------------------------------------------------------------------------
// flattening

func flatten(ns []node) []string {
	var out []string
	for _, n := range ns {
		switch n.kind {
		case "if":
			out = append(out, "#if", "go{"+n.text+"}")
			out = append(out, flatten(n.then)...)
			if len(n.els) > 0 {
				out = append(out, "#else")
				out = append(out, flatten(n.els)...)
			}
			out = append(out, "#end")
		case "for":
			out = append(out, "#for", "go{"+n.text+"}")
			out = append(out, flatten(n.then)...)
			out = append(out, "#end")
		case "go":
			out = append(out, "#go")
			out = append(out, flatten(n.then)...)
			out = append(out, "#end")
		case "switch":
			out = append(out, "#switch", "go{"+n.text+"}")
			for _, c := range n.cases {
				out = append(out, "#case", "go{"+c.label+"}")
				out = append(out, flatten(c.body)...)
			}
			out = append(out, "#end")
		case "stmt":
			out = append(out, "#stmt:"+n.text)
			out = append(out, n.toks...)
			out = append(out, "#endstmt")
		case "tx":
			out = append(out, "#"+n.text)
		case "call":
			out = append(out, "#call:"+n.text)
			for _, cl := range n.closures {
				out = append(out, "#closure")
				out = append(out, flatten(cl)...)
				out = append(out, "#end")
			}
		case "callparam":
			out = append(out, "#callparam:"+n.text)
		case "ret":
			out = append(out, "#ret:"+n.text)
		case "assign":
			out = append(out, "#assign", "go{"+n.text+"}")
		case "field":
			out = append(out, "#field", "go{"+n.text+"}")
		}
	}
	return out
}

// ---------------------------------------------------------------------------
// schema, constants, inventory

var createTableRe = regexp.MustCompile(`(?s)CREATE TABLE IF NOT EXISTS (\w+) \((.*?)\n\);`)
var alterAddRe = regexp.MustCompile(`ALTER TABLE (\w+) ADD COLUMN (\w+)`)

func schemaColumns(texts []string) []string {
	var out []string
	for _, txt := range texts {
		for _, m := range createTableRe.FindAllStringSubmatch(txt, -1) {
			for _, line := range strings.Split(m[2], "\n") {
				f := strings.Fields(strings.TrimSpace(line))
				if len(f) < 2 || strings.ToUpper(f[0]) == "PRIMARY" || strings.ToUpper(f[0]) == "UNIQUE" || strings.ToUpper(f[0]) == "CHECK" {
					continue
				}
				out = append(out, m[1]+"."+f[0])
			}
		}
		for _, m := range alterAddRe.FindAllStringSubmatch(txt, -1) {
			out = append(out, m[1]+"."+m[2])
		}
	}
	sort.Strings(out)
	return out
}

func pgStrList(name string, l []string, b *strings.Builder) {
	fmt.Fprintf(b, "Definition %s : list string :=\n  [", name)
	line := 3
	for i, s := range l {
		if i > 0 {
			b.WriteString("; ")
			line += 2
		}
		q := coqStr(s)
		if line+len(q) > 110 || strings.HasPrefix(s, "#stmt") || s == "#if" || s == "#for" || strings.HasPrefix(s, "#call") || strings.HasPrefix(s, "#ret") || s == "#begin" || s == "#commit" {
			b.WriteString("\n   ")
			line = 3
		}
		b.WriteString(q)
		line += len(q)
	}
	b.WriteString("].\n\n")
}

func coqIdent(s string) string {
	var b strings.Builder
	for _, r := range s {
		if r == '_' || (r >= 'a' && r <= 'z') || (r >= 'A' && r <= 'Z') || (r >= '0' && r <= '9') {
			b.WriteRune(r)
		} else {
			b.WriteRune('_')
		}
	}
	return b.String()
}

func pgtieGenerate(repo string) (string, error) {
	fset := token.NewFileSet()
	dir := filepath.Join(repo, "internal", "queue")
	parse := func(name string) (*ast.File, error) {
		return parser.ParseFile(fset, filepath.Join(dir, name), nil, 0)
	}
	t := &tie{fset: fset, funcs: map[string]*ast.FuncDecl{}, funcFile: map[string]string{}, intConsts: map[string]string{},
		strConsts: map[string]string{}, rawConsts: map[string]string{}, errVars: map[string]bool{}}
	files := map[string]*ast.File{}
	for _, name := range []string{"queue.go", "memory.go", "sqlite.go", "postgres.go"} {
		f, err := parse(name)
		if err != nil {
			return "", err
		}
		files[name] = f
	}
	constsOf := map[string][][2]string{}
	for _, name := range []string{"queue.go", "sqlite.go", "postgres.go"} {
		f := files[name]
		cenv := collectConsts(f)
		for _, d := range f.Decls {
			gd, ok := d.(*ast.GenDecl)
			if !ok || gd.Tok != token.CONST {
				continue
			}
			for _, sp := range gd.Specs {
				vs := sp.(*ast.ValueSpec)
				for i, nm := range vs.Names {
					if i >= len(vs.Values) {
						continue
					}
					if bl, ok := vs.Values[i].(*ast.BasicLit); ok && bl.Kind == token.STRING {
						u, err := strconv.Unquote(bl.Value)
						if err != nil {
							continue
						}
						if vs.Type != nil {
							t.strConsts[nm.Name] = u
						} else {
							t.rawConsts[nm.Name] = u
							if !strings.Contains(u, "\n") {
								t.strConsts[nm.Name] = u
							}
						}
						continue
					}
					if v, err := evalConst(vs.Values[i], cenv, 0); err == nil {
						if name != "queue.go" {
							t.intConsts[nm.Name] = strconv.FormatInt(v, 10)
							constsOf[name] = append(constsOf[name], [2]string{nm.Name, strconv.FormatInt(v, 10)})
						}
					}
				}
			}
		}
	}
	// durations read better unexpanded; keep only the plain integer limits resolved
	for k := range t.intConsts {
		if strings.Contains(strings.ToLower(k), "interval") || strings.Contains(strings.ToLower(k), "retention") {
			delete(t.intConsts, k)
		}
	}
	for _, d := range files["memory.go"].Decls {
		gd, ok := d.(*ast.GenDecl)
		if !ok || gd.Tok != token.VAR {
			continue
		}
		for _, sp := range gd.Specs {
			vs := sp.(*ast.ValueSpec)
			for _, nm := range vs.Names {
				if strings.HasPrefix(nm.Name, "Err") {
					t.errVars[nm.Name] = true
				}
			}
		}
	}
	if len(t.errVars) == 0 {
		return "", fmt.Errorf("no Err* variables found in memory.go")
	}
	tfs := []*tieFile{
		{path: "sqlite.go", dialect: "sqlite", recv: "SQLiteStore", file: files["sqlite.go"]},
		{path: "postgres.go", dialect: "pg", recv: "PostgresStore", file: files["postgres.go"]},
	}
	recvName := func(fd *ast.FuncDecl) string {
		if fd.Recv == nil || len(fd.Recv.List) == 0 {
			return ""
		}
		ty := fd.Recv.List[0].Type
		if st, ok := ty.(*ast.StarExpr); ok {
			ty = st.X
		}
		if id, ok := ty.(*ast.Ident); ok {
			return id.Name
		}
		return ""
	}
	for _, tf := range tfs {
		for _, d := range tf.file.Decls {
			fd, ok := d.(*ast.FuncDecl)
			if !ok {
				continue
			}
			key := fd.Name.Name
			if r := recvName(fd); r != "" {
				key = r + "." + key
			}
			t.funcs[key] = fd
			t.funcFile[key] = tf.path
		}
	}

	var b strings.Builder
	b.WriteString("(* GENERATED by /verif/translate (pgtie.go) from internal/queue/sqlite.go and postgres.go -- do not edit *)\n")
	b.WriteString("From Coq Require Import String List.\nImport ListNotations.\nOpen Scope string_scope.\n\n")
	type emitted struct{ name string }
	for _, tf := range tfs {
		t.cur = tf
		t.memo = map[string][]node{}
		t.busy = map[string]bool{}
		var methods, funcs, helpers, all []string
		skels := map[string][]string{}
		var keys []string
		for key := range t.funcs {
			if t.funcFile[key] == tf.path {
				keys = append(keys, key)
			}
		}
		sort.Strings(keys)
		for _, key := range keys {
			fd := t.funcs[key]
			r := recvName(fd)
			if r != "" && r != tf.recv {
				continue // methods of helper types (histograms, metrics)
			}
			if takesArgList(fd) {
				continue // only ever inlined
			}
			sk := flatten(t.skeleton(key, fd))
			name := fd.Name.Name
			exported := ast.IsExported(name)
			if exported && r != "" {
				methods = append(methods, name)
			} else if exported {
				funcs = append(funcs, name)
			}
			if len(sk) == 0 || (!relevant(t.skeleton(key, fd)) && !(exported && r == "")) {
				continue
			}
			if !exported {
				helpers = append(helpers, name)
			}
			all = append(all, name)
			skels[name] = sk
		}
		// the constructor's struct literal: defaults of the store
		for _, key := range keys {
			fd := t.funcs[key]
			if fd.Recv != nil || !strings.HasPrefix(fd.Name.Name, "New") {
				continue
			}
			var fields []string
			ast.Inspect(fd.Body, func(n ast.Node) bool {
				cl, ok := n.(*ast.CompositeLit)
				if !ok || t.src(cl.Type) != tf.recv {
					return true
				}
				for _, el := range cl.Elts {
					if kv, ok := el.(*ast.KeyValueExpr); ok {
						fields = append(fields, "#field", "go{"+t.goText(kv.Key)+": "+t.goText(kv.Value)+"}")
					}
				}
				return false
			})
			if len(fields) > 0 {
				name := fd.Name.Name
				skels[name] = append(fields, skels[name]...)
				found := false
				for _, a := range all {
					if a == name {
						found = true
					}
				}
				if !found {
					all = append(all, name)
					sort.Strings(all)
				}
			}
		}
		p := tf.dialect
		sort.Strings(helpers)
		sort.Strings(all)
		pgStrList(p+"_methods", methods, &b)
		pgStrList(p+"_funcs", funcs, &b)
		pgStrList(p+"_helpers", helpers, &b)
		var errsUsed []string
		seen := map[string]bool{}
		ast.Inspect(tf.file, func(n ast.Node) bool {
			if id, ok := n.(*ast.Ident); ok && t.errVars[id.Name] && !seen[id.Name] {
				seen[id.Name] = true
				errsUsed = append(errsUsed, id.Name)
			}
			return true
		})
		sort.Strings(errsUsed)
		pgStrList(p+"_errors_used", errsUsed, &b)
		var schemaTexts []string
		for k, v := range t.rawConsts {
			if strings.Contains(v, "CREATE TABLE") || strings.Contains(v, "ALTER TABLE") {
				isPg := strings.HasPrefix(k, "postgres")
				if (tf.dialect == "pg") == isPg {
					schemaTexts = append(schemaTexts, v)
				}
			}
		}
		sort.Strings(schemaTexts)
		pgStrList(p+"_columns", schemaColumns(schemaTexts), &b)
		var cs []string
		for _, c := range constsOf[tf.path] {
			cs = append(cs, c[0]+"="+c[1])
		}
		sort.Strings(cs)
		pgStrList(p+"_consts", cs, &b)
		for _, name := range all {
			pgStrList(p+"_"+coqIdent(name), skels[name], &b)
		}
		fmt.Fprintf(&b, "Definition %s_skeletons : list (string * list string) :=\n  [", p)
		for i, name := range all {
			if i > 0 {
				b.WriteString(";\n   ")
			}
			fmt.Fprintf(&b, "(%s, %s_%s)", coqStr(name), p, coqIdent(name))
		}
		b.WriteString("].\n\n")
	}
	if len(t.errs) > 0 {
		return "", fmt.Errorf("%s", strings.Join(t.errs, "\n"))
	}
	return b.String(), nil
}

// genPgTie never fails the whole translator run: an unresolvable source shape is recorded in the
// generated file, where it breaks the C13pg obligations (and only those).
func genPgTie(repo string) (string, error) {
	txt, err := pgtieGenerate(repo)
	if err == nil {
		return txt, nil
	}
	var b strings.Builder
	b.WriteString("(* GENERATED by /verif/translate (pgtie.go) -- the translator could not resolve the sources *)\n")
	b.WriteString("From Coq Require Import String List.\nImport ListNotations.\nOpen Scope string_scope.\n\n")
	msg := err.Error()
	if len(msg) > 3000 {
		msg = msg[:3000] + " ..."
	}
	msg = strings.Map(func(r rune) rune {
		if r == '\n' {
			return '|'
		}
		if r < 32 || r > 126 {
			return '?'
		}
		return r
	}, msg)
	fmt.Fprintf(&b, "Definition pgtie_error : string := %s.\n", coqStr(msg))
	return b.String(), nil
}
