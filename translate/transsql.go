package main

// A small tokenizer/parser for the SQL statements that internal/queue/sqlite.go and
// postgres.go run against queue_items.  It understands exactly the statement shapes the
// stores use and fails (returns an error) on anything else: the caller turns that into a
// loud translator failure.

import (
	"fmt"
	"strconv"
	"strings"
)

type sqlTok struct {
	kind string // "id" (identifier/keyword), "num", "str", "sym", "ph" (bound placeholder)
	text string // identifiers upper-cased in up, original in text
	up   string
	arg  int // kind "ph": index into the bound argument list
}

// sqlLex splits text into tokens.  Placeholders were replaced by the caller with
// \x00<index>\x00 markers.
func sqlLex(text string) ([]sqlTok, error) {
	var out []sqlTok
	i := 0
	for i < len(text) {
		c := text[i]
		switch {
		case c == ' ' || c == '\t' || c == '\n' || c == '\r':
			i++
		case c == 0:
			j := strings.IndexByte(text[i+1:], 0)
			if j < 0 {
				return nil, fmt.Errorf("unterminated placeholder marker")
			}
			n, err := strconv.Atoi(text[i+1 : i+1+j])
			if err != nil {
				return nil, err
			}
			out = append(out, sqlTok{kind: "ph", arg: n, text: "?"})
			i += j + 2
		case c == '\'':
			j := i + 1
			for j < len(text) && text[j] != '\'' {
				j++
			}
			if j >= len(text) {
				return nil, fmt.Errorf("unterminated string literal")
			}
			out = append(out, sqlTok{kind: "str", text: text[i+1 : j]})
			i = j + 1
		case c >= '0' && c <= '9':
			j := i
			for j < len(text) && text[j] >= '0' && text[j] <= '9' {
				j++
			}
			out = append(out, sqlTok{kind: "num", text: text[i:j]})
			i = j
		case c == '_' || (c >= 'a' && c <= 'z') || (c >= 'A' && c <= 'Z'):
			j := i
			for j < len(text) && (text[j] == '_' || text[j] == '.' || (text[j] >= 'a' && text[j] <= 'z') || (text[j] >= 'A' && text[j] <= 'Z') || (text[j] >= '0' && text[j] <= '9')) {
				j++
			}
			out = append(out, sqlTok{kind: "id", text: text[i:j], up: strings.ToUpper(text[i:j])})
			i = j
		default:
			for _, s := range []string{"<=", ">=", "<>", "!=", "||"} {
				if strings.HasPrefix(text[i:], s) {
					out = append(out, sqlTok{kind: "sym", text: s})
					i += 2
					goto next
				}
			}
			if strings.ContainsRune("(),=<>+-*;", rune(c)) {
				out = append(out, sqlTok{kind: "sym", text: string(c)})
				i++
			} else {
				return nil, fmt.Errorf("unexpected character %q in SQL", c)
			}
		next:
		}
	}
	return out, nil
}

// sqlAtom is one conjunct of a WHERE clause.
type sqlAtom struct {
	col   string   // lower-case column, "" for an opaque group
	op    string   // = <= >= < > <> != IN ANY ISNULL ISNOTNULL GROUP CONST
	vals  []sqlTok // right-hand side value tokens (placeholders / literals) for = IN ANY and comparisons
	sub   *sqlSelect
	group []sqlTok // op GROUP: the tokens inside the parentheses
}

type sqlSelect struct {
	cols  []string
	table string
	where []sqlAtom
}

type sqlAssign struct {
	col  string
	expr []sqlTok
}

type sqlStmt struct {
	verb    string // UPDATE DELETE INSERT SELECT
	table   string
	ctes    map[string]*sqlSelect
	assigns []sqlAssign
	where   []sqlAtom
	insCols []string
	insVals [][]sqlTok
	sel     *sqlSelect
}

type sqlParser struct {
	toks []sqlTok
	pos  int
}

func (p *sqlParser) peek() *sqlTok {
	if p.pos < len(p.toks) {
		return &p.toks[p.pos]
	}
	return nil
}

func (p *sqlParser) isKw(kw string) bool {
	t := p.peek()
	return t != nil && t.kind == "id" && t.up == kw
}

func (p *sqlParser) isSym(s string) bool {
	t := p.peek()
	return t != nil && t.kind == "sym" && t.text == s
}

func (p *sqlParser) expectKw(kw string) error {
	if !p.isKw(kw) {
		return fmt.Errorf("expected %s at token %d (%s)", kw, p.pos, p.describe())
	}
	p.pos++
	return nil
}

func (p *sqlParser) expectSym(s string) error {
	if !p.isSym(s) {
		return fmt.Errorf("expected %q at token %d (%s)", s, p.pos, p.describe())
	}
	p.pos++
	return nil
}

func (p *sqlParser) describe() string {
	t := p.peek()
	if t == nil {
		return "end of statement"
	}
	return t.kind + " " + t.text
}

func (p *sqlParser) ident() (string, error) {
	t := p.peek()
	if t == nil || t.kind != "id" {
		return "", fmt.Errorf("expected identifier at token %d (%s)", p.pos, p.describe())
	}
	p.pos++
	return strings.ToLower(t.text), nil
}

func parseSQL(text string) (*sqlStmt, error) {
	toks, err := sqlLex(text)
	if err != nil {
		return nil, err
	}
	p := &sqlParser{toks: toks}
	st := &sqlStmt{ctes: map[string]*sqlSelect{}}
	if p.isKw("WITH") {
		p.pos++
		name, err := p.ident()
		if err != nil {
			return nil, err
		}
		if err := p.expectKw("AS"); err != nil {
			return nil, err
		}
		if err := p.expectSym("("); err != nil {
			return nil, err
		}
		sel, err := p.parseSelect()
		if err != nil {
			return nil, err
		}
		if err := p.expectSym(")"); err != nil {
			return nil, err
		}
		st.ctes[name] = sel
	}
	switch {
	case p.isKw("UPDATE"):
		p.pos++
		st.verb = "UPDATE"
		if st.table, err = p.ident(); err != nil {
			return nil, err
		}
		if err := p.expectKw("SET"); err != nil {
			return nil, err
		}
		for {
			col, err := p.ident()
			if err != nil {
				return nil, err
			}
			if err := p.expectSym("="); err != nil {
				return nil, err
			}
			var expr []sqlTok
			depth := 0
			for p.peek() != nil {
				t := p.peek()
				if depth == 0 && (p.isSym(",") || p.isKw("WHERE") || p.isKw("RETURNING") || p.isSym(";")) {
					break
				}
				if t.kind == "sym" && t.text == "(" {
					depth++
				}
				if t.kind == "sym" && t.text == ")" {
					depth--
				}
				expr = append(expr, *t)
				p.pos++
			}
			if len(expr) == 0 {
				return nil, fmt.Errorf("empty SET expression for %s", col)
			}
			st.assigns = append(st.assigns, sqlAssign{col, expr})
			if p.isSym(",") {
				p.pos++
				continue
			}
			break
		}
		if !p.isKw("WHERE") {
			return nil, fmt.Errorf("UPDATE without WHERE")
		}
		p.pos++
		if st.where, err = p.parseConj(); err != nil {
			return nil, err
		}
	case p.isKw("DELETE"):
		p.pos++
		st.verb = "DELETE"
		if err := p.expectKw("FROM"); err != nil {
			return nil, err
		}
		if st.table, err = p.ident(); err != nil {
			return nil, err
		}
		if !p.isKw("WHERE") {
			return nil, fmt.Errorf("DELETE without WHERE")
		}
		p.pos++
		if st.where, err = p.parseConj(); err != nil {
			return nil, err
		}
	case p.isKw("INSERT"):
		p.pos++
		st.verb = "INSERT"
		if err := p.expectKw("INTO"); err != nil {
			return nil, err
		}
		if st.table, err = p.ident(); err != nil {
			return nil, err
		}
		if err := p.expectSym("("); err != nil {
			return nil, err
		}
		for {
			c, err := p.ident()
			if err != nil {
				return nil, err
			}
			st.insCols = append(st.insCols, c)
			if p.isSym(",") {
				p.pos++
				continue
			}
			break
		}
		if err := p.expectSym(")"); err != nil {
			return nil, err
		}
		if err := p.expectKw("VALUES"); err != nil {
			return nil, err
		}
		if err := p.expectSym("("); err != nil {
			return nil, err
		}
		var cur []sqlTok
		depth := 0
		for {
			t := p.peek()
			if t == nil {
				return nil, fmt.Errorf("unterminated VALUES list")
			}
			if depth == 0 && t.kind == "sym" && (t.text == "," || t.text == ")") {
				st.insVals = append(st.insVals, cur)
				cur = nil
				p.pos++
				if t.text == ")" {
					break
				}
				continue
			}
			if t.kind == "sym" && t.text == "(" {
				depth++
			}
			if t.kind == "sym" && t.text == ")" {
				depth--
			}
			cur = append(cur, *t)
			p.pos++
		}
		if len(st.insVals) != len(st.insCols) {
			return nil, fmt.Errorf("INSERT names %d columns but gives %d values", len(st.insCols), len(st.insVals))
		}
	case p.isKw("SELECT"):
		st.verb = "SELECT"
		if st.sel, err = p.parseSelect(); err != nil {
			return nil, err
		}
		st.table = st.sel.table
	default:
		return nil, fmt.Errorf("statement starts with %s", p.describe())
	}
	// tail: RETURNING ..., ';'
	if p.isKw("RETURNING") {
		p.pos = len(p.toks)
	}
	for p.isSym(";") {
		p.pos++
	}
	if p.peek() != nil {
		return nil, fmt.Errorf("unparsed tail starting at %s", p.describe())
	}
	return st, nil
}

// parseSelect parses SELECT cols FROM table [WHERE conj] and skips ORDER BY / LIMIT /
// OFFSET / FOR UPDATE up to the closing parenthesis (or the end).
func (p *sqlParser) parseSelect() (*sqlSelect, error) {
	if err := p.expectKw("SELECT"); err != nil {
		return nil, err
	}
	sel := &sqlSelect{}
	var cur []string
	depth := 0
	for {
		t := p.peek()
		if t == nil {
			return nil, fmt.Errorf("SELECT without FROM")
		}
		if depth == 0 && t.kind == "id" && t.up == "FROM" {
			sel.cols = append(sel.cols, strings.ToLower(strings.Join(cur, " ")))
			p.pos++
			break
		}
		if depth == 0 && t.kind == "sym" && t.text == "," {
			sel.cols = append(sel.cols, strings.ToLower(strings.Join(cur, " ")))
			cur = nil
			p.pos++
			continue
		}
		if t.kind == "sym" && t.text == "(" {
			depth++
		}
		if t.kind == "sym" && t.text == ")" {
			depth--
		}
		cur = append(cur, t.text)
		p.pos++
	}
	var err error
	if sel.table, err = p.ident(); err != nil {
		return nil, err
	}
	if p.isKw("WHERE") {
		p.pos++
		if sel.where, err = p.parseConj(); err != nil {
			return nil, err
		}
	}
	// skip the tail
	depth = 0
	for p.peek() != nil {
		t := p.peek()
		if t.kind == "sym" && t.text == "(" {
			depth++
		}
		if t.kind == "sym" && t.text == ")" {
			if depth == 0 {
				break
			}
			depth--
		}
		if depth == 0 && t.kind == "sym" && t.text == ";" {
			break
		}
		if depth == 0 && t.kind == "id" && (t.up == "WHERE" || t.up == "AND" || t.up == "OR") {
			return nil, fmt.Errorf("unexpected %s after the WHERE clause of a SELECT", t.up)
		}
		p.pos++
	}
	return sel, nil
}

func (p *sqlParser) condEnd() bool {
	t := p.peek()
	if t == nil {
		return true
	}
	if t.kind == "sym" && (t.text == ")" || t.text == ";") {
		return true
	}
	if t.kind == "id" {
		switch t.up {
		case "ORDER", "LIMIT", "OFFSET", "FOR", "RETURNING", "GROUP":
			return true
		}
	}
	return false
}

// parseConj parses atom (AND atom)*; a top-level OR is an error (the stores never use one
// outside parentheses).
func (p *sqlParser) parseConj() ([]sqlAtom, error) {
	var out []sqlAtom
	for {
		a, err := p.parseAtom()
		if err != nil {
			return nil, err
		}
		out = append(out, a)
		if p.isKw("AND") {
			p.pos++
			continue
		}
		if p.isKw("OR") {
			return nil, fmt.Errorf("top-level OR in a WHERE clause")
		}
		if !p.condEnd() {
			return nil, fmt.Errorf("unexpected %s in a WHERE clause", p.describe())
		}
		return out, nil
	}
}

func (p *sqlParser) valueTokens() []sqlTok {
	var out []sqlTok
	depth := 0
	for p.peek() != nil {
		t := p.peek()
		if depth == 0 && (p.isKw("AND") || p.isKw("OR") || p.condEnd()) {
			break
		}
		if t.kind == "sym" && t.text == "(" {
			depth++
		}
		if t.kind == "sym" && t.text == ")" {
			depth--
		}
		out = append(out, *t)
		p.pos++
	}
	return out
}

func (p *sqlParser) parseAtom() (sqlAtom, error) {
	if p.isSym("(") {
		p.pos++
		var g []sqlTok
		depth := 0
		for {
			t := p.peek()
			if t == nil {
				return sqlAtom{}, fmt.Errorf("unterminated parenthesis in WHERE")
			}
			if t.kind == "sym" && t.text == ")" {
				if depth == 0 {
					p.pos++
					break
				}
				depth--
			}
			if t.kind == "sym" && t.text == "(" {
				depth++
			}
			g = append(g, *t)
			p.pos++
		}
		return sqlAtom{op: "GROUP", group: g}, nil
	}
	t := p.peek()
	if t != nil && t.kind == "num" {
		// constant comparison such as 1 = 1
		v := p.valueTokens()
		return sqlAtom{op: "CONST", vals: v}, nil
	}
	col, err := p.ident()
	if err != nil {
		return sqlAtom{}, err
	}
	a := sqlAtom{col: col}
	switch {
	case p.isKw("IS"):
		p.pos++
		if p.isKw("NOT") {
			p.pos++
			a.op = "ISNOTNULL"
		} else {
			a.op = "ISNULL"
		}
		if err := p.expectKw("NULL"); err != nil {
			return a, err
		}
		return a, nil
	case p.isKw("IN"):
		p.pos++
		a.op = "IN"
		if err := p.expectSym("("); err != nil {
			return a, err
		}
		if p.isKw("SELECT") {
			sub, err := p.parseSelect()
			if err != nil {
				return a, err
			}
			a.sub = sub
			return a, p.expectSym(")")
		}
		for {
			t := p.peek()
			if t == nil {
				return a, fmt.Errorf("unterminated IN list")
			}
			if t.kind == "ph" || t.kind == "str" {
				a.vals = append(a.vals, *t)
				p.pos++
			} else {
				return a, fmt.Errorf("IN list element %s", p.describe())
			}
			if p.isSym(",") {
				p.pos++
				continue
			}
			break
		}
		return a, p.expectSym(")")
	}
	t = p.peek()
	if t == nil || t.kind != "sym" {
		return a, fmt.Errorf("expected a comparison after %s, got %s", col, p.describe())
	}
	switch t.text {
	case "=", "<=", ">=", "<", ">", "<>", "!=":
		a.op = t.text
		p.pos++
	default:
		return a, fmt.Errorf("operator %q after %s", t.text, col)
	}
	if p.isSym("(") && p.pos+1 < len(p.toks) && p.toks[p.pos+1].kind == "id" && p.toks[p.pos+1].up == "SELECT" {
		if a.op != "=" {
			return a, fmt.Errorf("sub-select compared with %s", a.op)
		}
		p.pos++
		sub, err := p.parseSelect()
		if err != nil {
			return a, err
		}
		a.sub = sub
		return a, p.expectSym(")")
	}
	if p.isKw("ANY") {
		if a.op != "=" {
			return a, fmt.Errorf("ANY compared with %s", a.op)
		}
		p.pos++
		a.op = "ANY"
		if err := p.expectSym("("); err != nil {
			return a, err
		}
		t := p.peek()
		if t == nil || t.kind != "ph" {
			return a, fmt.Errorf("ANY(%s)", p.describe())
		}
		a.vals = []sqlTok{*t}
		p.pos++
		return a, p.expectSym(")")
	}
	a.vals = p.valueTokens()
	if len(a.vals) == 0 {
		return a, fmt.Errorf("missing right-hand side after %s %s", col, a.op)
	}
	return a, nil
}

func toksMention(toks []sqlTok, col string) bool {
	for _, t := range toks {
		if t.kind == "id" && strings.ToLower(t.text) == col {
			return true
		}
	}
	return false
}
